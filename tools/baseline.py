#!/venv/bin/python
"""Run the repository's pinned suite on a tree and compare with /root/.vp/BASELINE.json stable_pass.
usage: baseline.py [tree]   (default /repo)  -> exit 0 iff every stable_pass test still passes"""
import json, os, subprocess, sys, tempfile
import xml.etree.ElementTree as ET
tree = sys.argv[1] if len(sys.argv) > 1 else "/repo"
base = json.load(open("/root/.vp/BASELINE.json"))
with tempfile.TemporaryDirectory() as td:
    xml = os.path.join(td, "j.xml")
    env = dict(os.environ, PYTHONDONTWRITEBYTECODE="1")
    env.pop("ODC_GEO_VERIF", None)
    if tree != "/repo":
        env["PYTHONPATH"] = tree
    p = subprocess.run(["/venv/bin/python", "-m", "pytest", "-q", "-p", "no:cacheprovider", "--timeout=900",
                        "--continue-on-collection-errors", "-x" if "-x" in sys.argv else "-q", f"--junitxml={xml}"],
                       cwd=tree, env=env, capture_output=True, text=True)
    passed = set()
    for tc in ET.parse(xml).getroot().iter("testcase"):
        if not any(c.tag in ("failure", "error", "skipped") for c in tc):
            passed.add(f"{tc.get('classname')}::{tc.get('name')}")
missing = [t for t in base["stable_pass"] if t not in passed]
print(f"stable_pass={len(base['stable_pass'])} passed_now={len(passed)} missing={len(missing)}")
for m in missing[:40]:
    print("  MISSING", m)
sys.exit(1 if missing else 0)
