#!/venv/bin/python
"""Print a markdown table of /verif/seeded/*/meta.json (which checks catch which seeded changes)."""
import json
from pathlib import Path

rows = []
for m in sorted(Path("/verif/seeded").glob("*/meta.json")):
    d = json.loads(m.read_text())
    notes = (m.parent / "NOTES.md")
    first = ""
    if notes.exists():
        for line in notes.read_text().splitlines():
            line = line.strip().lstrip("#").strip()
            if len(line) > 25:
                first = line[:150]
                break
    prev = d.get("previous_runs", [])
    missed_first = (bool(prev) and not prev[0].get("detected_by")) or "missed" in d.get("note", "")
    keys = []
    for pid, c in d.get("checks", {}).items():
        if c.get("detected"):
            keys += [k.split(" count=")[0].replace("key=", "") for k in c.get("keys", [])[:2]]
    rows.append((d["name"], d["breaks"], "yes" if d.get("confirmed") else "NO", ", ".join(d.get("detected_by") or []) or "**missed**",
                 "missed at first; check strengthened" if missed_first else "", "; ".join(keys)[:160], first))
print("| seeded change | breaks | confirmed (demo fails with / passes without, suite green) | detected by (quick) | note | finding keys | what it is |")
print("|---|---|---|---|---|---|---|")
for r in rows:
    print("| " + " | ".join(r) + " |")
