#!/venv/bin/python
"""Regenerate /verif/MANIFEST.json from the table below (single source of truth)."""
import json, sys
from pathlib import Path

V = Path(__file__).resolve().parent.parent
ALL = [f"C{i:02d}" for i in range(1, 21)]

E1 = "bounded-exhaustive enumeration of the real functions against an independent reference model"
CHECKS = {
 "C17": dict(level="exploration", engine="E1",
   technique="bounded-exhaustive input enumeration on the implementation vs numpy/exact-integer reference model",
   text="Every slice/int index with |i|<=n for n<=7, every ordered pair of slices on [0,9], every pad/scale in the stated ranges and every 1-3 point set from a 13-value alphabet (nan, inf, beyond int32) is executed on the real helpers and compared with numpy indexing on arange(n) / an exact-integer envelope model. Complete within those bounds; nothing sampled.",
   note="Trusts numpy indexing as the reference semantics. Out-of-range indices (|i|>n) are outside the property's quantifier.",
   design="4/C17", thorough=False),
 "C06": dict(level="model_checking", engine="E2+E3b",
   technique="explicit-state search: interval DP over all binary merge trees on the real MPUChunk code + exhaustive dask task-order exploration within a deviation bound",
   text="For every configuration in a stated finite product (partition contents, writes per chunk, spill size, header/footer, writer limits) the reachable states of EVERY binary merge tree over the partitions are computed by interval dynamic programming whose transitions are calls of the real append/merge/spill/finalise code against a recording writer; all stream, part-id, part-size, finalise and callback invariants are evaluated on every reachable root. The real mpu_write dask graphs are additionally executed task by task in every order within 1 (quick) / 2 (thorough) deviations from dask's static order and must end in a final writer log the DP also reaches.",
   note="Bounds: <=4 (quick) / <=6 (thorough) partitions, <=3 chunks per partition, min part 4 bytes. Recording writer is sequentially consistent (writer concurrency is C18). No separate model: every explored trace is an implementation trace.",
   design="4/C06", thorough=True),
 "C18": dict(level="model_checking", engine="E3a+E1",
   technique="stateless thread-schedule exploration with iterative preemption bounding on the real writer (sys.settrace line-level baton, cooperative fake lock/Variable/S3 client) + exhaustive sink/limit enumeration",
   text="Every interleaving of 2 workers with <=2 preemptions and 3 workers with <=1 (thorough: <=3 / <=2) doing their first write through the real DelayedS3Writer is executed under a controlled scheduler whose scheduling points are every source line of cog/_s3.py and every operation of the fake process lock, distributed lock, shared variable and storage client, in three set-ups (no client + shared object; client + shared object; client + per-worker copies). Each schedule is judged: exactly one initiation, every part/complete under that id, no exception, no deadlock. Failing schedules are replayed twice for determinism. MPUFileSink finalisation is enumerated over part counts 1..4 x sizes {0,1,5,4096} x parts-directory placement (incl. another filesystem) x keep_parts; limit accessors over every subset of limit kwargs.",
   note="distributed.Lock/Variable replaced by sequentially consistent fakes; Variable.get on an unset variable = immediate timeout; finalise runs after all writes (task dependency). Interleavings inside one source line or inside botocore are not explored.",
   design="4/C18", thorough=True),
 "C19": dict(level="model_checking", engine="E1+E2+E3a",
   technique="explicit-state BFS over CRS-cache histories on the real module-level caches (differential + weak-reference liveness invariants) + stateless thread-schedule exploration (preemption-bounded) of concurrent transformer requests + exhaustive pair/triple enumeration of value families",
   text="(a) For each value type a family of near-identical values (one field changed; several construction routes per value) is enumerated over ALL ordered pairs and ALL ordered triples: equality must match the construction (same value <=> equal), be reflexive/symmetric/transitive, agree with !=, equal hashable objects must hash equally, unequal objects must not share a dask token, pickle/copy/deepcopy clones must be equal with equal token and hash. (b) Breadth-first search over histories of {construct CRS by spec, drop handle, gc.collect, transformer request} replayed from cleared real caches, from initial and non-initial start states, deduplicated on a canonical cache state; in every state: str/hash/token/epsg of each new CRS equal those observed with empty caches, each transformer maps a probe exactly like a fresh pyproj transformer, and every identity-keyed transformer entry refers to objects that are still alive.",
   note="Bounds: families of 5-40 members per type; histories: init + 3 (quick) / 4 (thorough) events, <=3 live handles, 11 specs over 3 EPSG codes. Two genuine defects are recorded as known findings (F19-1 history-dependent CRS string, F19-2 hash of equal CRSs with different spelling).",
   design="4/C19", thorough=True),
 "C13": dict(level="model_checking", engine="E1+E3b",
   technique="bounded-exhaustive enumeration of chunkings/placements with the real dask graph executed by the harness, vs the in-memory path and an exact brute-force nearest reference; exhaustive task-order exploration within a deviation bound",
   text="Complete products over source shape x dtype x nodata setting x source chunking x destination chunking x 17 destination placements (aligned, whole/sub-pixel shifts, scales 2, 1/2, 1.5, mirrored, partly outside on each side, disjoint, larger) x time axis: the graph built by xr_reproject for dask input is executed task by task by the harness and must equal, pixel for pixel (NaN-aware), both the in-memory result and a brute-force nearest-neighbour reference computed in exact rational arithmetic, which also fixes the fill value of every unreachable pixel. Cross-CRS (3857<->4326): clearly reachable / clearly unreachable pixel classes from a fresh pyproj transformer must be non-fill / fill in both paths; disjoint => all fill, no exception. For three graphs every task order within 1 (quick) / 2 (thorough) deviations of dask's static order must give the identical array.",
   note="Dyadic alphabet; destination pixel centres never map onto a source pixel edge (asserted by the reference), so tie-breaking cannot differ. GDAL is trusted for the in-memory path. Tasks run one at a time (task granularity); threads inside GDAL are not schedulable.",
   design="4/C13", thorough=True),
 "C05": dict(level="model_checking", engine="E1+E3b",
   technique="bounded-exhaustive configuration enumeration of the real writer judged by two independent TIFF decoders + exhaustive dask task-order exploration within a deviation bound",
   text="Complete products per slice (9 image shapes incl. 1x1, single row/column, narrower than a tile x 7 band layouts; 7 dtypes x 4 compressions x predictor on/off x 3 nodata settings; 7 blocksize lists x 4 source chunkings x 3 layouts; spill size x writes-per-chunk x parts directory) are written through save_cog_with_dask and every file is decoded with rasterio/GDAL and tifffile: original pixels, dtype, band count, transform, CRS, nodata; padding only right/bottom with the fill value up to the multiple of 2^levels that an independently written layout rule prescribes; every IFD tiled with tile sizes multiple of 16, each overview exactly half; tile byte ranges pairwise disjoint, gap-free from the first tile to EOF; all overview tiles before full-resolution tiles. For 2 (thorough 3) small graphs every task order within 1 (thorough 2) deviations from dask's static order is executed by the harness and each resulting file passes the same oracle with identical size.",
   note="rasterio/GDAL and tifffile trusted as decoders. Ambiguous band-first shapes (documented shape-based detection) excluded. Overview pixel content not compared. Task granularity only.",
   design="4/C05", thorough=True),
 "C09": dict(level="model_checking", engine="E2+E1",
   technique="explicit-state BFS over xarray operation sequences on live geo-registered arrays against an index-array reference model + exhaustive reprojection product",
   text="One breadth-first search per initial array (5 GeoBox kinds incl. rotated, sheared, GCP x 4 shapes incl. single row/column/pixel x 4 CRS settings x 3 dimension layouts x numpy/dask): transitions apply real xarray operations (5 slicings per axis incl. strided and reversed, joint slicings, isel on time/band, +1, *2.0, astype, deep copy, pickle round trip, compute); states are deduplicated for expansion on a canonical form (surviving original rows and columns, dims, dtype, backend, every coordinate with its scalar value and attributes, attribute names, grid_mapping encoding - everything GeoBox recovery reads); on the target of EVERY transition the recovered .odc.geobox must exist, have the right shape and CRS, map every remaining pixel centre to the world location it had in the original GeoBox, and agree with the coordinate labels. Initial round trip must give an equal GeoBox. Reprojection: complete product of 6 CRS pairs x DataArray/Dataset x CRS/GeoBox target x backend x layout x CRS-coordinate name: recovered GeoBox equals the destination, no stale spatial attribute or stale CRS coordinate survives, grid_mapping points at the destination CRS, non-spatial attributes and non-geo variables are kept.",
   note="Depth 1-3 (quick) / 4-5 (thorough). Locations compared at pixel centres; R tolerance 1e-13*|coordinate| + 1e-9 pixel for affine GeoBoxes (== on dyadic ones at the initial round trip), 1e-6 px for GCP. Without a CRS single-row/column arrays are outside the domain (as the property states).",
   design="4/C09", thorough=True),
 "C01": dict(level="exploration", engine="E1",
   technique="bounded-exhaustive enumeration: every combining operation (explicit list + discovery by signature) x every ordered CRS-tag tuple x every geometry-kind tuple, vs shapely on the raw shapes",
   text="34 combining operations (18 binary Geometry operations incl. operators and split, multigeom/common_crs/unary_union/unary_intersection, BoundingBox &,|, bbox_union/intersection, GeoBox &,|, overlap_roi, snap_to, pixel_translation, bounding_box_in_pixel_domain, conservative union/intersection), found both from an explicit list and by a signature rule that sweeps newly added annotated operations automatically, are executed on all ordered pairs (n-ary: tuples of length 2-3 with the odd one at each position, list and generator input) of 12 CRS tags (none, 5 spellings each of EPSG:4326 and EPSG:3857, EPSG:32633) and all ordered pairs of 10 geometry kinds. Different classes => ValueError and nothing returned; same class => identical to the shapely call on the raw shapes (bool / WKB / exception type) and tagged with the operands' CRS. A fresh-cache slice repeats representative operations for every construction order with emptied CRS caches.",
   note="Equivalence classes by EPSG code. Cases where the raw shapely call itself raises a non-ValueError before the mismatching operand is reached (lazy reduce in unary_intersection on collection/empty operands) are counted as observations, not violations: nothing is returned and nothing mixed. GeoBox grid arithmetic itself is C16.",
   design="4/C01", thorough=True),
 "C02": dict(level="exploration", engine="E1+E2",
   technique="bounded-exhaustive enumeration of GeoBox operations against a reference model (shape + pixel/world map per operation) + BFS chains of operations with state deduplication",
   text="For 13 affines (north-up, mirrored in x/y/both, non-square, 90 deg, sheared on a dyadic alphabet; 0.1 deg, 30 m UTM, 1/3, 30 deg rotations, shear on a realistic one) x 19 shapes incl. 1xN/Nx1 x CRS {none, 4326, 3857}: every slice pair with indices in [-n,n], every integer index, and full parameter menus of pad, pad_wh, crop/expand, translate_pix, flips, neighbours, centre pixel, rotate, zoom_out, zoom_to (shape/int/resolution), scaled_down_geobox, buffered, pixel- and world-side affine products are applied; the result must have the shape the docstring contract prescribes, the same CRS, and every corner/centre pixel must lie where the contract's pixel map (or world map) puts it relative to the original; covering operations must cover. For every GeoBox: pix2wld/wld2pix inverse, footprint = images of the four corners, bounding box of the footprint, coordinate labels = pixel centres, resolution. Breadth-first chains of 20 operations (depth 2 quick / 3 thorough) from 18 start boxes apply operations to non-initial states. GCP GeoBoxes from exactly affine and from quadratic control points (3/4/9/16 points) through crop/pad/zoom.",
   note="== on dyadic affines, 1e-9*(|coordinate|+pixel) elsewhere; GCP: exact-affine control points to 1e-9, quadratic ones up to a multiple of the measured fit residual (inverse: 5% of the non-affine displacement).",
   design="4/C02", thorough=True),
 "C20": dict(level="exploration", engine="E1",
   technique="bounded-exhaustive enumeration of float/integer alphabets around every tolerance, sign change and half-way point, judged in exact rational arithmetic",
   text="About 1.1 million cases (2.6 million thorough) over 12 slices: near-integer helpers on k+f lattices incl. +-1 ulp around each tolerance; align helpers on [-40,5000] and 2^k+d up to k=32 x align 1..20; snap_grid on a dyadic lattice (exact ==) and the realistic C08 alphabet (rational oracle); snap_scale/snap_affine around their tolerances incl. idempotence and rotated inputs; decompose_rws on all invertible 2x2 matrices over 8 values plus rotation x shear x scale; affine_from_pts and Poly2d fits (3-point, 2xk, kxm grids incl. odd grids whose centre is the centroid) with all evaluation forms and input transforms; affine_from_axis; Bin1D on dyadic (edges exact) and realistic (strictly inside) points incl. from_sample_bin. Oracles use fractions.Fraction of the binary64 inputs.",
   note="At exact equality with a tolerance either decision is accepted; ties at +-0.5 may go either way; align_*_pow2 only for the stated range k<=32.",
   design="4/C20", thorough=True),
 "C07": dict(level="exploration", engine="E1",
   technique="bounded-exhaustive enumeration of edges/geometries/CRS pairs on the real densify/segmented/to_crs, vs a fresh pyproj transformer and exact edge arithmetic",
   text="densify/segmented: every ordered vertex pair of {-2,-1,0,1,2,5}^2 (all 8 directions, zero length) x scale {1,1e3,1e6} x offsets on/near/far from the axes x 6 resolutions, and 10 geometry kinds x 8 symmetries: no piece longer than the resolution, original vertices retained in order, added vertices on the original edges, type/structure/area/length unchanged. to_crs: 8 directed CRS pairs x placements inside both areas of use x kinds x target spellings x resolution modes: every vertex equals a FRESH pyproj transformer's result, type/ring/part structure and vertex order preserved, there-and-back within 1e-6 relative, same CRS (36 spelling pairs) returns the input, no CRS => ValueError; transformer_to_crs with scalar/list/array/NaN inputs and both axis orders.",
   note="Oracle transformers are built by the check from its own pyproj objects, never the library's cache. resolution <= 0 and empty geometries are outside the property's quantifier (observed, not judged).",
   design="4/C07", thorough=True),
 "C04": dict(level="exploration", engine="E1",
   technique="bounded-exhaustive enumeration of tilings, tile selections, block subsets and windows vs paint-the-rectangle / numpy mosaic reference",
   text="Tiles for every base {1..9}^2 x tile {1..10}^2 and VariableSizedTiles for every composition of N<=6 per axis: painted partition (each pixel exactly once), shape/base/chunks arithmetic, every tile index in several spellings incl. negative, locate() for every pixel and one step outside as inverse of [idx], out-of-range indexes; crop for every non-empty block of tiles and clip_tiles for every pair compared with a freshly built tiling with re-based indices; GeoboxTiles over dyadic GeoBoxes: tile (r,c) == parent cropped to that region. BlockAssembler: layouts with <=2 (thorough 3) tiles per axis x EVERY subset of present blocks x every window and window spelling x axis positions (2-d, +band, time+, time+band) x dtype/fill combinations: result == numpy mosaic (fill where absent)[window], dtype able to hold blocks and fill, NaN-aware.",
   note="BlockAssembler space is a union of complete products (geometry x subsets x windows; spellings x axis configs; dtype x fill), not one product. IndexError demanded only where documented. Zero-size chunks and GCP GeoBoxes not covered.",
   design="4/C04", thorough=True),
 "C08": dict(level="exploration", engine="E1",
   technique="bounded-exhaustive enumeration of regions/resolutions/anchors/tolerances judged in exact rational arithmetic",
   text="About 1 million cases (quick): from_bbox with resolution (low edge x span straddling every tolerance x signed pixel size per axis independently x 6 anchors x tight x 4 tol), with tuple shape, with int shape; 19 anchor spellings x bbox forms; from_geopolygon in own and other CRS (fresh pyproj region) incl. 'utm'; zoom_to(resolution=) on axis-aligned, rotated and sheared boxes. Oracle in fractions.Fraction of the binary64 inputs and of the resulting affine: pixel size and sign as requested; per side uncovered <= tol px and excess < (1+tol) px; pixel edges == anchor fraction (mod pixel) from the CRS origin unless floating/tight; tuple shape => that shape, pixel = span/shape, displacement < 1 px (0 when not snapping).",
   note="R tolerance 1e-9*(|coordinate|+pixel) added to every comparison (at 1e7-pixel coordinates tol=1e-6 cannot be resolved; labelled). 'snapping off starts on the region edge' taken from the docstring for resolution requests.",
   design="4/C08", thorough=True),
 "C10": dict(level="exploration", engine="E1+E3a",
   technique="bounded-exhaustive enumeration of same-CRS GeoBox pairs; paste eligibility predicted from construction parameters; pasted image compared with GDAL nearest warp; stateless thread-schedule exploration (preemption-bounded) of two concurrent warps",
   text="About 4e5 cases (quick), 2.5e6 (thorough): scale classes (integer, near-integer on both sides of stol, fractional, anisotropic) x sub-pixel residues on both sides of ttol x mirroring x shifts covering every placement x 4 tolerance sets; rotations/shear/other-CRS never paste-able; where planning reports paste_ok and read_shrink == 1 the pasted image (planned source region, mirrored per construction, into a nodata destination) must equal rio_reproject(..., 'nearest') pixel for pixel for 8 dtypes incl. int8/bool; for read_shrink > 1 roi_src must be roi_dst scaled by the factor exactly.",
   note="GDAL nearest warp is the independent oracle. Only the 'paste reported => eligible' direction is demanded, as the property states. padding=/align= arguments disable paste and are not covered.",
   design="4/C10", thorough=True),
 "C14": dict(level="exploration", engine="E1",
   technique="bounded-exhaustive enumeration of grid specifications, indices and queries judged in exact rational arithmetic / exact separating-axis tests",
   text="360 grid specs (tile shapes x resolution signs x origins x flip flags; dyadic and realistic) x indices [-3,3]^2 plus far indices: GeoBox shape/resolution/CRS, footprint vs the documented layout, pairwise disjoint interiors, 8 neighbours sharing their edge exactly, 13 point lookups per tile; from_sample_tile from every tile reproduces every footprint; bbox queries with edges on lattice lines and offsets 0, +-1e-9, +-1e-6, quarter tile; polygon queries (triangles, diamonds, L, frame with hole, multipolygon, both ring orientations) judged by an exact separating-axis test - clearly overlapping tiles must be returned, disjoint and (on the dyadic grid) exactly touching tiles must not; queries in other CRSs via a fresh pyproj transformer; web_tiles z=0..8 (12) vs the slippy-map formula.",
   note="Overlap depth in (0, 5e-7) and contacts within 1e-9 on the realistic alphabet are left open. Which of several touching tiles owns an edge point is not demanded.",
   design="4/C14", thorough=True),
 "C15": dict(level="exploration", engine="E1",
   technique="bounded-exhaustive configuration enumeration of the GDAL writer judged by rasterio read-back and tifffile tag inspection",
   text="About 1.6e4 files (quick): 11 shapes (1x1, single row/column, cubes) x 11 band layouts x 4 transforms (dyadic/realistic north-up, rotated, sheared) x 3 CRSs x single/two-pass; 7 dtypes x nodata settings/sources x mem/file x compression; blocksize x overview levels x windowed x intermediate compression; externally supplied overviews through write_cog(overviews=) and write_cog_layers (compared pixel for pixel); pre-existing destination x overwrite flag (IOError and byte-identical file, or replaced); default overviews around 512 px. Read-back: pixels, dtype, band count/order, transform, CRS, nodata; tiled with tile sizes multiple of 16 (TIFF tags); one overview page per requested level of size ceil(size/factor).",
   note="rasterio/GDAL and tifffile trusted. Overview requests only where min(shape) >= largest factor (GDAL refuses otherwise). Computed overview content not compared. Dask-backed input not covered.",
   design="4/C15", thorough=True),
 "C16": dict(level="exploration", engine="E1",
   technique="bounded-exhaustive enumeration of GeoBox families on a common grid and of bounding boxes, judged by pixel-set arithmetic computed from the construction parameters",
   text="6 base grids (north-up, mirrored, 45/30 deg rotated; dyadic exact and realistic) x families derived by integer shifts -4..4 and shapes 0..3: all ordered pairs (|, &, overlap_roi both orders, pixel_translation, bounding_box_in_pixel_domain) and all ordered triples of a sub-family (associativity, n-ary conservative union/intersection): union = bounding rectangle, intersection = exactly the shared pixels (empty GeoBox when none), overlap_roi under numpy indexing selects exactly the shared pixels of the first operand; incompatible grids (scale, rotation, shear, mirror, sub-pixel residue) across 9 operations must raise; snap_to moves <= 1/2 px onto the grid; enclosing of same-CRS and other-CRS regions (fresh pyproj, edges densified) lies on the grid, covers, exceeds by < 1 px; bounding boxes: all pairs and a million triples for the lattice laws.",
   note="Exact == on dyadic bases, R tolerance otherwise. Residues of ~1e-9 px are accept-or-raise. Zero-area regions for enclosing not covered. CRS-mismatch rejection is C01.",
   design="4/C16", thorough=True),
 "C03": dict(level="exploration", engine="E1",
   technique="bounded-exhaustive enumeration of GeoBox pairs; brute force over ALL destination pixels through an independently composed pixel-to-pixel map",
   text="About 6e5 cases (quick), 3.9e6 (thorough): compute_axis_overlap alone on an exact-rational oracle; same-CRS pairs over the complete integer shift range x 12 sub-pixel shifts x integer / near-integer / fractional / anisotropic scales x 4 mirrors x rotations x padding {None,0,1,3} x align {None,0,2,4}; 14 ordered CRS pairs x 5 locations inside both valid areas x 3 scale classes x 10 placements, and continental extents. For every case every destination pixel centre is mapped to the source plane by the check's own composition of the affines and a FRESH pyproj transformer (cross-checked against info.transform.back): a centre inside the source image must be inside roi_dst and its source location inside roi_src; ROIs inside their images (source up to the next multiple of read_shrink); separated by more than the padding margin => both empty; scale == min(scale2), scale2 vs per-axis pixel-size ratios (finite difference for non-linear), read_shrink a positive int not exceeding scale by more than the stated tolerance.",
   note="Points within 1e-6 px of an image boundary are neither required nor forbidden. GCP GeoBoxes, sheared same-CRS pairs and non-default ttol/stol not covered.",
   design="4/C03", thorough=True),
 "C12": dict(level="exploration", engine="E1",
   technique="bounded-exhaustive enumeration of tiled GeoBoxes, queries and raster pairs; brute force over all tile pairs with independently computed (densified) footprints",
   text="About 6.4e5 cases (quick): geometry queries (boxes, triangles, diamonds inside/straddling/touching/outside/larger) on north-up, flipped and 30-deg rotated tiled GeoBoxes with regular and variable tiles, in the same CRS and in another CRS: exactly the tiles whose footprint is not disjoint from the query (1e-6 px touching band open); bounding-box queries and pixel-plane boxes: supersets inside the tile grid. Tile dependency graphs: same-CRS pairs (aligned, scale 2, 1/2, 1.5, mirrored, rotated 30/90) over 8x8 placements and cross-CRS pairs (3857<->4326, 3577<->32755; small tiles and 2048-px tiles) judged by brute force over ALL (destination tile, source tile) pairs with footprints computed by the check (shapely, densified and projected with a fresh pyproj transformer): every pair overlapping by more than half a destination pixel must be an edge; disjoint rasters => no edge and no exception.",
   note="Extra edges are allowed (counted). CRS-less geometry queries have two readings in the code base (pixel plane vs world) and are recorded as outcomes, not judged. Tiled GCP rasters and multi-part queries not covered.",
   design="4/C12", thorough=True),
 "C11": dict(level="exploration", engine="E1",
   technique="bounded-exhaustive enumeration of sources x targets x options; enclosure judged by projecting every source pixel corner with a fresh pyproj transformer",
   text="About 4.5e4 cases (quick), 5e5 (thorough): sources (north-up, rotated, mirrored; metre- and degree-based; 1x1 to 64x64 with all pixel corners, 256^2..1000x600 with boundary oracle; tile / regional / continental extents) at 5 locations chosen inside the areas of use of both CRSs x targets {4326, 3857, equal-area, UTM zones, 'utm', 'utm-n', 'utm-s', own CRS, neighbouring geographic CRSs} x resolution {auto, fit, same, explicit} x anchor x tight x tol x shape requests, through compute_output_geobox, GeoBox.to_crs and .odc.output_geobox: every source pixel corner (plus 10 points per outer pixel side) projected by the check's own pyproj transformer lies inside the result's bounding box up to tol px; result axis-aligned; default anchor => edges multiples of the pixel size from the CRS origin, other anchors / tight as in C08; same units => source resolution; explicit shape => that shape / longest side and displacement < 1 px; own CRS + defaults => the source unchanged; utm* => a UTM zone overlapping the raster in the requested hemisphere.",
   note="Enclosure is not judged where the raster leaves the area of use of either CRS (labelled). shape=N on a snapped grid may give N or N+1 pixels (an N-pixel span not starting on a grid line). GCP sources, non-square pixels, antimeridian not covered.",
   design="4/C11", thorough=True),
}
NOT_YET = "no check"

# What the four rounds of independently seeded changes and the self-review round added to each check (appended to the
# level text; the running log in DESIGN.md says which change or lesson led to which addition).
ADDED = {
 "C01": "warm/cold call histories (a refused or accepted call first, lazy properties read first, 163 live CRSs), 17 CRS spellings incl. PROJJSON, no-EPSG CRSs and a stale-id WKT, operator/method/function/accessor spellings of every operation compared, converting operations (tile queries, enclosing, crop, mask, rasterize) with the region in another CRS judged against the same region expressed natively, rings / single-part multis / parts taken from .geoms, four-operand streams with the odd operand at every position.",
 "C02": "views of every operation result taken from a parent whose lazy properties were read first; explicit-zero buffers; scale-extreme affines; GCP chains with resolution of derived views.",
 "C03": "geographic rasters overhanging +-90/+-180 (clamp), all sequences of up to 2 (thorough 3) interfering public calls before a plan (differential + state-independent clauses), 2000-px-long rasters with sub-tolerance rotation / shear / scale (found F03-2).",
 "C04": "mixed-dtype blocks in both insertion orders, every equivalent spelling of a crop index per axis, negative tile indices, call histories on one BlockAssembler.",
 "C05": "1-6 band-first bands, tile-size lists longer than the pyramid, incompressible data, irregular and band-split chunkings, elongated shapes, a second save to the same destination, 2-3 saves to different destinations in one dask.compute.",
 "C06": "real _mpu_collate_op over all compositions into sub-streams, writer ranges starting at 0/5/7, 2-3 assemblies to different destinations in one graph.",
 "C07": "CRS definitions with a stale embedded EPSG id x read-.epsg histories, single-part Multi*, repeated consecutive vertices, rings, empty and CRS-less geometries, wrapdateline x resolution, > 1000 pieces per edge, odd resolutions (0, negative, 0-d arrays, 'auto' on zero-area geometries) each in a child process with a time limit (found F07-5).",
 "C08": "every orientation x snapped/unsnapped, near-round span/shape ratios on multi-million-pixel grids, both edges of the tolerance window, 13 region encodings (found F08-2), 11 CRS spellings incl. no-EPSG and stale-id, rasterize and zoom_to entry points, call histories on one instance, points / rings / collections as regions.",
 "C09": "canonical state includes every coordinate/attribute the recovery reads and the invariant is evaluated on every transition; arithmetic with a re-wrapped array; registration slice (origins on / within 1e-3 of / half a pixel from whole numbers, pixels 4.5e-6..16; tolerance in ulps of the coordinate); CRS targets x every grid option x function/accessor entry points for DataArray and Dataset; shared-state families of wraps.",
 "C10": "padding x align as full dimensions, both edges of the scale and translation tolerance windows (integer and reciprocal branches, additive and multiplicative), 1000/2000-px axes (found F10-1), int8 extremes.",
 "C11": "utm keyword requests in every order around zone boundaries (history), large metre-based rasters straddling a central meridian, keyword == explicit EPSG differential, tol as a full dimension on function / method / accessor with a position sweep over one output pixel.",
 "C12": "identical grids under every pair of 48 regular/irregular layouts, histories on shared GeoBoxes, points / multipoints / lines / multilines / collections / holed polygons with an exact Fraction oracle, empty queries (found F12-5), queries left of / above the raster.",
 "C13": "sources holding nodata pixels (isolated, a whole chunk, half, all, one plane), leading/trailing extra axes under every chunking, both axes mirrored at once, 2000-px-long rasters with sub-tolerance rotation / shear / scale, joint graphs of two reprojections, falsy zero nodata.",
 "C14": "non-square pixels, unaligned origins, every geometry type as query incl. empty (found F14-2), argument encodings, histories on one GridSpec.",
 "C15": "caller's arrays / attrs / option containers unchanged, ambient GDAL options restored, nodata via attrs / kwarg / both on every overview route, existing destination x every route, every entry point compared (34 option sets), extra dtypes, near-axis-aligned transforms on both sides of both tolerance windows (found F15-2), 13 CRS spellings.",
 "C16": "portrait and landscape operands, both edges of the alignment tolerance per axis, 2000-200000-px rasters with sub-tolerance scale / shear / rotation (found F16-4), cm pixels at UTM coordinates (found F16-3), four operands in every order, CRS and number encodings, every geometry kind for enclosing, histories.",
 "C17": "coordinates beyond 2^63 and 1e300, paddings up to 1024, every integer index for roi_pad, index tuples shorter than the rank, the caller's point array unchanged and re-used for a second call.",
 "C18": "file-sink mkdir race, cross-device moves, limits of several sinks in one process, three racing workers.",
 "C19": "lazily filled EPSG state (+e routes), > 128 live CRSs, tile >= base boundary members, other array encodings of GCP control points, rings / multi-part / collection / empty geometries (found F19-8), tiled GCP GeoBoxes, irregular chunkings with equal summaries.",
 "C20": "tol = 0 and falsy offsets (found F20-2), every helper at both window edges in additive / multiplicative / reciprocal readings, values up to 1e15 and down to 5e-324, other number encodings, call histories, inputs unchanged, own tolerances in ulps.",
}

# Rounds five and six (e- and f-series) and the neutral (false-alarm) round.
ADDED2 = {
 "C01": "streams of up to 258 (thorough 1026) operands with the odd one at every position class, lists and one-shot iterators; every binary GeoBox operation over 9 x 6 relative orientations of the two grids; operands of another CRS-tagged class than the signature names; URN / URL / compound CRS spellings; an exception that is a subclass of the reference's exception is the same failure (neutral c16-N3); CRS caches reset through an import-time snapshot found by introspection.",
 "C02": "aspect ratio of the raster / control-point cloud (1:1 .. 500:1, pixel and world side independently) x control-point counts x orientations incl. 45 degrees (found F02-10).",
 "C03": "thin slivers of overlap along a curved edge between the coarse boundary samples, destination/source resolution ratios down to 1/17 in the cross-CRS slices.",
 "C04": "every composition of N <= 9 (10) on one axis, products over three size letters, prefix sums on the even grid at every subset of positions, typed (Index2d / XY) tile indexes, windows congruent to a tile but shifted.",
 "C05": "every lossless codec GDAL and tifffile share (10) x predictor, type-limit / huge / tiny pixel values x statistics, image sizes of tile x 2^n pixels and every shape uncompressed (found F05-6: non-termination), memory layout of the source blocks (Fortran source, Fortran-contiguous blocks, copies, lazy transpose, reversed view); a file the readers refuse is a violation, not a harness error.",
 "C06": "one bag of bytes / bytearray chunks feeding 2-3 sub-streams (same chunk objects), every task order within 1 deviation.",
 "C09": "wrap inputs: time axis as str / list / array / DataArray / a coordinate borrowed from another registered raster (other CRS, GCP, other grid, custom CRS coordinate name, sliced donor), CRSs without an EPSG code, no CRS coordinate at all; destinations in the source's own CRS related to the source grid (mirrored, shifted, zoomed, padded, cropped, transposed footprint) with and without dst_nodata.",
 "C10": "CRS pairs incl. CRSs lacking an EPSG code on both sides x .epsg read beforehand; call histories of 0-2 prior public calls with unusual options; E3a: two concurrent warps, every line of warp.py a scheduling point.",
 "C11": "explicit resolutions far from the CRS origin (pixel index 2e4..1.5e8) x 16 (48) edge phases; shape x resolution x tight x anchor given together on every entry point.",
 "C12": "strip-shaped tiles (1, 2, 4 rows or columns at full width, variable strips) in cross-CRS pairs; concave / holed / multi-part queries with tile-wide gaps.",
 "C13": "every composition of 8 rows / 8 columns as the source chunking; Datasets of three bands with every ordered pair of chunkings; lon/lat sources from regional to the whole globe onto regional and world-scale destinations (found F13-2).",
 "C18": "environment deviation: the k-th upload_part call fails once and the write is retried; two different objects in one session incl. (bucket, key) pairs whose joined text coincides; part numbers around every digit-count change, sparse, zero-based, beyond the default maximum x list order.",
 "C19": "coordinate-pair values of different classes (coherence only); every family member pickled by an interpreter with another hash seed; E3a: two threads requesting transformers, every line of crs.py a scheduling point, all schedules within 2 (3) preemptions; module state of crs.py found by introspection and restored from an import-time snapshot.",
 "C20": "integer bin sizes 1..128 and large ones with bins to +-1001: bins are half-open, the left edge of bin i belongs to bin i wherever every intermediate is exact; integer-dtype matrices for decompose_rws; chained input transforms.",
}


def main():
    checks = []
    for pid in ALL:
        c = CHECKS.get(pid)
        if not c:
            continue
        d = dict(property_id=pid,
                 quick_cmd=f"./check {pid} --tier quick",
                 thorough_cmd=f"./check {pid} --tier thorough",
                 evidence_file=f"/verif/evidence/{pid}.json",
                 replay_cmd_template=f"./check {pid} --replay {{path}}",
                 engine=c["engine"],
                 level_claimed=dict(category=c["level"],
                                    text=c["text"] + (" Added after the seeded-change rounds: " + ADDED[pid] if pid in ADDED else "")
                                    + (" Added after rounds five and six and the neutral round: " + ADDED2[pid] if pid in ADDED2 else ""),
                                    design_ref=c["design"]),
                 level_note=c["note"], technique=c["technique"])
        checks.append(d)
    m = dict(
        version=1,
        setup_cmd="./setup.sh",
        hooks=dict(guard="ODC_GEO_VERIF", enable="no source hooks: all seams are injected from the harness (attribute replacement, sys.settrace); checks import the working tree of /repo via PYTHONPATH=$VERIF_REPO",
                   baseline_off_cmd="cd /repo && /venv/bin/python -m pytest -ra -q -p no:cacheprovider --timeout=900 --continue-on-collection-errors",
                   source_commits=[], add_only=True),
        engines=[
            dict(name="E1", path="vf/e1.py", serves_properties=[p for p in ALL if CHECKS.get(p, {}).get("engine", "").find("E1") >= 0],
                 kind_free_text="bounded-exhaustive case enumeration on the implementation against reference models, sharded over 16 processes"),
            dict(name="E2", path="vf/statespace.py", serves_properties=[p for p in ALL if "E2" in CHECKS.get(p, {}).get("engine", "")],
                 kind_free_text="explicit-state search over real transition functions (BFS with canonical state hashing; interval DP over merge trees)"),
            dict(name="E3a", path="vf/sched.py", serves_properties=[p for p in ALL if "E3a" in CHECKS.get(p, {}).get("engine", "")],
                 kind_free_text="stateless thread-schedule exploration with iterative preemption bounding (sys.settrace baton, cooperative fake locks)"),
            dict(name="E3b", path="vf/taskgraph.py", serves_properties=[p for p in ALL if "E3b" in CHECKS.get(p, {}).get("engine", "")],
                 kind_free_text="harness-driven execution of dask task graphs in every topological order within a deviation bound"),
        ],
        checks=checks,
        notes="All exploration runs directly on the implementation; see DESIGN.md. Known findings: known_findings.json. Every case runs under a CPU-time limit (VERIF_CASE_CPU_LIMIT, default 900 s of process CPU time, never wall time): a case interrupted inside the tree under verification is reported as a non-termination violation.",
        not_applicable=[dict(property_id=p, reason=NOT_YET) for p in ALL if p not in CHECKS],
    )
    (V / "MANIFEST.json").write_text(json.dumps(m, indent=1) + "\n")
    print("MANIFEST.json:", len(checks), "checks,", len(m["not_applicable"]), "not claimed")

if __name__ == "__main__":
    main()
