#!/bin/bash
# usage: tools/runall.sh [quick|thorough] [ids...]   runs checks sequentially, prints one line each
tier="${1:-quick}"; shift
ids=("$@"); [[ ${#ids[@]} == 0 ]] && ids=(C01 C02 C03 C04 C05 C06 C07 C08 C09 C10 C11 C12 C13 C14 C15 C16 C17 C18 C19 C20)
for id in "${ids[@]}"; do
  t0=$(date +%s)
  out="$(timeout 7200 /verif/check "$id" --tier "$tier" 2>&1)"; rc=$?
  t1=$(date +%s)
  echo "$id rc=$rc $((t1-t0))s :: $(grep -E '^\[C' <<<"$out" | tail -1) $(grep -c '^VIOLATION' <<<"$out") violations $(grep -c '^KNOWN-FINDING' <<<"$out") known"
  [[ $rc != 0 ]] && grep -A2 '^VIOLATION\|HARNESS' <<<"$out" | head -12
done
