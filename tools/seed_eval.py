#!/venv/bin/python
"""Confirm and file one seeded change produced by an independent sub-agent.

usage: seed_eval.py <dir with patch.diff + demo.py|demo_test.py [+NOTES.md]> <name> <PROPERTY-ID> [<other ids>...]

In a scratch copy of /repo (outside /repo and /verif, removed afterwards):
  1. demo WITHOUT the patch must pass, 2. patch applies, 3. demo WITH the patch must fail,
  4. the repository's pinned suite must still pass (all BASELINE stable_pass tests),
  5. the named checks (quick) are run against the patched copy: detected iff rc == 1.
Files are copied to /verif/seeded/<name>/ with meta.json recording what was run and what happened.
"""
import json
import os
import shutil
import subprocess
import sys
import tempfile
import time
from pathlib import Path

V = Path("/verif")


def sh(cmd, cwd=None, env=None, timeout=3000):
    p = subprocess.run(cmd, shell=True, cwd=cwd, env=env, capture_output=True, text=True, timeout=timeout)
    return p.returncode, (p.stdout + p.stderr)


def main():
    src, name, *props = sys.argv[1:]
    tier = "quick"
    if "--thorough" in props:
        props.remove("--thorough")
        tier = "thorough"
    src = Path(src)
    demo = "demo.py" if (src / "demo.py").exists() else "demo_test.py"
    scratch = Path(tempfile.mkdtemp(prefix="seed-", dir="/tmp"))
    meta = dict(name=name, breaks=props[0], checked_against=props, when=time.strftime("%Y-%m-%d %H:%M:%S"))
    try:
        repo = scratch / "repo"
        repo.mkdir()
        sh(f"git -C /repo archive HEAD | tar -x -C {repo}")
        meta["repo_head"] = sh("git -C /repo rev-parse --short HEAD")[1].strip()
        env = dict(os.environ, PYTHONPATH=str(repo), PYTHONDONTWRITEBYTECODE="1", PYTHONHASHSEED="0")
        shutil.copy(src / demo, scratch / demo)
        runner = (f"/venv/bin/python -B {scratch / demo}" if demo == "demo.py"
                  else f"/venv/bin/python -B -m pytest -q -p no:cacheprovider {scratch / demo}")
        rc0, out0 = sh(runner, cwd=repo, env=env, timeout=900)
        meta["demo_without_patch"] = dict(rc=rc0, tail=out0[-600:])
        rc, out = sh(f"git apply {src / 'patch.diff'}", cwd=repo)
        if rc:
            rc, out = sh(f"patch -p1 < {src / 'patch.diff'}", cwd=repo)
        meta["patch_applies"] = rc == 0
        if rc:
            print("PATCH DOES NOT APPLY", out)
            return 3
        rc1, out1 = sh(runner, cwd=repo, env=env, timeout=900)
        meta["demo_with_patch"] = dict(rc=rc1, tail=out1[-800:])
        rcs, outs = sh(f"/verif/tools/baseline.py {repo}", timeout=3000)
        meta["suite_with_patch"] = dict(rc=rcs, summary=outs.strip().splitlines()[:6])
        det = {}
        for pid in props:
            envc = dict(os.environ, VERIF_REPO=str(repo), VERIF_EVIDENCE_DIR=str(scratch / "ev"),
                        VERIF_REPLAY_DIR=str(scratch / "replays"))
            t0 = time.time()
            rcc, outc = sh(f"/verif/check {pid} --tier {tier}", env=envc, timeout=6000)
            keys = [l.strip() for l in outc.splitlines() if l.strip().startswith("key=")][:8]
            det[pid] = dict(rc=rcc, detected=rcc == 1, tier=tier, wall_s=round(time.time() - t0, 1), keys=keys)
            if rcc == 2:
                det[pid]["harness_error_tail"] = outc[-1500:]
        meta["checks"] = det
        ok = rc0 == 0 and rc1 != 0 and rcs == 0
        meta["confirmed"] = ok
        meta["detected_by"] = [p for p, d in det.items() if d["detected"]]
        dst = V / "seeded" / name
        dst.mkdir(parents=True, exist_ok=True)
        old = dst / "meta.json"
        if old.exists():
            prev = json.loads(old.read_text())
            hist = prev.pop("previous_runs", [])
            hist.append(dict(when=prev.get("when"), verif_head=prev.get("verif_head"), repo_head=prev.get("repo_head"),
                             detected_by=prev.get("detected_by"), checks={k: dict(rc=v["rc"], keys=v["keys"][:3]) for k, v in prev.get("checks", {}).items()}))
            meta["previous_runs"] = hist
        meta["verif_head"] = sh("git -C /verif rev-parse --short HEAD")[1].strip()
        if os.environ.get("SEED_NOTE"):
            meta["note"] = os.environ["SEED_NOTE"]
        for f in ("patch.diff", demo, "NOTES.md"):
            if (src / f).exists():
                shutil.copy(src / f, dst / f)
        (dst / "meta.json").write_text(json.dumps(meta, indent=1) + "\n")
        print(json.dumps({k: meta[k] for k in ("name", "confirmed", "detected_by")},))
        print("  demo without:", rc0, " with:", rc1, " suite:", rcs, outs.strip().splitlines()[0] if outs.strip() else "")
        for pid, d in det.items():
            print(f"  {pid}: rc={d['rc']} {d['keys'][:3]}")
        return 0
    finally:
        shutil.rmtree(scratch, ignore_errors=True)


if __name__ == "__main__":
    sys.exit(main())
