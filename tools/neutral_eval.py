#!/venv/bin/python
"""Evaluate one property-PRESERVING change produced by an independent sub-agent (false-alarm test).

usage: neutral_eval.py <dir with patch.diff [+ probe.py, NOTES.md]> <name> <PROPERTY-ID> [<other ids>...] [--thorough]

In a scratch copy of /repo (outside /repo and /verif, removed afterwards):
  1. the patch applies, 2. the author's probe (if any) passes with it, 3. the repository's pinned suite still
  passes, 4. the named checks (quick) are run against the patched copy: the expected result is rc == 0 (silence).
Files are copied to /verif/neutral/<name>/ with meta.json recording what was run and what happened. A check that
raises an alarm here is either over-demanding (-> corrected) or the change does break the property (-> the change
is re-filed under seeded/); meta.json["verdict"] is filled in by hand after triage.
"""
import json
import os
import shutil
import subprocess
import sys
import tempfile
import time
from pathlib import Path

V = Path("/verif")


def sh(cmd, cwd=None, env=None, timeout=3000):
    p = subprocess.run(cmd, shell=True, cwd=cwd, env=env, capture_output=True, text=True, timeout=timeout)
    return p.returncode, (p.stdout + p.stderr)


def main():
    src, name, *props = sys.argv[1:]
    tier = "quick"
    if "--thorough" in props:
        props.remove("--thorough")
        tier = "thorough"
    src = Path(src)
    scratch = Path(tempfile.mkdtemp(prefix="neut-", dir="/tmp"))
    meta = dict(name=name, property=props[0], checked_against=props, when=time.strftime("%Y-%m-%d %H:%M:%S"))
    try:
        repo = scratch / "repo"
        repo.mkdir()
        sh(f"git -C /repo archive HEAD | tar -x -C {repo}")
        meta["repo_head"] = sh("git -C /repo rev-parse --short HEAD")[1].strip()
        env = dict(os.environ, PYTHONPATH=str(repo), PYTHONDONTWRITEBYTECODE="1", PYTHONHASHSEED="0")
        rc, out = sh(f"git apply {src / 'patch.diff'}", cwd=repo)
        if rc:
            rc, out = sh(f"patch -p1 < {src / 'patch.diff'}", cwd=repo)
        meta["patch_applies"] = rc == 0
        if rc:
            print("PATCH DOES NOT APPLY", out)
            return 3
        if (src / "probe.py").exists():
            shutil.copy(src / "probe.py", scratch / "probe.py")
            rcp, outp = sh(f"/venv/bin/python -B {scratch / 'probe.py'}", cwd=repo, env=env, timeout=900)
            meta["probe_with_patch"] = dict(rc=rcp, tail=outp[-400:])
        if os.environ.get("NEUTRAL_SKIP_SUITE"):
            rcs, outs = None, "skipped (author ran it)"
        else:
            rcs, outs = sh(f"/verif/tools/baseline.py {repo}", timeout=3000)
        meta["suite_with_patch"] = dict(rc=rcs, summary=outs.strip().splitlines()[:6])
        det = {}
        for pid in props:
            envc = dict(os.environ, VERIF_REPO=str(repo), VERIF_EVIDENCE_DIR=str(scratch / "ev"),
                        VERIF_REPLAY_DIR=str(scratch / "replays"))
            t0 = time.time()
            rcc, outc = sh(f"/verif/check {pid} --tier {tier}", env=envc, timeout=6000)
            keys = [l.strip() for l in outc.splitlines() if l.strip().startswith("key=")][:8]
            msgs = []
            lines = outc.splitlines()
            for i, l in enumerate(lines):
                if l.strip().startswith("key=") and i + 1 < len(lines) and len(msgs) < 4:
                    msgs.append(lines[i + 1].strip()[:400])
            det[pid] = dict(rc=rcc, silent=rcc == 0, tier=tier, wall_s=round(time.time() - t0, 1), keys=keys, first_msgs=msgs)
            if rcc == 2:
                det[pid]["harness_error_tail"] = outc[-1500:]
        meta["checks"] = det
        meta["alarms"] = [p for p, d in det.items() if not d["silent"]]
        dst = V / "neutral" / name
        dst.mkdir(parents=True, exist_ok=True)
        old = dst / "meta.json"
        if old.exists():
            prev = json.loads(old.read_text())
            hist = prev.pop("previous_runs", [])
            hist.append(dict(when=prev.get("when"), verif_head=prev.get("verif_head"), alarms=prev.get("alarms"),
                             checks={k: dict(rc=v["rc"], keys=v["keys"][:3]) for k, v in prev.get("checks", {}).items()}))
            meta["previous_runs"] = hist
            for k in ("verdict", "note"):
                if k in prev:
                    meta[k] = prev[k]
        meta["verif_head"] = sh("git -C /verif rev-parse --short HEAD")[1].strip()
        if os.environ.get("NEUTRAL_NOTE"):
            meta["note"] = os.environ["NEUTRAL_NOTE"]
        if os.environ.get("NEUTRAL_VERDICT"):
            meta["verdict"] = os.environ["NEUTRAL_VERDICT"]
        for f in ("patch.diff", "probe.py", "NOTES.md"):
            if (src / f).exists() and (src / f).resolve() != (dst / f).resolve():
                shutil.copy(src / f, dst / f)
        (dst / "meta.json").write_text(json.dumps(meta, indent=1) + "\n")
        print(json.dumps({k: meta[k] for k in ("name", "alarms")}))
        print("  suite:", rcs, outs.strip().splitlines()[0] if outs.strip() else "", " probe:", meta.get("probe_with_patch", {}).get("rc"))
        for pid, d in det.items():
            print(f"  {pid}: rc={d['rc']} {d['keys'][:3]}")
            for m in d["first_msgs"][:2]:
                print("     ", m[:300])
        return 0
    finally:
        shutil.rmtree(scratch, ignore_errors=True)


if __name__ == "__main__":
    sys.exit(main())
