#!/bin/bash
# usage: tools/anchor_cov.sh <outdir> [ids...]
# Runs each check (quick) under coverage.py (sys.monitoring core, multiprocessing aware) and writes
# <outdir>/<ID>.json (coverage json of /repo/odc/geo). Audit aid only: nothing here decides a property.
out="$1"; shift
ids=("$@"); [[ ${#ids[@]} == 0 ]] && ids=(C01 C02 C03 C04 C05 C06 C07 C08 C09 C10 C11 C12 C13 C14 C15 C16 C17 C18 C19 C20)
mkdir -p "$out"
for id in "${ids[@]}"; do
  d="$(mktemp -d /tmp/acov-XXXXXX)"
  cat > "$d/rc" <<EOF
[run]
concurrency = multiprocessing,thread
parallel = True
source = /repo/odc/geo
data_file = $d/data/.coverage
sigterm = True
EOF
  mkdir -p "$d/data"
  ( cd /verif && VERIF_REPO=/repo PYTHONHASHSEED=0 PYTHONPATH=/repo:/verif OMP_NUM_THREADS=1 PROJ_NETWORK=OFF \
    VERIF_EVIDENCE_DIR="$d/ev" VERIF_REPLAY_DIR="$d/replays" COVERAGE_CORE=sysmon \
    timeout 3000 /venv/bin/python -B -m coverage run --rcfile="$d/rc" -m vf.cli "$id" 2>&1 | grep '^\[C' | tail -1 )
  ( cd "$d" && /venv/bin/python -m coverage combine --rcfile="$d/rc" -q >/dev/null 2>&1; /venv/bin/python -m coverage json --rcfile="$d/rc" -q -o "$out/$id.json" >/dev/null 2>&1 )
  rm -rf "$d"
done
