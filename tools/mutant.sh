#!/bin/bash
# usage: tools/mutant.sh <patch.diff> [--suite] <ID> [<ID>...]
# Applies the patch to a scratch copy of /repo (outside /repo and /verif), optionally runs the repo's
# own suite there (must still pass), runs the named checks (quick) against the copy, removes it.
set -u
patch="$(realpath "$1")"; shift
suite=0; tier=quick
while [[ "${1:-}" == --* ]]; do
  case "$1" in --suite) suite=1;; --thorough) tier=thorough;; esac; shift
done
scratch="$(mktemp -d /tmp/mut-XXXXXX)"
trap 'rm -rf "$scratch"' EXIT
mkdir -p "$scratch/repo"
(cd /repo && git archive HEAD) | tar -x -C "$scratch/repo"
(cd /repo && git diff HEAD) | (cd "$scratch/repo" && git apply --allow-empty 2>/dev/null || true)
if ! (cd "$scratch/repo" && git apply "$patch" 2>/dev/null || patch -p1 -s < "$patch"); then echo "PATCH-FAILED $patch"; exit 3; fi
if [[ $suite == 1 ]]; then
  /verif/tools/baseline.py "$scratch/repo" | tail -3
fi
rc_all=0
for id in "$@"; do
  out="$(VERIF_REPO="$scratch/repo" VERIF_EVIDENCE_DIR="$scratch/ev" VERIF_REPLAY_DIR="$scratch/replays" /verif/check "$id" --tier $tier 2>&1)"
  rc=$?
  nviol=$(grep -c '^VIOLATION' <<<"$out")
  echo "== $id rc=$rc violations=$nviol :: $(grep -A1 '^VIOLATION' <<<"$out" | grep key= | head -3 | tr '\n' ' ')"
  [[ $rc == 2 ]] && tail -15 <<<"$out"
  [[ $rc != 1 ]] && rc_all=1
done
exit $rc_all
