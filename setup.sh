#!/bin/bash
# MANIFEST.setup_cmd: offline; builds nothing, runs the engine self-tests.
here="$(cd "$(dirname "${BASH_SOURCE[0]}")" && pwd)"
export VERIF_REPO="${VERIF_REPO:-/repo}" PYTHONHASHSEED=0 PYTHONPATH="${VERIF_REPO:-/repo}:$here"
cd "$here" && mkdir -p evidence replays && exec /venv/bin/python -B -m vf.selftest
