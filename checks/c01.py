"""C01 - operations never silently mix coordinate reference systems.

E1: complete products  operation x operand kinds x operand CRS tags  executed on the real code; for the stream
operations additionally x operand COUNT (every length of a contiguous range, the odd operand anywhere), for the GeoBox
operations x relative ORIENTATION of the two pixel grids (mirrored / transposed / turned).

Two further dimensions: the SPELLING FAMILY of the CRS tag (OGC URN / URL, compound URN / 'EPSG:h+v' / compound WKT,
registered compound codes, ESRI / OGC / IGNF / IAU_2015 codes; slice "spellings") and the CLASS of the operands (every
operation handed operands of another CRS-tagged class than its signature names; slice "foreign-class").

Operations are the union of an explicit list and of *discovery by signature* (public callables of
Geometry / BoundingBox / GeoBox and of the modules geom / geobox with two parameters annotated with the
same CRS-tagged type, or one parameter annotated as a list/iterable of such a type, plus the binary
dunder operators the classes define).  Operations that are discovered but have no hand-written oracle
are still swept with the generic oracle (mismatch => ValueError; result tagged with the operands' CRS).

Oracle.  CRS tags fall into equivalence classes by EPSG code ("none" is its own class).
* operands in different classes => the call (generators consumed) raises a ValueError, returns nothing;
* operands in one class => same result as shapely on the raw shapes (bool equal / WKB equal / same
  exception type) - for BoundingBox the exact min/max of the raw numbers, for GeoBox the result of the
  same call on the *untagged* operands (plus an exact rational reference for the two pixel-space
  helpers) - and every CRS-tagged object in the result carries the operands' CRS.
The CRS class of a result is established with a fresh pyproj object built from ``str(result.crs)``,
not with ``CRS.__eq__`` (which is code under test); ``result.crs == operand.crs`` is demanded on top.
"""
from __future__ import annotations

import collections.abc as cabc
import copy
import fractions
import functools
import inspect
import itertools
import math
import types
import typing

import numpy as np
import pyproj
import shapely.ops
from affine import Affine
from shapely.geometry import (
    GeometryCollection,
    LinearRing,
    LineString,
    MultiLineString,
    MultiPoint,
    MultiPolygon,
    Point,
    Polygon,
)
from shapely.geometry import box as sbox
from shapely.geometry.base import BaseGeometry

from vf import core, e1, introspect
from vf.core import R

PROPERTY = "C01"
LEVEL = "exploration"

from odc.geo import crs as crsmod  # noqa: E402
_PRISTINE = introspect.ModuleState(crsmod)  # taken at import, before any case has run
from odc.geo import geobox as GBM  # noqa: E402
from odc.geo import geom as GM  # noqa: E402
from odc.geo.crs import CRS  # noqa: E402
from odc.geo.geobox import GeoBox, GeoBoxBase  # noqa: E402
from odc.geo.geom import BoundingBox, Geometry  # noqa: E402

MODS = {"geom": GM, "geobox": GBM}
CLASSES = {"Geometry": Geometry, "BoundingBox": BoundingBox, "GeoBox": GeoBox}

# =================================================================================================
# CRS tags
# =================================================================================================
_WKT2 = {c: pyproj.CRS.from_epsg(c).to_wkt() for c in (4326, 3857, 32633)}  # WKT2:2019 text from pyproj
_JSON = {c: pyproj.CRS.from_epsg(c).to_json_dict() for c in (4326,)}  # PROJJSON
# "stale id": the WKT2 of EPSG:32633 with its central meridian edited (15 -> 16.5 degrees) while the trailing
# ID["EPSG",32633] was left in place. It is NOT EPSG:32633 (pyproj: to_epsg() is None, != EPSG:32633).
_STALE = {32633: _WKT2[32633].replace('PARAMETER["Longitude of natural origin",15', 'PARAMETER["Longitude of natural origin",16.5')}
assert _STALE[32633] != _WKT2[32633] and _STALE[32633].endswith('ID["EPSG",32633]]')
TAGS = (
    "none",
    "EPSG:4326", "epsg:4326", "wkt2:4326", "pyproj:4326", "crs:4326",
    "EPSG:3857", "epsg:3857", "wkt2:3857", "pyproj:3857", "crs:3857",
    "EPSG:32633",
)


# CRSs WITHOUT an EPSG code: two different custom projections; "+e" = the state in which `.epsg` / `to_epsg()`
# has already been evaluated on the operand's CRS object (its lazily filled EPSG slot then holds None, not 0).
PROJ4 = {
    "A": "+proj=laea +lat_0=52 +lon_0=10 +x_0=0 +y_0=0 +datum=WGS84 +units=m +no_defs",
    "B": "+proj=laea +lat_0=-30 +lon_0=140 +x_0=0 +y_0=0 +datum=WGS84 +units=m +no_defs",
}
_CUSTOM_REF = {f"laea{k}": pyproj.CRS(v) for k, v in PROJ4.items()}
_CUSTOM_REF["stale32633"] = pyproj.CRS.from_user_input(_STALE[32633])
_WKT2["A"] = _CUSTOM_REF["laeaA"].to_wkt()
NONEPSG_TAGS = ("proj:A", "proj:A+e", "wkt2:A", "wkt2:A+e", "pyproj:A", "proj:B", "proj:B+e")
# other encodings of one value (int, any-case 'epsg:', PROJJSON dict) and the stale-id WKT, fresh and evaluated
ENCODING_TAGS = ("int:4326", "Epsg:4326", "json:4326", "EPSG:32633", "stale:32633", "stale:32633+e")
SUB_TAGS = ("none", "EPSG:4326", "wkt2:4326", "wkt2:4326+e") + NONEPSG_TAGS + ENCODING_TAGS  # the non-epsg slice
R_TAGS = ("none", "EPSG:4326", "wkt2:4326", "EPSG:3857", "proj:A", "stale:32633")  # reduced alphabet of the add-on slices


# ---- spelling families ("sp:" tags) ----------------------------------------------------------------------
# Authority-code spellings of ONE definition syntax each, as complete products (spelling x code / component pair):
#   single EPSG code:  EPSG:N | OGC URN | versioned URN | OGC URL | versioned URL           x N
#   compound h+v:      OGC compound URN | 'EPSG:h+v' | WKT2 text of the compound            x h x v
#   registered compounds (EPSG:9518 = 4326+3855), other authorities (ESRI, OGC, IGNF, IAU_2015) incl. one number that
#   exists under two authorities (30165) and codes of other authorities that ARE an EPSG CRS (ESRI:102100 = EPSG:3857).
# Which definitions are the same CRS is decided by comparing fresh pyproj.CRS objects of the two definitions (never
# by odc.geo.crs, never by reading codes off the text). A definition the installed PROJ database cannot resolve
# offline is dropped; so is one that would make that comparison non-transitive. A definition pyproj resolves but
# the library's CRS() refuses (on some trees 'EPSG:h+v') makes a case vacuous: constructing is not combining.
SP_CODES = (4326, 32633, 32634)
SP_SINGLE = (("epsg", "EPSG:{n}"), ("urn", "urn:ogc:def:crs:EPSG::{n}"), ("urnv", "urn:ogc:def:crs:EPSG:9.8.15:{n}"),
             ("url", "http://www.opengis.net/def/crs/EPSG/0/{n}"), ("urlv", "http://www.opengis.net/def/crs/EPSG/9.8.15/{n}"))
SP_H, SP_V = (32633, 32634), (5773, 3855)
SP_COMPOUND = (("curn", "urn:ogc:def:crs,crs:EPSG::{h},crs:EPSG::{v}"), ("plus", "EPSG:{h}+{v}"), ("cwkt", None))
SP_OTHER = (
    ("epsg:9518", "EPSG:9518"), ("curn:4326-3855", "urn:ogc:def:crs,crs:EPSG::4326,crs:EPSG::3855"),
    ("curn:4326-5773", "urn:ogc:def:crs,crs:EPSG::4326,crs:EPSG::5773"),
    ("epsg:3857", "EPSG:3857"), ("esri:102100", "ESRI:102100"),
    ("esri:54009", "ESRI:54009"), ("urn-esri:54009", "urn:ogc:def:crs:ESRI::54009"), ("esri:54008", "ESRI:54008"),
    ("ogc:CRS84", "OGC:CRS84"), ("urn-ogc:CRS84", "urn:ogc:def:crs:OGC:1.3:CRS84"),
    ("url-ogc:CRS84", "http://www.opengis.net/def/crs/OGC/1.3/CRS84"), ("ogc:CRS83", "OGC:CRS83"),
    ("ignf:LAMB93", "IGNF:LAMB93"), ("ignf:LAMB1", "IGNF:LAMB1"), ("ignf:WGS84G", "IGNF:WGS84G"),
    ("epsg:30165", "EPSG:30165"), ("iau:30165", "IAU_2015:30165"),
)


def _sp_candidates():
    out = [(f"{sp}:{n}", pat.format(n=n)) for n in SP_CODES for sp, pat in SP_SINGLE]
    for h in SP_H:
        for v in SP_V:
            for sp, pat in SP_COMPOUND:
                if pat is None:
                    try:
                        d = pyproj.CRS.from_user_input(f"EPSG:{h}+{v}").to_wkt()
                    except Exception:  # pylint: disable=broad-except
                        d = f"<WKT2 of EPSG:{h}+{v} unavailable>"
                else:
                    d = pat.format(h=h, v=v)
                out.append((f"{sp}:{h}-{v}", d))
    return out + list(SP_OTHER)


def _sp_table():
    """-> ({tag: definition}, {tag: class}, {class: fresh pyproj reference}, [dropped (tag, why)])
    class: the EPSG code when the definition equals a plain 'EPSG:N' member of the table, else 'sp:<first equal member>'."""
    defs, cls, refs, dropped, objs = {}, {}, {}, [], {}
    for name, d in _sp_candidates():
        tag = f"sp:{name}"
        try:
            p = pyproj.CRS.from_user_input(d)
        except Exception as e:  # pylint: disable=broad-except
            dropped.append((tag, f"not resolved by the installed PROJ: {type(e).__name__}"))
            continue
        eq = [t for t in defs if objs[t] == p or p == objs[t]]
        both = [t for t in defs if objs[t] == p and p == objs[t]]
        if eq != both or len({cls[t] for t in eq}) > 1:
            dropped.append((tag, "pyproj equality with the earlier definitions is not an equivalence"))
            continue
        if eq:
            c = cls[eq[0]]
        else:
            c = int(d[5:]) if d.startswith("EPSG:") and d[5:].isdigit() else tag
            refs[c] = pyproj.CRS.from_user_input(d)
        defs[tag], cls[tag], objs[tag] = d, c, p
    return defs, cls, refs, dropped


SP_DEF, SP_CLASS, SP_REF, SP_DROPPED = _sp_table()
SP_TAGS = ("none",) + tuple(SP_DEF)
_SP_BY_DEF = {d: SP_CLASS[t] for t, d in SP_DEF.items()}


def tag_class(tag: str):
    """Equivalence class of a tag: EPSG code, 0 for 'no CRS', 'laeaA'/'laeaB' for the custom projections."""
    if tag == "none":
        return 0
    if tag.startswith("sp:"):
        return SP_CLASS[tag.split("+")[0]]
    sp, code = tag.split("+")[0].split(":")
    if sp == "stale":
        return f"stale{code}"
    return int(code) if code.isdigit() else f"laea{code}"


def cls_label(c) -> str:
    if isinstance(c, str) and c.startswith("sp:"):
        return c[3:].replace("-", "+")  # 'curn:32633+5773'
    return "none" if c == 0 else str(c)


def make_tag(tag: str):
    """A new value of the given spelling (what the user passes as ``crs=``)."""
    if tag == "none":
        return None
    if tag.startswith("sp:"):
        return SP_DEF[tag.split("+")[0]]
    sp, code = tag.split("+")[0].split(":")
    code = int(code) if code.isdigit() else code
    if sp in ("EPSG", "epsg", "Epsg"):
        return f"{sp}:{code}"
    if sp == "int":
        return code
    if sp == "json":
        return copy.deepcopy(_JSON[code])
    if sp == "stale":
        return _STALE[code]
    if sp == "proj":
        return PROJ4[code]
    if sp == "wkt2":
        return _WKT2[code]
    if sp == "pyproj":
        return pyproj.CRS.from_epsg(code) if isinstance(code, int) else pyproj.CRS(PROJ4[code])
    if sp == "crs":
        return CRS(f"EPSG:{code}")  # an existing odc CRS object
    raise ValueError(tag)


_TAGV: dict = {}


def tagv(tag: str):
    """Per-process shared value of a tag (so 'existing object' spellings really are shared)."""
    if tag not in _TAGV:
        _TAGV[tag] = make_tag(tag)
    return _TAGV[tag]


_EPSG_OF: dict = {}


def _class_of_str(s):
    if s in _SP_BY_DEF:  # literally one of the spelled definitions (their classes come from fresh pyproj comparisons)
        return _SP_BY_DEF[s]
    p = pyproj.CRS.from_user_input(s)
    for k, ref in SP_REF.items():
        if not isinstance(k, int) and p == ref:  # (codes of other authorities: to_epsg() below is a database search)
            return k
    e = p.to_epsg()
    if e:
        return e
    for k, ref in _CUSTOM_REF.items():
        if p == ref:  # pyproj equality of fresh objects, not odc's CRS.__eq__
            return k
    return -2


def crs_class_of(c):
    """Class of a CRS attribute (EPSG code / custom projection), established independently of CRS.__eq__.
    -1: not a CRS/None, -2: unknown."""
    if c is None:
        return 0
    if not isinstance(c, CRS):
        return -1
    s = str(c)
    if s not in _EPSG_OF:
        try:
            _EPSG_OF[s] = _class_of_str(s)
        except Exception:  # pylint: disable=broad-except
            _EPSG_OF[s] = -2
    return _EPSG_OF[s]


def relation(tags) -> str:
    cl = {tag_class(t) for t in tags}
    if len(cl) > 1:
        return "one-none" if 0 in cl and len(cl) == 2 else "diff-epsg"
    if cl == {0}:
        return "both-none"
    return "same-spelling" if len(set(tags)) == 1 else "respelled"


# =================================================================================================
# operands
# =================================================================================================
GEOM_KINDS = ("point", "multipoint", "line", "ring", "polygon", "polyhole", "multiline", "multipolygon",
              "collection", "empty")
# single-part Multi*, repeated consecutive vertices, and operands DERIVED through the library from a parent
# (rings from .exterior / .interiors, a part from .geoms): they share the parent's CRS object
GEOM_KINDS2 = ("multipoint1", "multiline1", "multipolygon1", "dup-line", "ext-ring", "int-ring", "geoms-part")
DERIVED = {  # kind: (parent kind, through the library, the same on the raw shape)
    "ext-ring": ("polygon", lambda g: g.exterior, lambda s: s.exterior),
    "int-ring": ("polyhole", lambda g: g.interiors[0], lambda s: s.interiors[0]),
    "geoms-part": ("multipolygon", lambda g: list(g.geoms)[1], lambda s: s.geoms[1]),
}
_SHIFT = ((0.0, 0.0), (1.0, 0.5), (2.0, 1.0), (3.0, 1.5))  # operand position -> shift (dyadic): operands partly overlap
_RAW: dict = {}


def raw_shape(kind: str, pos: int) -> BaseGeometry:
    """The raw shapely shape (never touched by odc code other than being wrapped)."""
    k = (kind, pos)
    if k in _RAW:
        return _RAW[k]
    # positions beyond the first four (long streams): further dyadic shifts, every shape still overlaps the first
    dx, dy = _SHIFT[pos] if pos < len(_SHIFT) else ((pos % 8) * 0.25, (pos % 5) * 0.125)

    def P(*pts):
        return [(x + dx, y + dy) for x, y in pts]

    def B(x0, y0, x1, y1):
        return sbox(x0 + dx, y0 + dy, x1 + dx, y1 + dy)

    if kind in DERIVED:
        g = DERIVED[kind][2](raw_shape(DERIVED[kind][0], pos))
    elif kind == "multipoint1":
        g = MultiPoint(P((1, 1)))
    elif kind == "multiline1":
        g = MultiLineString([P((0, 1), (4, 1))])
    elif kind == "multipolygon1":
        g = MultiPolygon([B(0, 0, 3, 3)])
    elif kind == "dup-line":
        g = LineString(P((0, 0), (0, 0), (2, 2), (2, 2), (2, 2), (4, 0)))
    elif kind == "point":
        g = Point(*P((1, 1))[0])
    elif kind == "multipoint":
        g = MultiPoint(P((0, 0), (1, 1), (2, 2)))
    elif kind == "line":
        g = LineString(P((0, 0), (2, 2), (4, 0)))
    elif kind == "ring":
        g = LinearRing(P((0, 0), (0, 3), (3, 3), (3, 0)))
    elif kind == "polygon":
        g = B(0, 0, 4, 4)
    elif kind == "polyhole":
        g = Polygon(P((0, 0), (0, 4), (4, 4), (4, 0)), [P((1, 1), (2, 1), (2, 2), (1, 2))])
    elif kind == "multiline":
        g = MultiLineString([P((0, 1), (4, 1)), P((1, 0), (1, 4))])
    elif kind == "multipolygon":
        g = MultiPolygon([B(0, 0, 2, 2), B(3, 3, 5, 5)])
    elif kind == "collection":
        g = GeometryCollection([Point(*P((1, 1))[0]), LineString(P((0, 2), (4, 2))), B(2, 2, 4, 4)])
    elif kind == "empty":
        g = Polygon()
    else:
        raise ValueError(kind)
    _RAW[k] = g
    return g


_OBJ: dict = {}


def make_geometry(kind, pos, crs_value) -> Geometry:
    if kind in DERIVED:
        parent, through_lib, _ = DERIVED[kind]
        return through_lib(Geometry(raw_shape(parent, pos), crs_value))
    return Geometry(raw_shape(kind, pos), crs_value)


def geom_operand(kind, pos, tag) -> Geometry:
    k = ("g", kind, pos, tag)
    if k not in _OBJ:
        _OBJ[k] = make_geometry(kind, pos, tagv(tag))
    return _OBJ[k]


BB_KINDS = {  # left, bottom, right, top
    "A": (0.0, 0.0, 4.0, 4.0),
    "over": (2.0, 1.0, 6.0, 3.0),
    "apart": (5.0, 5.0, 7.0, 8.0),
    "inside": (1.0, 1.0, 2.0, 2.5),
    "flat": (4.0, 0.0, 4.0, 4.0),
}


def bb_operand(kind, pos, tag) -> BoundingBox:  # pylint: disable=unused-argument
    k = ("b", kind, tag)
    if k not in _OBJ:
        _OBJ[k] = BoundingBox(*BB_KINDS[kind], crs=tagv(tag))
    return _OBJ[k]


# GeoBox kinds on one dyadic lattice: world unit 1/16; (ny, nx, column offset, row offset, pixel size) in 1/16ths
GB_X0, GB_Y0 = 8.0, 40.0
GB_KINDS = {
    "base": (4, 5, 0, 0, 4),
    "shift": (4, 5, 8, 4, 4),  # +2 columns, +1 row
    "inside": (2, 2, 4, 4, 4),
    "far": (4, 5, 40, 40, 4),  # disjoint, below/right
    "upleft": (3, 3, -40, -40, 4),  # disjoint, above/left
    "subpix": (4, 5, 2, 0, 4),  # half a pixel off the lattice
    "coarse": (2, 3, 0, 0, 8),  # other pixel size
    "empty": (0, 3, 4, 0, 4),
    "big": (8, 9, -8, -8, 4),  # contains base (2 more columns / rows on every side); only in the orientation slices
}
GB_BASE_KINDS = tuple(k for k in GB_KINDS if k != "big")
# Orientation of the pixel grid over the SAME footprint, written "<kind>/<orientation>": n = north-up (default),
# fx / fy / fxy = columns / rows / both walked the other way, tr = rows and columns swapped, r90 = quarter turn.
# (pixel of the oriented grid) -> (pixel of the north-up grid) as (a, b, c, d, e, f) in units of (1, 1, nx, 1, 1, ny)
GB_ORIENT = {
    "n": (1, 0, 0, 0, 1, 0),
    "fx": (-1, 0, 1, 0, 1, 0),
    "fy": (1, 0, 0, 0, -1, 1),
    "fxy": (-1, 0, 1, 0, -1, 1),
    "tr": (0, 1, 0, 1, 0, 0),
    "r90": (0, -1, 1, 1, 0, 0),
}
GB_FLIPS = ("n", "fx", "fy", "fxy")


def gb_parts(kind):
    base, _, o = kind.partition("/")
    return GB_KINDS[base], (o or "n")


def gb_shape(kind):
    (ny, nx, *_), o = gb_parts(kind)
    return (nx, ny) if o in ("tr", "r90") else (ny, nx)


def _compose(m, p):
    """2x3 affine m after 2x3 affine p (exact rationals)."""
    a, b, c, d, e, f = m
    pa, pb, pc, pd, pe, pf = p
    return (a * pa + b * pd, a * pb + b * pe, a * pc + b * pf + c,
            d * pa + e * pd, d * pb + e * pe, d * pc + e * pf + f)


def _inverse(m):
    a, b, c, d, e, f = m
    det = a * e - b * d
    ia, ib, id_, ie = e / det, -b / det, -d / det, a / det
    return (ia, ib, -(ia * c + ib * f), id_, ie, -(id_ * c + ie * f))


def gb_matrix(kind):
    """pixel -> world of a GeoBox kind as six exact rationals (the lattice encoding is the single source)."""
    (ny, nx, co, ro, s), o = gb_parts(kind)
    F = fractions.Fraction
    north_up = (F(s, 16), F(0), F(GB_X0) + F(co, 16), F(0), F(-s, 16), F(GB_Y0) - F(ro, 16))
    a, b, c, d, e, f = GB_ORIENT[o]
    return _compose(north_up, (F(a), F(b), F(c * nx), F(d), F(e), F(f * ny)))


def gb_affine(kind) -> Affine:
    return Affine(*map(float, gb_matrix(kind)))  # dyadic: exact in binary64


def gb_operand(kind, pos, tag) -> GeoBox:  # pylint: disable=unused-argument
    k = ("x", kind, tag)
    if k not in _OBJ:
        _OBJ[k] = GeoBox(gb_shape(kind), gb_affine(kind), tagv(tag))
    return _OBJ[k]


OPERAND = {"Geometry": geom_operand, "BoundingBox": bb_operand, "GeoBox": gb_operand}


def reset():
    """Per shard: empty the library's CRS caches and every object built on top of them."""
    _PRISTINE.restore()  # module state of odc/geo/crs.py as it was when the harness started (found by introspection)
    _TAGV.clear()
    _OBJ.clear()


# =================================================================================================
# operations: explicit list + discovery by signature
# =================================================================================================
WRAPPED = ("contains", "covers", "crosses", "disjoint", "intersects", "touches", "within", "overlaps",
           "difference", "intersection", "symmetric_difference", "union", "__and__", "__or__", "__xor__", "__sub__")

_BIN_DUNDERS = {f"__{p}{n}__" for n in ("add", "sub", "mul", "matmul", "truediv", "floordiv", "mod", "pow", "and", "or",
                                        "xor", "lshift", "rshift") for p in ("", "r", "i")} | {"__lt__", "__le__",
                                                                                                "__gt__", "__ge__"}
# __eq__/__ne__: comparison answers False for another CRS, it does not compute from mixed coordinates.
# __contains__/__getitem__: look-ups / conversions, not combining operators.


def _spec(name, family, form, how):
    return dict(name=name, family=family, form=form, how=how)


def explicit_ops():
    out = {}
    for m in WRAPPED + ("split",):
        out[f"Geometry.{m}"] = _spec(f"Geometry.{m}", "Geometry", "binary", ("method", m, None, True))
    out["geom.intersects"] = _spec("geom.intersects", "Geometry", "binary", ("func", "geom", "intersects", ("a", "b"), True))
    for f in ("multigeom", "common_crs", "unary_union", "unary_intersection"):
        out[f"geom.{f}"] = _spec(f"geom.{f}", "Geometry", "iter", ("nary", "geom", f, "geoms"))
    for f in ("bbox_union", "bbox_intersection"):
        out[f"geom.{f}"] = _spec(f"geom.{f}", "BoundingBox", "iter", ("nary", "geom", f, "bbs"))
    for m in ("__and__", "__or__"):
        out[f"BoundingBox.{m}"] = _spec(f"BoundingBox.{m}", "BoundingBox", "binary", ("method", m, None, True))
        out[f"GeoBox.{m}"] = _spec(f"GeoBox.{m}", "GeoBox", "binary", ("method", m, None, True))
    for m in ("overlap_roi", "snap_to"):
        out[f"GeoBox.{m}"] = _spec(f"GeoBox.{m}", "GeoBox", "binary", ("method", m, None, True))
    out["geobox.pixel_translation"] = _spec("geobox.pixel_translation", "GeoBox", "binary",
                                            ("func", "geobox", "pixel_translation", ("a", "b"), True))
    out["geobox.bounding_box_in_pixel_domain"] = _spec(
        "geobox.bounding_box_in_pixel_domain", "GeoBox", "binary",
        ("func", "geobox", "bounding_box_in_pixel_domain", ("geobox", "reference"), True))
    for f in ("geobox_union_conservative", "geobox_intersection_conservative"):
        out[f"geobox.{f}"] = _spec(f"geobox.{f}", "GeoBox", "list", ("nary", "geobox", f, "geoboxes"))
    return out


_FAMILY_ROOTS = (("Geometry", Geometry), ("BoundingBox", BoundingBox), ("GeoBox", GeoBoxBase))


def family_of(tp):
    if isinstance(tp, type):
        for name, root in _FAMILY_ROOTS:
            if issubclass(tp, root):
                return name
    return None


def _resolve(ann, globs):
    if isinstance(ann, typing.ForwardRef):
        ann = ann.__forward_arg__
    if isinstance(ann, str):
        try:
            ann = eval(ann, dict(globs))  # pylint: disable=eval-used  (annotation strings of the library itself)
        except Exception:  # pylint: disable=broad-except
            return None
    return ann


_LISTS = (list, tuple, set, frozenset, cabc.Sequence, cabc.MutableSequence, cabc.Set, cabc.MutableSet)
_ITERS = (cabc.Iterable, cabc.Iterator, cabc.Collection, cabc.Generator)


def classify(ann, globs):
    """('one', family) | ('many', family, 'list'|'iter') | None"""
    ann = _resolve(ann, globs)
    if ann is None or ann is inspect.Parameter.empty:
        return None
    fam = family_of(ann)
    if fam:
        return ("one", fam)
    origin, args = typing.get_origin(ann), typing.get_args(ann)
    if origin is typing.Union or (hasattr(types, "UnionType") and origin is types.UnionType):
        rest = [a for a in args if a is not type(None)]
        return classify(rest[0], globs) if len(rest) == 1 else None  # Union of several types: a converting contract
    if origin in _LISTS or origin in _ITERS:
        elems = [a for a in args if a is not Ellipsis]
        if len(elems) != 1:
            return None
        inner = classify(elems[0], globs)
        if inner and inner[0] == "one":
            return ("many", inner[1], "list" if origin in _LISTS else "iter")
    return None


def _required_others(params, operands):
    return [p.name for p in params
            if p.name not in operands and p.default is inspect.Parameter.empty
            and p.kind in (p.POSITIONAL_ONLY, p.POSITIONAL_OR_KEYWORD, p.KEYWORD_ONLY)]


def _match(qual, params, implicit_family, globs, how_binary, how_nary, is_dunder):
    """Apply the signature rule to one callable. -> (spec | None, exclusion reason | None)"""
    typed = []
    if implicit_family:
        typed.append(("self", ("one", implicit_family)))
    for p in params:
        if p.kind in (p.VAR_POSITIONAL, p.VAR_KEYWORD):
            continue
        typed.append((p.name, classify(p.annotation, globs)))
    ones = {}
    for n, c in typed:
        if c and c[0] == "one":
            ones.setdefault(c[1], []).append(n)
    many = [(n, c) for n, c in typed if c and c[0] == "many"]
    for fam, names in ones.items():
        if len(names) >= 2:
            if implicit_family and "self" not in names:
                return None, f"method combining two {fam} operands of another type than its own: needs an instance"
            if len(names) > 2:
                return None, f"{len(names)} parameters of type {fam}: arity not supported by the generic caller"
            extra = _required_others(params, names)
            if extra:
                return None, f"matched (two {fam} operands) but needs further arguments {extra}"
            return _spec(qual, fam, "binary", how_binary(names)), None
    if len(many) == 1 and not any(len(v) >= 2 for v in ones.values()):
        n, c = many[0]
        if implicit_family and c[1] != implicit_family:
            return None, f"method taking an iterable of {c[1]}, another type than its own ({implicit_family})"
        extra = _required_others(params, [n])
        if extra:
            return None, f"matched (iterable of {c[1]}) but needs further arguments {extra}"
        return _spec(qual, c[1], c[2], how_nary(n)), None
    if is_dunder and implicit_family:
        others = [p for p in params if p.kind in (p.POSITIONAL_ONLY, p.POSITIONAL_OR_KEYWORD)]
        if len(others) == 1:
            ann = _resolve(others[0].annotation, globs)
            if ann is inspect.Parameter.empty or ann is typing.Any or ann is None:
                return _spec(qual, implicit_family, "binary", how_binary(["self", others[0].name])), None
            return None, f"binary operator whose other operand is annotated {getattr(ann, '__name__', ann)} (not CRS-tagged)"
    return None, None


def discover():
    found, excluded = {}, {}
    for cname, cls in CLASSES.items():
        for name in sorted(dir(cls)):
            static = inspect.getattr_static(cls, name)
            f, kind = static, "method"
            if isinstance(static, staticmethod):
                f, kind = static.__func__, "static"
            elif isinstance(static, classmethod):
                f, kind = static.__func__, "class"
            if not inspect.isfunction(f) or not (getattr(f, "__module__", "") or "").startswith("odc.geo"):
                continue
            is_dunder = name in _BIN_DUNDERS
            if name.startswith("_") and not is_dunder:
                continue
            w = inspect.unwrap(f)  # through __wrapped__: the wrap_shapely methods keep their annotations there
            params = list(inspect.signature(w).parameters.values())
            if kind in ("method", "class") and params:
                params = params[1:]
            qual = f"{cname}.{name}"
            if kind == "method":
                spec, why = _match(qual, params, family_of(cls), w.__globals__,
                                   lambda names, name=name, params=params:
                                   ("method", name, names[1], _positional(params, names[1:])),
                                   lambda n, name=name: ("method-nary", name, n), is_dunder)
            else:
                spec, why = _match(qual, params, None, w.__globals__,
                                   lambda names, cname=cname, name=name, params=params:
                                   ("static", cname, name, tuple(names), _positional(params, names)),
                                   lambda n, cname=cname, name=name: ("static-nary", cname, name, n), False)
            if spec:
                found[qual] = spec
            elif why:
                excluded[qual] = why
    for mname, mod in MODS.items():
        for name in sorted(vars(mod)):
            f = vars(mod)[name]
            if name.startswith("_") or not inspect.isfunction(f) or getattr(f, "__module__", None) != mod.__name__:
                continue
            w = inspect.unwrap(f)
            params = list(inspect.signature(w).parameters.values())
            qual = f"{mname}.{name}"
            spec, why = _match(qual, params, None, w.__globals__,
                               lambda names, mname=mname, name=name, params=params:
                               ("func", mname, name, tuple(names), _positional(params, names)),
                               lambda n, mname=mname, name=name: ("nary", mname, name, n), False)
            if spec:
                found[qual] = spec
            elif why:
                excluded[qual] = why
    return found, excluded


def _positional(params, names):
    """True when the operands are the leading positional parameters (then they are passed positionally)."""
    pos = [p.name for p in params if p.kind in (p.POSITIONAL_ONLY, p.POSITIONAL_OR_KEYWORD)]
    return pos[:len(names)] == list(names)


def invoke(spec, operands, container="list"):
    how = spec["how"]
    if how[0] == "method":
        if how[3]:
            return getattr(operands[0], how[1])(operands[1])
        return getattr(operands[0], how[1])(**{how[2]: operands[1]})
    if how[0] in ("func", "static"):
        f = getattr(MODS[how[1]] if how[0] == "func" else CLASSES[how[1]], how[2])
        if how[4]:
            return f(operands[0], operands[1])
        return f(**{how[3][0]: operands[0], how[3][1]: operands[1]})
    seq = list(operands[1:] if how[0] == "method-nary" else operands)
    if container == "iter":
        seq = (o for o in seq)  # a generator: can be consumed once
    if how[0] == "nary":
        return getattr(MODS[how[1]], how[2])(**{how[3]: seq})
    if how[0] == "static-nary":
        return getattr(CLASSES[how[1]], how[2])(**{how[3]: seq})
    if how[0] == "method-nary":  # method taking self + an iterable of the same family
        return getattr(operands[0], how[1])(**{how[2]: seq})
    raise ValueError(how)


EXPLICIT = explicit_ops()
DISCOVERED, DISCOVERY_EXCLUDED = discover()
EXPLICIT_MISSING = sorted(
    n for n, s in EXPLICIT.items()
    if not hasattr(CLASSES.get(n.split(".")[0], MODS.get(n.split(".")[0])), n.split(".", 1)[1]))
OPS = {n: s for n, s in {**DISCOVERED, **EXPLICIT}.items() if n not in EXPLICIT_MISSING}
ONLY_DISCOVERED = sorted(set(DISCOVERED) - set(EXPLICIT))
ONLY_EXPLICIT = sorted(set(EXPLICIT) - set(DISCOVERED))
SPEC_DISAGREE = sorted(n for n in set(DISCOVERED) & set(EXPLICIT)
                       if (DISCOVERED[n]["family"], DISCOVERED[n]["form"]) != (EXPLICIT[n]["family"], EXPLICIT[n]["form"]))


def ops_of(family, binary):
    return sorted(n for n, s in OPS.items() if s["family"] == family and (s["form"] == "binary") == binary)


# =================================================================================================
# observing calls
# =================================================================================================
def capture(fn):
    """('ok', value) with generators consumed, or ('exc', exception)."""
    try:
        v = fn()
        if isinstance(v, cabc.Iterator):
            v = list(v)
        return ("ok", v)
    except Exception as e:  # pylint: disable=broad-except
        return ("exc", e)


def capture_lib(fn):
    """capture() for a call into the library: an exception that never passed through the tree under
    verification comes from this harness (bad call) and must not be judged as the library's answer."""
    st, v = capture(fn)
    if st == "exc" and not core.in_repo_tb(v):
        raise RuntimeError(f"harness: exception outside the tree under verification: {type(v).__name__}: {v}") from v
    return st, v


def tagged_objects(v, depth=0):
    """Every CRS-tagged object inside a result."""
    if isinstance(v, (Geometry, BoundingBox, GeoBoxBase)):
        return [v]
    if isinstance(v, (list, tuple)) and depth < 3:
        return [o for x in v for o in tagged_objects(x, depth + 1)]
    return []


def show(v):
    s = repr(v)
    return s if len(s) < 200 else s[:200] + "..."


def _num(x):
    """numbers compare by value, NaN equal to NaN"""
    return "nan" if isinstance(x, (float, np.floating)) and x != x else x


def plain(v, depth=0):
    """A result with every CRS stripped: comparable between the library, shapely and the untagged call."""
    if isinstance(v, Geometry):
        v = v.geom
    if isinstance(v, BaseGeometry):
        return ("geom", v.geom_type, v.wkb)
    if isinstance(v, (bool, np.bool_)):
        return ("bool", bool(v))
    if isinstance(v, BoundingBox):
        return ("bbox", tuple(map(_num, v.bbox)))
    if isinstance(v, GeoBoxBase):
        return ("geobox", tuple(v.shape), tuple(map(_num, tuple(v.affine)[:6])))
    if v is None:
        return ("none",)
    if isinstance(v, CRS):
        return ("crs",)
    if isinstance(v, (int, float, str, np.integer, np.floating)):
        return ("scalar", _num(v))
    if isinstance(v, tuple) and v and all(isinstance(s, slice) for s in v):
        return ("roi", tuple((s.start, s.stop, s.step) for s in v))
    if isinstance(v, (list, tuple)) and depth < 3:
        return ("seq", tuple(plain(x, depth + 1) for x in v))
    if hasattr(v, "xy") and isinstance(getattr(v, "xy"), tuple):
        return ("xy", tuple(map(_num, v.xy)))
    return ("other", type(v).__name__)


def show_plain(p):
    if p and p[0] == "geom":
        return f"{p[1]} wkb={p[2].hex()[:48]}..({len(p[2])} bytes)"
    if p and p[0] == "seq":
        return "[" + ", ".join(show_plain(x) for x in p[1][:4]) + (", ..." if len(p[1]) > 4 else "") + "]"
    return show(p)


# ---- references ---------------------------------------------------------------------------------------
def _obs(st, v):
    return ("exc", type(v)) if st == "exc" else ("ok", plain(v))


def ref_geometry(op, shapes):
    """Reference for a Geometry operation: shapely on the raw shapes. None: no hand-written reference."""
    _, name = op.split(".", 1)
    if op.startswith("Geometry.") and name in WRAPPED:
        return _obs(*capture(lambda: getattr(shapes[0], name)(shapes[1])))
    if op == "Geometry.split":
        return _obs(*capture(lambda: list(shapely.ops.split(shapes[0], shapes[1]).geoms)))
    if op == "geom.intersects":
        return _obs(*capture(lambda: shapes[0].intersects(shapes[1]) and not shapes[0].touches(shapes[1])))
    if op == "geom.unary_union":
        return _obs(*capture(lambda: shapely.ops.unary_union(list(shapes))))
    if op == "geom.unary_intersection":
        return _obs(*capture(lambda: functools.reduce(lambda a, b: a.intersection(b), shapes)))
    if op == "geom.multigeom":
        return ("parts", ([s.wkb for s in shapes], [s.wkb for s in shapes if not s.is_empty]))
    if op == "geom.common_crs":
        return ("ok", ("crs",))
    return None


def ref_bbox(op, boxes):
    _, name = op.split(".", 1)
    L, B, R_, T = zip(*boxes)
    if name in ("bbox_union", "__or__"):
        return ("ok", ("bbox", (min(L), min(B), max(R_), max(T))))
    if name in ("bbox_intersection", "__and__"):
        return ("ok", ("bbox", (max(L), max(B), min(R_), min(T))))
    return None


def gb_expect_translation(ka, kb):
    """Exact pixel translation a -> b from the lattice encoding (rational arithmetic), or None when the two pixel
    grids are not related by a pure translation (other pixel size, other orientation)."""
    a, b, c, d, e, f = _compose(_inverse(gb_matrix(kb)), gb_matrix(ka))
    if (a, b, d, e) != (1, 0, 0, 1):
        return None
    return (float(c), float(f))  # dyadic: exact in binary64


def ref_geobox_exact(op, kinds):
    """Exact references for the two pixel-space helpers (lattice arithmetic on the case encoding)."""
    if op == "geobox.pixel_translation":
        t = gb_expect_translation(*kinds)
        return ("exc", ValueError) if t is None else ("ok", ("xy", t))
    if op == "geobox.bounding_box_in_pixel_domain":
        t = gb_expect_translation(*kinds)
        if t is None or t[0] != int(t[0]) or t[1] != int(t[1]):
            return ("exc", ValueError)
        ny, nx = gb_shape(kinds[0])
        return ("ok", ("bbox", (t[0], t[1], t[0] + nx, t[1] + ny)))
    return None


_UNTAGGED: dict = {}


def ref_untagged(op, container, kinds):
    """Differential reference: the same call on the same operands without any CRS."""
    k = (op, container, tuple(kinds))
    if k not in _UNTAGGED:
        fam = OPS[op]["family"]
        if fam == "Geometry":
            ops_ = [make_geometry(kd, i, None) for i, kd in enumerate(kinds)]
        elif fam == "BoundingBox":
            ops_ = [BoundingBox(*BB_KINDS[kd], crs=None) for kd in kinds]
        else:
            ops_ = [GeoBox(gb_shape(kd), gb_affine(kd), None) for kd in kinds]
        _UNTAGGED[k] = _obs(*capture_lib(lambda: invoke(OPS[op], ops_, container)))
    return _UNTAGGED[k]


_REF: dict = {}


def reference(op, fam, container, kinds):
    """-> (reference observation, 'raw' | 'exact' | 'untagged'); a pure function of its arguments, kept per process"""
    k = (op, container, tuple(kinds))
    if k not in _REF:
        _REF[k] = _reference(op, fam, container, kinds)
    return _REF[k]


def _reference(op, fam, container, kinds):
    ref = None
    if fam == "Geometry":
        ref = ref_geometry(op, [raw_shape(k, i) for i, k in enumerate(kinds)])
    elif fam == "BoundingBox":
        ref = ref_bbox(op, [BB_KINDS[k] for k in kinds])
    elif fam == "GeoBox":
        ref = ref_geobox_exact(op, kinds)
        if ref is not None:
            return ref, "exact"
    if ref is not None:
        return ref, "raw"
    return ref_untagged(op, container, kinds), "untagged"


# A mismatched call whose raw operation fails by itself with a non-ValueError (seen only for
# unary_intersection, a lazy reduce: [collection, empty polygon, <other CRS>] dies in GEOS on the first two,
# same-CRS, operands) is an observation by default; set True to demand the ValueError even then.
STRICT_RAW_FAILURE = False

def _have_label(c):
    return {-1: "not-a-crs", -2: "unknown-crs"}.get(c, cls_label(c)) if isinstance(c, int) else str(c)


PIXEL_SPACE = ("GeoBox.overlap_roi", "geobox.pixel_translation", "geobox.bounding_box_in_pixel_domain")


# =================================================================================================
# the judge
# =================================================================================================
def judge(op, container, kinds, tags, operands=None, labels=None):
    """Run one (operation, operand kinds, operand tags) case and judge it.
    labels: short spellings (what / ckey / tkey / kkey) for messages and finding keys of long streams."""
    spec = OPS[op]
    fam = spec["family"]
    if operands is None:
        operands = [OPERAND[fam](k, i, t) for i, (k, t) in enumerate(zip(kinds, tags))]
    classes = [tag_class(t) for t in tags]
    same = len(set(classes)) == 1
    rel = relation(tags)
    labels = labels or {}
    what = labels.get("what") or f"{op}({', '.join(f'{k}@{t}' for k, t in zip(kinds, tags))})"
    what += " [generator input]" if container == "iter" else ""

    ref, ref_kind = reference(op, fam, container, kinds)
    ref_raises_valueerror = ref[0] == "exc" and issubclass(ref[1], ValueError)

    st, got = capture_lib(lambda: invoke(spec, operands, container))
    seen = f"raised-{type(got).__name__}" if st == "exc" else f"returned-{type(got).__name__}"
    r = R(outcome=f"{fam}:{rel}:{seen}", nontrivial=True)

    if not same:
        ckey = labels.get("ckey") or "-".join(cls_label(c) for c in classes)
        if st == "ok":
            r.fail(f"{op}:mismatch:{ckey}:no-error",
                   f"{what}: operands are in different CRSs but the call returned {show(got)} instead of raising ValueError")
        elif not isinstance(got, ValueError) and ref[0] == "exc" and type(got) is ref[1] and not STRICT_RAW_FAILURE:
            # the operation on the raw shapes is itself undefined (GEOS refuses the first operands of a lazy
            # reduce before the odd one is reached): an error is raised, nothing is returned, nothing is mixed.
            # Recorded as an observation (ctx.extra), not as a violation.
            r.nontrivial = False
            r.outcome += ":raw-operation-fails-first"
            r.counts = {f"observation:mismatch-masked-by-raw-{type(got).__name__}:{op}": 1}
        elif not isinstance(got, ValueError):
            r.fail(f"{op}:mismatch:{ckey}:raised-{type(got).__name__}",
                   f"{what}: operands are in different CRSs; raised {type(got).__name__}: {got} instead of a ValueError")
        elif ref_raises_valueerror:
            # the call on raw/untagged data raises a ValueError of its own (overlapping splitter, incompatible
            # grids): the error seen cannot be attributed to the CRS test, so this case proves nothing
            r.nontrivial = False
            r.outcome += ":ambiguous"
        return r

    # ---- one equivalence class: the result of the raw data, tagged with the class ---------------------
    c0 = classes[0]
    tkey = labels.get("tkey") or "~".join(tags)
    kkey = labels.get("kkey") or "-".join(kinds)
    if ref_kind == "untagged" and rel == "both-none":
        r.nontrivial = False  # the untagged call compared with itself
    if st == "exc":
        if ref[0] == "exc" and isinstance(got, ref[1]):
            return r  # the raw call fails the same way (a more specific subclass of the reference's exception is the same failure)
        want = f"raises {ref[1].__name__}" if ref[0] == "exc" else "no error"
        r.fail(f"{op}:same:raised-{type(got).__name__}:{tkey}",
               f"{what}: operands have the same CRS (EPSG class {cls_label(c0)}) but the call raised "
               f"{type(got).__name__}: {got}; reference ({ref_kind}): {want}")
        return r
    if ref[0] == "exc":
        r.fail(f"{op}:same:no-error:{kkey}",
               f"{what}: returned {show(got)} but the reference ({ref_kind}) raises {ref[1].__name__}")
        return r

    # value
    if ref[0] == "parts":
        parts = [g.wkb for g in getattr(getattr(got, "geom", None), "geoms", [])]
        if not isinstance(got, Geometry) or parts not in ref[1]:
            r.fail(f"{op}:same:value-differs:{kkey}", f"{what}: returned {show(got)}: its parts are not the input shapes in order")
    elif ref[1] == ("crs",):
        if crs_class_of(got) != c0:
            r.fail(f"{op}:same:result-crs:{cls_label(c0)}->{_have_label(crs_class_of(got))}",
                   f"{what}: returned {show(got)}, expected a CRS of class {cls_label(c0)}")
        elif not all((got is None and o.crs is None) or got == o.crs for o in operands):
            r.fail(f"{op}:same:result-crs-unequal:{tkey}", f"{what}: returned {show(got)} which compares != an operand's crs")
    elif plain(got) != ref[1]:
        r.fail(f"{op}:same:value-differs:{kkey}",
               f"{what}: returned {show(got)} = {show_plain(plain(got))}; reference ({ref_kind}) gives {show_plain(ref[1])}")

    # tag of everything CRS-tagged in the result
    want_c = 0 if op in PIXEL_SPACE else c0
    for o in tagged_objects(got):
        have = crs_class_of(o.crs)
        if have != want_c:
            r.fail(f"{op}:same:result-crs:{cls_label(c0)}->{_have_label(have)}",
                   f"{what}: result {show(o)} carries crs {o.crs!r}; expected CRS class {cls_label(want_c)}")
        elif want_c and not all(o.crs == x.crs for x in operands):
            r.fail(f"{op}:same:result-crs-unequal:{tkey}", f"{what}: result crs {o.crs!r} compares != an operand's crs")
    return r


# =================================================================================================
# slices
# =================================================================================================
def tag_pairs():
    return [(a, b) for a in TAGS for b in TAGS]


def tag_triples(alphabet=TAGS):
    """length-3 tuples: a base tag twice and the odd one at each position (all ordered (base, odd) pairs)."""
    out, seen = [], set()
    for base in alphabet:
        for odd in alphabet:
            for pos in range(3):
                t = [base, base, base]
                t[pos] = odd
                t = tuple(t)
                if t not in seen:
                    seen.add(t)
                    out.append(t)
    return out


def containers(op):
    return ("list", "iter") if OPS[op]["form"] == "iter" else ("list",)


def gen_binary(family, kinds):
    def gen():
        for op in ops_of(family, True):
            for ka in kinds:
                for kb in kinds:
                    for ta, tb in tag_pairs():
                        yield (op, "list", (ka, kb), (ta, tb))
    return gen


def gen_nary(family, kinds2, kinds3):
    def gen():
        for op in ops_of(family, False):
            for cont in containers(op):
                for ka in kinds2:
                    for kb in kinds2:
                        for tt in tag_pairs():
                            yield (op, cont, (ka, kb), tt)
                for kk in itertools.product(kinds3, repeat=3):
                    for tt in tag_triples():
                        yield (op, cont, kk, tt)
    return gen


def run_case(case):
    op, cont, kinds, tags = case
    if op not in OPS:  # replay of a case recorded against another tree
        return R(outcome="operation-absent-from-this-tree", nontrivial=False)
    return judge(op, cont, kinds, tags)


# ---- CRSs without an EPSG code, fresh and after `.epsg` was evaluated -----------------------------------
NE_KINDS2 = {"Geometry": (("polygon", "polyhole"), ("line", "polygon"), ("point", "multipolygon"), ("polygon", "line")),
             "BoundingBox": (("A", "over"), ("A", "apart")),
             "GeoBox": (("base", "shift"), ("base", "subpix"), ("base", "far"))}
NE_KINDS3 = {"Geometry": (("polygon", "polyhole", "multipolygon"), ("line", "polygon", "point")),
             "BoundingBox": (("A", "over", "apart"),),
             "GeoBox": (("base", "shift", "inside"), ("base", "far", "shift"))}


def gen_nonepsg():
    pairs = [(a, b) for a in SUB_TAGS for b in SUB_TAGS]
    triples = tag_triples(SUB_TAGS)
    for fam in ("Geometry", "BoundingBox", "GeoBox"):
        for op in ops_of(fam, True):
            for kk in NE_KINDS2[fam]:
                for tt in pairs:
                    yield (op, "list", kk, tt)
        for op in ops_of(fam, False):
            for cont in containers(op):
                for kk in NE_KINDS2[fam]:
                    for tt in pairs:
                        yield (op, cont, kk, tt)
                for kk in NE_KINDS3[fam]:
                    for tt in triples:
                        yield (op, cont, kk, tt)


def _build(fam, kind, pos, value):
    if fam == "Geometry":
        return make_geometry(kind, pos, value)
    if fam == "BoundingBox":
        return BoundingBox(*BB_KINDS[kind], crs=value)
    return GeoBox(gb_shape(kind), gb_affine(kind), value)


def stateful_operand(fam, kind, pos, tag):
    """Operand whose CRS object is in the state the tag names, established here, per case:
    plain tag: a NEW CRS object (only the spelled value - string / pyproj object - and the library's parse cache
    are shared; the lazily filled EPSG slot lives on the CRS object itself and starts out 'not looked up');
    '+e' tag: `.epsg` and `to_epsg()` are evaluated on the operand's own CRS object before the operation."""
    base = tag.split("+")[0]
    if tag.endswith("+e"):
        k = ("ecrs", tag, pos)  # one CRS object per operand position: the operands are evaluated separately
        # (spelled definitions of other authorities: the code look-up is a database search of up to 0.15 s; their
        # evaluated CRS objects are kept for the life of the worker process instead of one shard)
        store = _ECRS if base.startswith("sp:") else _OBJ
        if k not in store:
            store[k] = CRS(tagv(base))
        crs = store[k]
        _ = crs.epsg  # (the pyproj look-up happens once per object; afterwards the slot answers)
        _ = crs.to_epsg()
        return _build(fam, kind, pos, crs)  # norm_crs keeps a CRS object as it is
    return _build(fam, kind, pos, tagv(base))


_ECRS: dict = {}


def run_nonepsg(case):
    op, cont, kinds, tags = case
    if op not in OPS:
        return R(outcome="operation-absent-from-this-tree", nontrivial=False)
    fam = OPS[op]["family"]
    operands = [stateful_operand(fam, k, i, t) for i, (k, t) in enumerate(zip(kinds, tags))]
    slots = "+".join(sorted({"-" if o.crs is None else str(getattr(o.crs, "_epsg", "?")) for o in operands}))
    r = judge(op, cont, kinds, tags, operands=operands)
    r.outcome = f"nonepsg:{r.outcome}:epsg-slots={slots}"  # 0 = not looked up, None = looked up: no code
    return r


# ---- spelling families: URN / URL / compound / other-authority definitions ---------------------------------------
SPK2 = {"Geometry": ("polygon", "line"), "BoundingBox": ("A", "over"), "GeoBox": ("base", "shift")}
SPK3 = {"Geometry": ("polygon", "polyhole", "multipolygon"), "BoundingBox": ("A", "over", "apart"),
        "GeoBox": ("base", "shift", "inside")}


def _evaluated(tags):
    return tuple(t if t == "none" else t + "+e" for t in tags)


def gen_spell(tier):
    def gen():
        full = tier != "quick"
        pairs = [(a, b) for a in SP_TAGS for b in SP_TAGS]
        pairs += [_evaluated(tt) for tt in pairs if tt != ("none", "none")]  # both operands' .epsg evaluated first
        triples = tag_triples(SP_TAGS)
        if full:
            triples += [_evaluated(tt) for tt in triples if set(tt) != {"none"}]
        for fam in ("Geometry", "BoundingBox", "GeoBox"):
            for op in ops_of(fam, True):
                for tt in pairs:
                    yield (op, "list", SPK2[fam], tt)
            for op in ops_of(fam, False):
                for cont in containers(op):
                    for tt in pairs:
                        yield (op, cont, SPK2[fam], tt)
                    if full or cont == "list":
                        for tt in triples:
                            yield (op, cont, SPK3[fam], tt)
    return gen


_SP_OK: dict = {}


def sp_constructible(tag):
    """Does the library's CRS() accept the definition at all (a property of the tree, kept per process)?"""
    if tag not in _SP_OK:
        st, v = capture(lambda: CRS(SP_DEF[tag]))
        if st == "exc" and not core.in_repo_tb(v):
            raise RuntimeError(f"harness: {tag}: {type(v).__name__}: {v}") from v
        _SP_OK[tag] = st == "ok"
    return _SP_OK[tag]


def sp_family(tag):
    if tag == "none":
        return "none"
    name = tag.split("+")[0].split(":")[1]
    if name in ("curn", "plus", "cwkt") or tag.startswith("sp:epsg:9518"):
        return "compound"
    return "epsg-code" if name in dict(SP_SINGLE) else "other-authority"


def run_spell(case):
    op, cont, kinds, tags = case
    if op not in OPS:
        return R(outcome="operation-absent-from-this-tree", nontrivial=False)
    fams = "+".join(sorted({sp_family(t) for t in tags}))
    state = "evaluated" if any(t.endswith("+e") for t in tags) else "fresh"
    bad = sorted({t.split("+")[0] for t in tags if t != "none" and not sp_constructible(t.split("+")[0])})
    if bad:  # constructing a CRS is not a combining operation: nothing to judge
        r = R(outcome=f"spell[{fams},{state}]:crs-not-constructible", nontrivial=False)
        r.counts = {f"observation:definition-refused-by-CRS():{bad[0]}": 1}
        return r
    fam = OPS[op]["family"]
    operands = [stateful_operand(fam, k, i, t) for i, (k, t) in enumerate(zip(kinds, tags))]
    r = judge(op, cont, kinds, tags, operands=operands)
    r.outcome = f"spell[{fams},{state}]:{r.outcome}"
    return r


# ---- operands of ANOTHER CRS-tagged class than the signature names ------------------------------------------------
# Every operation x every assignment of classes {Geometry, BoundingBox, GeoBox} to its operand positions other than
# "all of the class the signature names" (a method's self stays what it is) x tag pairs / odd-one-out triples.
# What such a call does when the CRSs agree is outside the property (today: AttributeError / TypeError /
# ValueError). When they DIFFER it must not hand back a result: any exception is accepted, a returned value is a
# result computed from coordinates of different reference systems.
FAMILIES = ("Geometry", "BoundingBox", "GeoBox")
XK = {"Geometry": ("polygon", "point"), "BoundingBox": ("A", "inside"), "GeoBox": ("base", "inside")}
X3_TAGS = ("none", "EPSG:4326", "EPSG:3857", "proj:A")


def _families_in(ann, globs, depth=0):
    """CRS-tagged classes named anywhere in an annotation (through Optional / Union / containers)."""
    ann = _resolve(ann, globs)
    if ann is None or ann is inspect.Parameter.empty or depth > 4:
        return set()
    fam = family_of(ann)
    if fam:
        return {fam}
    out = set()
    for a in typing.get_args(ann):
        out |= _families_in(a, globs, depth + 1)
    return out


@functools.lru_cache(maxsize=None)
def declared_families(op):
    """Classes the operation's own signature names for its operands: an operand of such a class is not 'foreign'
    (a signature naming several CRS-tagged classes states a converting contract; those are excluded, see bounds)."""
    owner, name = op.split(".", 1)
    f = inspect.getattr_static(CLASSES[owner], name) if owner in CLASSES else getattr(MODS[owner], name)
    f = getattr(f, "__func__", f)
    w = inspect.unwrap(f)
    fams = {OPS[op]["family"]}
    try:
        params = inspect.signature(w).parameters.values()
    except (TypeError, ValueError):
        return fams
    for p in params:
        fams |= _families_in(p.annotation, getattr(w, "__globals__", {}))
    return fams


def foreign_patterns(op, n):
    """All assignments of classes to the n operand positions except the all-own one; classes the signature itself
    names are not used as foreign ones."""
    own = OPS[op]["family"]
    declared = declared_families(op)
    alphabet = [own] + [f for f in FAMILIES if f not in declared]
    first = (own,) if OPS[op]["how"][0] in ("method", "method-nary") else tuple(alphabet)
    return [(a,) + rest for a in first for rest in itertools.product(alphabet, repeat=n - 1)
            if any(f != own for f in (a,) + rest)]


def gen_foreign():
    pairs = [(a, b) for a in R_TAGS for b in R_TAGS]
    triples = tag_triples(X3_TAGS)
    for op in sorted(OPS):
        binary = OPS[op]["form"] == "binary"
        for cont in (("list",) if binary else containers(op)):
            for n, tagsets in ((2, pairs),) if binary else ((2, pairs), (3, triples)):
                for fams in foreign_patterns(op, n):
                    for variant in (0, 1):
                        for tt in tagsets:
                            yield (op, cont, fams, variant, tt)


def run_foreign(case):
    op, cont, fams, variant, tags = case
    if op not in OPS:
        return R(outcome="operation-absent-from-this-tree", nontrivial=False)
    own = OPS[op]["family"]
    if any(f != own and f in declared_families(op) for f in fams):  # replay against a tree with another signature
        return R(outcome="operand-class-named-by-the-signature", nontrivial=False)
    kinds = tuple(XK[f][(i + variant) % 2] for i, f in enumerate(fams))
    operands = [_build(f, k, i, tagv(t)) for i, (f, k, t) in enumerate(zip(fams, kinds, tags))]
    classes = [tag_class(t) for t in tags]
    same = len(set(classes)) == 1
    st, got = capture_lib(lambda: invoke(OPS[op], operands, cont))
    if st == "ok" and got is NotImplemented:
        seen = "refused-NotImplemented"  # what Python turns into a TypeError for the operator spelling
    else:
        seen = f"raised-{type(got).__name__}" if st == "exc" else f"returned-{type(got).__name__}"
    others = "+".join(sorted(set(fams) - {own}))
    r = R(outcome=f"foreign[{own}-operation<-{others}{'' if own in fams else ' only'}]:{relation(tags)}:{seen}",
          nontrivial=not same)
    if not same and seen.startswith("returned-"):
        what = f"{op}({', '.join(f'{f}:{k}@{t}' for f, k, t in zip(fams, kinds, tags))})"
        what += " [generator input]" if cont == "iter" else ""
        r.fail(f"{op}:operand-classes-{'-'.join(fams)}:mismatch:{'-'.join(cls_label(c) for c in classes)}:no-error",
               f"{what}: the operands are CRS-tagged objects in different CRSs but the call returned {show(got)} "
               f"instead of raising")
    return r


# ---- more geometry kinds: single-part Multi*, repeated vertices, rings / parts derived through the library ---
def gen_kinds2(tier):
    full = tier != "quick"
    tags = tag_pairs() if full else [(a, b) for a in R_TAGS for b in R_TAGS]
    allk = GEOM_KINDS + GEOM_KINDS2

    def gen():
        for binary in (True, False):
            for op in ops_of("Geometry", binary):
                for cont in (containers(op) if not binary else ("list",)):
                    for ka in allk:
                        for kb in allk:
                            if ka in GEOM_KINDS and kb in GEOM_KINDS:
                                continue  # both old kinds: the geometry-binary / geometry-nary slices
                            for tt in tags:
                                yield (op, cont, (ka, kb), tt)
    return gen


# ---- streams of four: the odd one (incl. the CRS-less one) first, in the middle, last -----------------------
KINDS4 = {"Geometry": (("polygon", "polyhole", "multipolygon", "line"), ("ring", "empty", "point", "collection")),
          "BoundingBox": (("A", "over", "apart", "inside"),),
          "GeoBox": (("base", "shift", "inside", "far"), ("far", "base", "upleft", "shift"))}


def tag_quads(alphabet=TAGS):
    out, seen = [], set()
    for base in alphabet:
        for odd in alphabet:
            for pos in range(4):
                t = [base] * 4
                t[pos] = odd
                if tuple(t) not in seen:
                    seen.add(tuple(t))
                    out.append(tuple(t))
    return out


def gen_nary4(tier):
    def gen():
        quads = tag_quads()
        two_odd = [(a, b, a, b) for a in R_TAGS for b in R_TAGS if a != b] + [(a, a, b, b) for a in R_TAGS for b in R_TAGS if a != b]
        for fam in ("Geometry", "BoundingBox", "GeoBox"):
            for op in ops_of(fam, False):
                for cont in containers(op):
                    for kk in KINDS4[fam][: (1 if tier == "quick" else 2)]:
                        for tt in quads + two_odd:
                            yield (op, cont, kk, tt)
    return gen


# ---- long streams: the NUMBER of operands, the odd one (incl. the CRS-less one) anywhere -----------------------
# Every stream operation x every length of a contiguous range (so that any internal threshold - bulk / vectorised
# paths, chunking - inside the range has streams on both sides of it) x every ordered (base, odd) tag pair x the odd
# operand at EVERY position (short range) or first / second / middle / last but one / last (long range and
# isolated lengths around powers of two), list and one-shot generator input.
LONG_CYCLES = {"Geometry": (("polygon",), ("polygon", "polyhole", "multipolygon1", "line")),
               "BoundingBox": (("A", "over", "inside"), ("A", "over", "apart", "inside", "flat")),
               "GeoBox": (("base", "shift", "inside", "big"), ("base", "far", "upleft", "empty"))}


L4_TAGS = ("none", "EPSG:4326", "wkt2:4326", "EPSG:3857")


def long_plan(tier, fam):
    """-> (lengths enumerated with the odd operand at EVERY position, tags used there,
           lengths enumerated with five position classes, tags used there, number of kind cycles)"""
    full = tier != "quick"
    if fam == "GeoBox":  # a call costs ~0.1 ms per operand
        every = range(5, 17) if full else range(5, 10)
        classes = tuple(range(5, 67 if full else 35)) + ((127, 128, 129, 130, 257) if full else (64, 65, 128, 129))
        return tuple(every), L4_TAGS, classes, (R_TAGS if full else L4_TAGS), (2 if full else 1)
    every = range(5, 35) if full else range(5, 21)
    if full:
        classes = tuple(range(5, 131)) + (255, 256, 257, 258, 511, 512, 513, 514, 1000, 1001, 1023, 1024, 1025, 1026)
    else:
        classes = tuple(range(5, 41)) + (63, 64, 65, 66, 100, 127, 128, 129, 130, 255, 256, 257, 258)
    # second BoundingBox cycle: the running intersection is empty from the third box on (an early exit would skip the rest)
    return tuple(every), (R_TAGS if full else L4_TAGS), classes, R_TAGS, (2 if full or fam == "BoundingBox" else 1)


def long_positions(n):
    return sorted({0, 1, n // 2, n - 2, n - 1})


def gen_long(tier):
    def gen():
        for fam in ("Geometry", "BoundingBox", "GeoBox"):
            every, etags, classes, ctags, ncyc = long_plan(tier, fam)
            plan = [(n, range(n), etags) for n in every] + [(n, long_positions(n), ctags) for n in classes]
            for op in ops_of(fam, False):
                for cont in containers(op):
                    for ci in range(ncyc):
                        seen = set()
                        for n, where, tags in plan:
                            for base in tags:
                                for odd in tags:
                                    for pos in (where if base != odd else (0,)):
                                        k = (n, base, odd, pos)
                                        if k not in seen:
                                            seen.add(k)
                                            yield (op, cont, ci, n, base, odd, pos)
    return gen


def _runs(ns):
    """[5, 6, 7, 9] -> '5..7, 9'"""
    out, ns = [], sorted(ns)
    for n in ns:
        if out and out[-1][1] == n - 1:
            out[-1][1] = n
        else:
            out.append([n, n])
    return ", ".join(str(a) if a == b else f"{a}..{b}" for a, b in out)


def _plan_bounds(tier, fam):
    every, etags, classes, ctags, ncyc = long_plan(tier, fam)
    return {"every position": {"lengths": _runs(every), "tags": list(etags)},
            "position classes": {"lengths": _runs(classes), "tags": list(ctags)}, "kind cycles used": ncyc}


def _where(pos, n):
    return {0: "first", 1: "second", n - 1: "last", n - 2: "last-but-one"}.get(pos, "inner")


def run_long(case):
    op, cont, ci, n, base, odd, pos = case
    if op not in OPS:
        return R(outcome="operation-absent-from-this-tree", nontrivial=False)
    fam = OPS[op]["family"]
    cyc = LONG_CYCLES[fam][ci]
    kinds = tuple(cyc[i % len(cyc)] for i in range(n))
    tags = tuple(odd if i == pos else base for i in range(n))
    w = _where(pos, n)
    labels = dict(
        what=f"{op}({n} operands, kinds cycling through {'/'.join(cyc)}: all @{base} except operand #{pos} @{odd})",
        ckey=f"{n}-operands:{cls_label(tag_class(base))}-with-{w}-{cls_label(tag_class(odd))}",
        tkey=f"{n}-operands:{base}~{w}:{odd}", kkey=f"{n}-operands:{'-'.join(cyc)}")
    r = judge(op, cont, kinds, tags, labels=labels)
    r.outcome = (f"long[{'<=8' if n <= 8 else '<=32' if n <= 32 else '<=128' if n <= 128 else '>128'},"
                 f"{w if w in ('first', 'last') else 'inner'}]:{r.outcome}")
    return r


# ---- GeoBox operand ORIENTATION: the other grid mirrored / transposed / turned relative to self ---------------
# The property does not depend on the geometric relation of the two grids: a CRS mismatch must raise whatever it
# is (where the same-CRS call refuses the pair for grid reasons any ValueError is accepted: 'ambiguous').
def gb_orient_alphabets(tier):
    full = tier != "quick"
    self_kinds = tuple(GB_KINDS) if full else ("base", "inside", "empty")
    self_or = tuple(GB_ORIENT) if full else ("n", "fy", "fxy")
    return self_kinds, self_or, tuple(GB_KINDS), tuple(GB_ORIENT)


def gen_gb_orient(tier):
    def gen():
        self_kinds, self_or, other_kinds, other_or = gb_orient_alphabets(tier)
        pairs = [(a, b) for a in R_TAGS for b in R_TAGS]
        for op in ops_of("GeoBox", True):
            for ka in self_kinds:
                for oa in self_or:
                    for kb in other_kinds:
                        for ob in other_or:
                            for tt in pairs:
                                yield (op, "list", (f"{ka}/{oa}", f"{kb}/{ob}"), tt)
    return gen


GBO_TRIPLES = (("base", "shift", "inside"), ("big", "base", "far"))


def gen_gb_orient_nary(tier):
    def gen():
        full = tier != "quick"
        self_kinds = tuple(GB_KINDS)
        ors = tuple(GB_ORIENT)
        pairs = [(a, b) for a in R_TAGS for b in R_TAGS]
        triples = tag_triples(R_TAGS)
        for op in ops_of("GeoBox", False):
            for cont in containers(op):
                for ka in (self_kinds if full else ()):  # quick: lists of 2 are reached through GeoBox.__and__ / __or__
                    for kb in GB_KINDS:
                        for oa, ob in itertools.product(ors, repeat=2):
                            for tt in pairs:
                                yield (op, cont, (f"{ka}/{oa}", f"{kb}/{ob}"), tt)
                for kk in GBO_TRIPLES:
                    for oo in itertools.product(GB_FLIPS, repeat=3):
                        for tt in triples:
                            yield (op, cont, tuple(f"{k}/{o}" for k, o in zip(kk, oo)), tt)
    return gen


def run_gb_orient(case):
    op, cont, kinds, tags = case
    if op not in OPS:
        return R(outcome="operation-absent-from-this-tree", nontrivial=False)
    r = judge(op, cont, kinds, tags)
    ors = [k.partition("/")[2] for k in kinds]
    r.outcome = f"orient[{'same' if len(set(ors)) == 1 else 'mixed'}]:{r.outcome}"
    for f in r.fails:
        f.key += ":orientation-" + "-".join(ors)
    return r


# ---- histories: an earlier call with the same coordinates, lazy properties read first ---------------------------
WARM_KINDS = {"Geometry": ("polygon", "polyhole"), "BoundingBox": ("A", "over"), "GeoBox": ("base", "shift")}


def gen_warm():
    pairs = [(a, b) for a in R_TAGS for b in R_TAGS]
    for op in sorted(OPS):
        for wt in pairs:
            for tt in pairs:
                yield (op, wt, tt, 0)
        for wt in (("EPSG:4326", "EPSG:4326"), ("proj:A", "proj:A"), ("EPSG:4326", "EPSG:3857")):
            for tt in pairs:
                yield (op, wt, tt, 1)  # lazy properties of the operands are read before the call


def touch_lazy(o):
    """Read the lazily computed / derived views of an operand (answers are discarded)."""
    names = {"Geometry": ("boundingbox", "exterior", "centroid", "json", "wkt"),
             "BoundingBox": ("polygon", "points", "aoi"),
             "GeoBox": ("extent", "boundingbox", "geographic_extent", "resolution", "alignment", "coordinates")}[family_of(type(o))]
    for n in names:
        capture(lambda n=n: getattr(o, n))
    if o.crs is not None:
        capture(lambda: o.crs.epsg)
        if isinstance(o, GeoBoxBase):
            capture(lambda: o.footprint("EPSG:4326"))
    capture(lambda: hash(o))


def run_warm(case):
    op, wt, tt, touch = case
    if op not in OPS:
        return R(outcome="operation-absent-from-this-tree", nontrivial=False)
    fam = OPS[op]["family"]
    kinds = WARM_KINDS[fam]
    warm = [_build(fam, k, i, tagv(t)) for i, (k, t) in enumerate(zip(kinds, wt))]
    w_st, _ = capture_lib(lambda: invoke(OPS[op], warm, "list"))
    # same coordinates / affines, tags of the test; an operand whose tag did not change IS the earlier instance
    operands = [warm[i] if tt[i] == wt[i] else _build(fam, k, i, tagv(tt[i])) for i, k in enumerate(kinds)]
    if touch:
        for o in operands:
            touch_lazy(o)
    r = judge(op, "list", kinds, tt, operands=operands)
    r.outcome = f"warm[{'ok' if w_st == 'ok' else 'raised'}{',touched' if touch else ''}]:{r.outcome}"
    for f in r.fails:
        f.key = f"after-{'same-crs-call' if len({tag_class(t) for t in wt}) == 1 else 'refused-call'}" \
                f"{'+lazy-read' if touch else ''}:" + f.key
        f.msg += f" (earlier call on the same coordinates with tags {wt}{'; lazy properties read first' if touch else ''})"
    return r


# ---- entry points of one operation must answer alike ---------------------------------------------------------
ALIASES = (
    ("Geometry.__and__", "Geometry.intersection"), ("Geometry.__or__", "Geometry.union"),
    ("Geometry.__xor__", "Geometry.symmetric_difference"), ("Geometry.__sub__", "Geometry.difference"),
    ("BoundingBox.__and__", "geom.bbox_intersection"), ("BoundingBox.__or__", "geom.bbox_union"),
    ("GeoBox.__and__", "geobox.geobox_intersection_conservative"), ("GeoBox.__or__", "geobox.geobox_union_conservative"),
)


def gen_alias():
    for a, b in ALIASES:
        fam = EXPLICIT[a]["family"]
        for kk in NE_KINDS2[fam]:
            for ta in SUB_TAGS:
                for tb in SUB_TAGS:
                    yield (a, b, kk, (ta, tb))


def run_alias(case):
    a, b, kinds, tags = case
    if a not in OPS or b not in OPS:
        return R(outcome="operation-absent-from-this-tree", nontrivial=False)
    fam = OPS[a]["family"]
    obs = []
    for op in (a, b):
        operands = [stateful_operand(fam, k, i, t) for i, (k, t) in enumerate(zip(kinds, tags))]
        st, v = capture_lib(lambda op=op, operands=operands: invoke(OPS[op], operands, "list"))
        obs.append((_obs(st, v), tuple(crs_class_of(o.crs) for o in tagged_objects(v)) if st == "ok" else ()))
    r = R(outcome=f"alias:{fam}:{relation(tags)}:{obs[0][0][0]}")
    if obs[0] != obs[1]:
        def sh(o):
            return o[0][1].__name__ if o[0][0] == "exc" else f"{show_plain(o[0][1])} crs classes {o[1]}"
        r.fail(f"entry-points-differ:{a}~{b}:{relation(tags)}",
               f"{a} and {b} on ({', '.join(f'{k}@{t}' for k, t in zip(kinds, tags))}): {sh(obs[0])}  vs  {sh(obs[1])}")
    return r


# ---- many live CRS objects (thorough) ----------------------------------------------------------------------
_CROWD: list = []
CROWD_CODES = tuple(range(32601, 32661)) + tuple(range(32701, 32761)) + tuple(range(26901, 26924))


def reset_crowded():
    reset()
    _CROWD[:] = [CRS(f"EPSG:{c}") for c in CROWD_CODES] + [CRS(c) for c in CROWD_CODES[:20]]
    for c in _CROWD[::7]:
        _ = c.epsg


def gen_crowded():
    for op in sorted(OPS):
        for ta in SUB_TAGS:
            for tb in SUB_TAGS:
                yield (op, "list", WARM_KINDS[OPS[op]["family"]], (ta, tb))


def run_crowded(case):
    r = run_nonepsg(case)
    r.outcome = f"crowded({len(_CROWD)}):" + r.outcome
    return r


# ---- converting operations: the other operand is in ANOTHER CRS and must be reprojected, never mixed ------------
# A 64x64 px grid of 100 m pixels, 4x4 tiles of 16 px. The numbers are valid coordinates in every projected CRS
# used for the grid. The query region sits inside tile (row 1, column 2), a quarter pixel off the pixel lattice, at
# least 4 px from every tile edge: every discrete answer (tiles, pixel-rounded boxes, burnt masks) is then stable
# against reprojection round-off and the (centimetre-size) curvature of the region's edges.
CV_X0, CV_Y1, CV_RES, CV_N, CV_TILE = 300000.0, 206400.0, 100.0, 64, 16
CV_GRID_TAGS = ("EPSG:32633", "wkt2:32633", "EPSG:3857", "proj:A", "proj:A+e", "wkt2:A", "proj:B", "stale:32633")
CV_Q_TAGS = ("EPSG:4326", "wkt2:4326", "int:4326", "json:4326", "EPSG:3857", "wkt2:3857", "EPSG:32633", "wkt2:32633",
             "pyproj:32633", "proj:A", "proj:A+e", "wkt2:A", "proj:B", "proj:B+e", "stale:32633", "stale:32633+e")
CV_PIX = {"poly": ((36.25, 20.25), (36.25, 27.75), (43.75, 27.75), (43.75, 20.25)),
          "line": ((36.25, 20.25), (43.75, 26.25)),  # crosses no pixel corner and no pixel centre
          "point": ((40.25, 24.25),)}
CV_OPS = ("GeoboxTiles.tiles", "GeoboxTiles.tiles[bbox]", "GeoboxTiles.range_from_bbox", "GeoBox.enclosing",
          "GeoBox.enclosing[bbox]", "GeoBox.project", "GeoBox.from_geopolygon[crs=]", "GridSpec.tiles_from_geopolygon",
          "xr.crop[apply_mask=False]", "xr.crop", "xr.crop[fn]", "xr.mask", "xr.mask[invert]", "xr.mask[all_touched=False]",
          "xr.mask[fn]", "xr.rasterize")


def _ref_crs(cls):
    return pyproj.CRS.from_epsg(cls) if isinstance(cls, int) else _CUSTOM_REF[cls]


_CVQ: dict = {}


def cv_coords(gclass, uclass, kind):
    """Vertices of the query region expressed in class `uclass` (fresh pyproj transformer; never odc code)."""
    k = (gclass, uclass, kind)
    if k not in _CVQ:
        xy = [(CV_X0 + c * CV_RES, CV_Y1 - r * CV_RES) for c, r in CV_PIX[kind]]
        if gclass != uclass:
            tr = pyproj.Transformer.from_crs(_ref_crs(gclass), _ref_crs(uclass), always_xy=True)
            xy = [tr.transform(x, y) for x, y in xy]
        _CVQ[k] = xy
    return _CVQ[k]


def cv_shape(xy, kind):
    return {"poly": Polygon, "line": LineString, "point": lambda p: Point(*p[0])}[kind](xy)


def cv_crs_value(tag, slot):
    """crs value for a tag; '+e': a CRS object (one per role) on which .epsg / to_epsg() is evaluated now."""
    base = tag.split("+")[0]
    if not tag.endswith("+e"):
        return tagv(base)
    k = ("cv-ecrs", tag, slot)
    if k not in _OBJ:
        _OBJ[k] = CRS(tagv(base))
    _ = _OBJ[k].epsg
    _ = _OBJ[k].to_epsg()
    return _OBJ[k]


def cv_world(gtag):
    """(GeoBox, GeoboxTiles, GridSpec, DataArray of ones) for a grid tag; kept per shard: many operations run on the
    one instance in sequence."""
    k = ("cv-world", gtag)
    if k not in _OBJ:
        from odc.geo.geobox import GeoboxTiles  # pylint: disable=import-outside-toplevel
        from odc.geo.gridspec import GridSpec  # pylint: disable=import-outside-toplevel
        from odc.geo.xr import xr_zeros  # pylint: disable=import-outside-toplevel

        crs = cv_crs_value(gtag, "grid")
        gbox = GeoBox((CV_N, CV_N), Affine(CV_RES, 0, CV_X0, 0, -CV_RES, CV_Y1), crs)
        _OBJ[k] = (gbox, GeoboxTiles(gbox, (CV_TILE, CV_TILE)), GridSpec(gbox.crs, (CV_TILE, CV_TILE), CV_RES),
                   xr_zeros(gbox, dtype="float32") + 1)
    elif gtag.endswith("+e"):
        cv_crs_value(gtag, "grid")
    return _OBJ[k]


def _nanpattern(xx):
    a = np.asarray(xx.values if hasattr(xx, "values") else xx)
    gb = xx.odc.geobox
    return ("raster", tuple(gb.shape), tuple(gb.affine)[:6], np.packbits(np.isfinite(a) & (a != 0)).tobytes())


def cv_call(op, world, q, bb):
    """-> (comparable answer, list of CRS-tagged results)"""
    # pylint: disable=import-outside-toplevel,too-many-return-statements
    gbox, tiles, gs, xx = world
    if op == "GeoboxTiles.tiles":
        return ("tiles", tuple(tiles.tiles(q))), []
    if op == "GeoboxTiles.tiles[bbox]":
        return ("tiles", tuple(tiles.tiles(bb))), []
    if op == "GeoboxTiles.range_from_bbox":
        yy, xx_ = tiles.range_from_bbox(bb)
        return ("tiles", tuple(itertools.product(yy, xx_))), []
    if op == "GeoBox.enclosing":
        g = gbox.enclosing(q)
        return plain(g), [g]
    if op == "GeoBox.enclosing[bbox]":
        g = gbox.enclosing(bb)
        return plain(g), [g]
    if op == "GeoBox.project":
        g = gbox.project(q)
        b = g.geom.bounds
        return ("pixel-bounds", tuple(round(v * 256) / 256 for v in b)), [g]  # 1/256 px; region is on the 1/4 px lattice
    if op == "GeoBox.from_geopolygon[crs=]":
        g = GeoBox.from_geopolygon(q, resolution=CV_RES, crs=gbox.crs)
        return plain(g), [g]
    if op == "GridSpec.tiles_from_geopolygon":
        out = list(gs.tiles_from_geopolygon(q))
        return ("tiles", tuple(tuple(i) for i, _ in out)), [g for _, g in out]
    from odc.geo import xr as oxr
    if op == "xr.crop[apply_mask=False]":
        return _nanpattern(xx.odc.crop(q, apply_mask=False)), []
    if op == "xr.crop":
        return _nanpattern(xx.odc.crop(q)), []
    if op == "xr.crop[fn]":
        return _nanpattern(oxr.crop(xx, q)), []
    if op == "xr.mask":
        return _nanpattern(xx.odc.mask(q)), []
    if op == "xr.mask[invert]":
        return _nanpattern(xx.odc.mask(q, invert=True)), []
    if op == "xr.mask[all_touched=False]":
        return _nanpattern(xx.odc.mask(q, all_touched=False)), []
    if op == "xr.mask[fn]":
        return _nanpattern(oxr.mask(xx, q)), []
    if op == "xr.rasterize":
        return _nanpattern(oxr.rasterize(q, gbox)), []
    raise ValueError(op)


CV_EXPECT = {"GeoboxTiles.tiles": ("tiles", ((1, 2),))}
CV_BBOX_OPS = ("GeoboxTiles.tiles[bbox]", "GeoboxTiles.range_from_bbox", "GeoBox.enclosing[bbox]")


def cv_bbox_expect(op, gcls, ucls, kind):
    """Independent answer for a BoundingBox query given in class `ucls`: its outline (a box in `ucls`, an oblique,
    possibly much larger quadrilateral on the grid) is carried to grid pixels with a fresh pyproj transformer.
    None: the answer hinges on round-off (an edge within 1e-3 px of a decision boundary) - not judged."""
    xy = cv_coords(gcls, ucls, kind)
    x0, x1 = min(p[0] for p in xy), max(p[0] for p in xy)
    y0, y1 = min(p[1] for p in xy), max(p[1] for p in xy)
    if x0 == x1 or y0 == y1:
        return None  # degenerate box (point region)
    tr = pyproj.Transformer.from_crs(_ref_crs(ucls), _ref_crs(gcls), always_xy=True) if gcls != ucls else None

    def to_pix(pts):
        if tr is not None:
            pts = [tr.transform(x, y) for x, y in pts]
        return [((x - CV_X0) / CV_RES, (CV_Y1 - y) / CV_RES) for x, y in pts]

    corners = [(x0, y0), (x0, y1), (x1, y1), (x1, y0)]
    eps = 1e-3
    if op == "GeoBox.enclosing[bbox]":
        n = 128  # the library adds points along the edges before reprojecting; so does the reference
        ring = [(ax + (bx - ax) * i / n, ay + (by - ay) * i / n)
                for (ax, ay), (bx, by) in zip(corners, corners[1:] + corners[:1]) for i in range(n)]
        pix = to_pix(ring)
        lo_c, hi_c = min(p[0] for p in pix), max(p[0] for p in pix)
        lo_r, hi_r = min(p[1] for p in pix), max(p[1] for p in pix)
        if any(abs(v - round(v)) < eps for v in (lo_c, hi_c, lo_r, hi_r)):
            return None
        tx, ty = math.floor(lo_c), math.floor(lo_r)
        nx, ny = max(1, math.ceil(hi_c) - tx), max(1, math.ceil(hi_r) - ty)
        return ("geobox", (ny, nx), (CV_RES, 0.0, CV_X0 + tx * CV_RES, 0.0, -CV_RES, CV_Y1 - ty * CV_RES))
    pix = to_pix(corners)
    lo_c, hi_c = min(p[0] for p in pix), max(p[0] for p in pix)
    lo_r, hi_r = min(p[1] for p in pix), max(p[1] for p in pix)
    nt = CV_N // CV_TILE
    if op == "GeoboxTiles.range_from_bbox":
        if any(abs(v / CV_TILE - round(v / CV_TILE)) < eps for v in (lo_c, hi_c, lo_r, hi_r)):
            return None

        def rng(lo, hi):
            a = min(max(math.floor(lo), 0), CV_N - 1) // CV_TILE
            b = (min(max(math.ceil(hi), 1), CV_N) - 1) // CV_TILE
            return range(a, b + 1)
        return ("tiles", tuple(itertools.product(rng(lo_r, hi_r), rng(lo_c, hi_c))))
    quad = Polygon(pix)
    answers = []
    for q in (quad.buffer(eps), quad.buffer(-eps)):
        answers.append(tuple((r, c) for r in range(nt) for c in range(nt)
                             if not q.disjoint(sbox(c * CV_TILE, r * CV_TILE, (c + 1) * CV_TILE, (r + 1) * CV_TILE))))
    return ("tiles", answers[0]) if answers[0] == answers[1] else None
CV_SAME_AS = {"xr.crop[fn]": "xr.crop", "xr.mask[fn]": "xr.mask"}  # function and accessor entry points


CV_GRID_TAGS_QUICK = ("EPSG:32633", "wkt2:32633", "proj:A+e", "proj:B", "stale:32633")


def gen_convert(tier):
    def gen():
        yield from _gen_convert(CV_GRID_TAGS_QUICK if tier == "quick" else CV_GRID_TAGS)
    return gen


def _gen_convert(grid_tags):
    for op in CV_OPS:
        for gt in grid_tags:
            for qt in CV_Q_TAGS:
                for kind in CV_PIX:
                    yield (op, gt, qt, kind)


def run_convert(case):
    op, gt, qt, kind = case
    gcls, qcls = tag_class(gt), tag_class(qt)
    world = cv_world(gt)
    gbox = world[0]

    def query(cls, crs_value):
        xy = cv_coords(gcls, cls, kind)
        xs, ys = [p[0] for p in xy], [p[1] for p in xy]
        return Geometry(cv_shape(xy, kind), crs_value), BoundingBox(min(xs), min(ys), max(xs), max(ys), crs_value)

    q, bb = query(qcls, cv_crs_value(qt, "query"))
    qn, bbn = query(gcls, gbox.crs)  # the same region expressed in the grid's own CRS
    rel = "same-crs" if gcls == qcls else "other-crs"
    what = f"{op} on a grid in {gt} with a {kind} region given in {qt}"
    st, got = capture_lib(lambda: cv_call(op, world, q, bb))
    stn, ref = capture_lib(lambda: cv_call(CV_SAME_AS.get(op, op), world, qn, bbn))
    r = R(outcome=f"convert:{op.split('[')[0]}:{rel}:{'raised-' + type(got).__name__ if st == 'exc' else 'answered'}")
    key = f"{op}:grid-{cls_label(gcls)}:region-{cls_label(qcls)}"
    if stn == "exc":
        r.nontrivial = False  # not even defined for the region in the grid's own CRS
        if not (st == "exc" and type(got) is type(ref)):
            r.fail(f"{key}:answers-but-native-raises", f"{what}: {show(got)}; with the region in the grid's CRS: {type(ref).__name__}: {ref}")
        return r
    if st == "exc":
        if gcls == qcls:  # the same CRS in another spelling is refused
            r.fail(f"{key}:raised-{type(got).__name__}",
                   f"{what}: raised {type(got).__name__}: {got}; the same region given with the grid's own CRS object is answered")
        else:  # refusing is not mixing: an observation (degenerate boxes cannot be reprojected by the library)
            r.nontrivial = False
            r.counts = {f"observation:convert-raised-{type(got).__name__}:{op}:{kind}": 1}
        return r
    (ans, tagged), (ans_n, _) = got, ref
    if op in CV_BBOX_OPS and gcls != qcls:
        # a box in another CRS is another (larger, oblique) region on the grid: judged by the independent reference
        want = cv_bbox_expect(op, gcls, qcls, kind)
        if want is None:
            r.nontrivial = False
            r.outcome += ":not-judged(round-off)"
        elif ans != want:
            r.fail(f"{key}:differs-from-reference",
                   f"{what}: answer {show(ans)}; the box carried to the grid with a fresh pyproj transformer gives {show(want)}")
    elif ans != ans_n:
        r.fail(f"{key}:differs-from-native",
               f"{what}: answer {show(ans)} differs from the answer for the same region given in the grid's own CRS {show(ans_n)} "
               f"(region vertices in {qt}: {cv_coords(gcls, qcls, kind)})")
    if op in CV_EXPECT and kind == "poly" and ans != CV_EXPECT[op]:
        r.fail(f"{key}:unexpected", f"{what}: answer {show(ans)}, expected {CV_EXPECT[op]}")
    want_c = 0 if op == "GeoBox.project" else gcls
    for o in tagged:
        if crs_class_of(o.crs) != want_c:
            r.fail(f"{key}:result-crs:{_have_label(crs_class_of(o.crs))}",
                   f"{what}: result carries crs {o.crs!r}, expected class {cls_label(want_c)}")
    return r


# ---- fresh caches: every ordered tag pair after every one-step history of the CRS cache ----------------------
FRESH_OPS = ("Geometry.union", "Geometry.intersects", "geom.bbox_union", "geobox.pixel_translation", "GeoBox.__or__")
FRESH_KINDS = {"Geometry": ("polygon", "polyhole"), "BoundingBox": ("A", "over"), "GeoBox": ("base", "shift")}


def gen_fresh():
    for op in FRESH_OPS:
        if op not in OPS:
            continue
        for primer in ("-",) + TAGS[1:]:
            for ta, tb in tag_pairs():
                for order in ("ab", "ba", "a|b"):  # a|b: the library's CRS caches are emptied in between
                    yield (op, primer, ta, tb, order)


def run_fresh(case):
    op, primer, ta, tb, order = case
    if op not in OPS:
        return R(outcome="operation-absent-from-this-tree", nontrivial=False)
    reset()
    fam = OPS[op]["family"]
    if primer != "-":
        BoundingBox(0, 0, 1, 1, make_tag(primer))  # something else was built from this spelling earlier
    kinds = FRESH_KINDS[fam]
    built = {}
    for which in order:
        if which == "|":
            _PRISTINE.restore()
            continue
        i = "ab".index(which)
        tag = (ta, tb)[i]
        v = make_tag(tag)
        if fam == "Geometry":
            built[i] = Geometry(raw_shape(kinds[i], i), v)
        elif fam == "BoundingBox":
            built[i] = BoundingBox(*BB_KINDS[kinds[i]], crs=v)
        else:
            built[i] = GeoBox(gb_shape(kinds[i]), gb_affine(kinds[i]), v)
    r = judge(op, "list", kinds, (ta, tb), operands=[built[0], built[1]])
    r.outcome = "fresh:" + r.outcome
    for f in r.fails:
        f.key = f"fresh-cache[{'primed' if primer != '-' else 'empty'},{order}]:" + f.key
        f.msg += f" (CRS caches emptied, then built: primer={primer}, operands in order {order})"
    reset()
    return r


def slices(tier):
    k3g = ("point", "line", "polygon", "multipolygon") if tier == "quick" else \
        ("point", "line", "polygon", "multipolygon", "collection", "empty")
    k3b = ("A", "over", "apart")
    k3x = ("base", "shift", "inside", "far") if tier == "quick" else ("base", "shift", "inside", "far", "subpix", "empty")
    return [
        e1.Slice("geometry-binary", gen_binary("Geometry", GEOM_KINDS), run_case,
                 "binary Geometry operations x all ordered kind pairs x all ordered tag pairs", setup=reset),
        e1.Slice("geometry-nary", gen_nary("Geometry", GEOM_KINDS, k3g), run_case,
                 "collection operations: length 2 (all kind pairs x tag pairs) and length 3 (kind triples x odd-one-out tag "
                 "triples), list and generator input", setup=reset),
        e1.Slice("bbox-binary", gen_binary("BoundingBox", tuple(BB_KINDS)), run_case,
                 "BoundingBox operators x box pairs x tag pairs", setup=reset),
        e1.Slice("bbox-nary", gen_nary("BoundingBox", tuple(BB_KINDS), k3b), run_case,
                 "bbox_union / bbox_intersection on streams of 2 and 3 boxes, list and generator input", setup=reset),
        e1.Slice("geobox-binary", gen_binary("GeoBox", GB_BASE_KINDS), run_case,
                 "binary GeoBox operations x GeoBox kind pairs (aligned, shifted, disjoint, sub-pixel, other pixel size, "
                 "empty) x tag pairs", setup=reset),
        e1.Slice("geobox-nary", gen_nary("GeoBox", GB_BASE_KINDS, k3x), run_case,
                 "geobox_union/intersection_conservative on lists of 2 and 3 GeoBoxes", setup=reset),
        e1.Slice("non-epsg", gen_nonepsg, run_nonepsg,
                 "every operation x a few kind tuples x all ordered pairs / odd-one-out triples of tags incl. two custom "
                 "projections without EPSG code (proj4, WKT2, pyproj spellings), each fresh and after .epsg/to_epsg() "
                 "was evaluated on the operand's CRS object", setup=reset),
        e1.Slice("spellings", gen_spell(tier), run_spell,
                 "every operation x all ordered pairs (collections also odd-one-out triples) of authority-code spellings: "
                 "EPSG code as EPSG:N / URN / versioned URN / URL / versioned URL, compound h+v as compound URN / "
                 "'EPSG:h+v' / WKT2 (sharing the vertical or the horizontal component), registered compound codes, "
                 "ESRI / OGC / IGNF / IAU_2015 codes; fresh and after .epsg was evaluated on both operands; 'same CRS' "
                 "= fresh pyproj objects of the two definitions compare equal", setup=reset),
        e1.Slice("foreign-class", gen_foreign, run_foreign,
                 "every operation x every assignment of the three CRS-tagged classes to its operand positions (2; collections "
                 "also 3) other than the one its signature names x 2 kind variants x all ordered reduced tag pairs / "
                 "odd-one-out triples, list and generator input: with different CRSs nothing may be returned", setup=reset),
        e1.Slice("geometry-kinds2", gen_kinds2(tier), run_case,
                 "Geometry operations (binary and collections of 2) where at least one operand is a single-part Multi*, a "
                 "line with repeated vertices, or a ring / part derived through .exterior / .interiors / .geoms; quick: "
                 "reduced tag alphabet, thorough: all tags", setup=reset),
        e1.Slice("nary4", gen_nary4(tier), run_case,
                 "collection operations on streams of 4: odd tag (incl. the CRS-less one) at each position, and two-odd patterns",
                 setup=reset),
        e1.Slice("long-streams", gen_long(tier), run_long,
                 "collection operations on streams of 5 and more operands: every length of a contiguous range plus lengths "
                 "around powers of two, the odd tag (incl. the CRS-less one) at every position (short range) or first / "
                 "second / middle / last but one / last, all ordered reduced tag pairs, list and generator input",
                 setup=reset),
        e1.Slice("geobox-orientation", gen_gb_orient(tier), run_gb_orient,
                 "binary GeoBox operations x (self kind, orientation) x (other kind, orientation: as is, mirrored in x / y / "
                 "both, transposed, quarter turn; over the same footprint) x all ordered reduced tag pairs", setup=reset),
        e1.Slice("geobox-orientation-nary", gen_gb_orient_nary(tier), run_gb_orient,
                 "geobox_union/intersection_conservative on lists of 3 (mirrored orientations^3 x odd-one-out tag triples) and, "
                 "thorough, of 2 (kinds x orientations x tag pairs; quick reaches these through GeoBox.__and__/__or__)",
                 setup=reset),
        e1.Slice("warm", gen_warm, run_warm,
                 "every operation after an earlier call on operands with the same coordinates/affines (accepted or refused), "
                 "re-using unchanged operand instances, with and without reading lazy properties first", setup=reset),
        e1.Slice("entry-points", gen_alias, run_alias,
                 "operator / method / function spellings of one operation answer alike (value, result CRS, exception)", setup=reset),
        e1.Slice("convert", gen_convert(tier), run_convert,
                 "converting operations (GeoboxTiles.tiles / range_from_bbox, GeoBox.enclosing / project / from_geopolygon(crs=), "
                 "GridSpec.tiles_from_geopolygon, xarray crop / mask / rasterize through accessor and function) with the region "
                 "given in another CRS or another spelling: same answer as for the region in the grid's own CRS", setup=reset),
    ] + ([
        e1.Slice("crowded", gen_crowded, run_crowded,
                 "every operation x spelled tag pairs while 163 other CRS objects are alive", setup=reset_crowded),
    ] if tier != "quick" else []) + [
        e1.Slice("fresh-cache", gen_fresh, run_fresh,
                 "representative operations on every ordered tag pair, built in both orders (and with the caches emptied "
                 "between the two operands) on emptied CRS caches, after nothing or after one earlier construction from "
                 "each spelling", setup=reset),
    ]


def main(ctx):
    ctx.rule = (
        "complete products operation x operand kinds x CRS tags; a case is non-trivial unless the error seen could "
        "also come from the raw operation (ValueError of the untagged call) or untagged GeoBoxes are compared with "
        "themselves; distinct by (slice, case) hash"
    )
    ctx.bounds = {
        "tags": list(TAGS),
        "tag_classes": "by EPSG code; 'none' is its own class; custom projections: which projection (laeaA / laeaB)",
        "non_epsg_slice_tags": list(SUB_TAGS),
        "reduced_tags_of_add_on_slices": list(R_TAGS),
        "stale_id_wkt": "WKT2 of EPSG:32633 with the central meridian edited 15 -> 16.5 deg, trailing ID[\"EPSG\",32633] kept "
                        "(class 'stale32633': pyproj to_epsg() is None and it is != EPSG:32633)",
        "spelling_families": {
            "tags (name: definition; long WKT shortened)": {t: (d if len(d) < 90 else d[:60] + "...") for t, d in SP_DEF.items()},
            "classes (fresh pyproj comparison of the definitions)": {t: cls_label(c) for t, c in SP_CLASS.items()},
            "dropped (not resolvable offline / comparison not an equivalence)": [list(x) for x in SP_DROPPED],
            "products": {"EPSG code spellings": [p for _, p in SP_SINGLE], "codes": list(SP_CODES),
                         "compound spellings": [p or "WKT2 text of EPSG:h+v" for _, p in SP_COMPOUND],
                         "horizontal": list(SP_H), "vertical": list(SP_V)},
            "states": "both operands new CRS objects | .epsg and to_epsg() evaluated on both (pairs; thorough: triples too)",
            "kinds": {"pairs": {f: list(k) for f, k in SPK2.items()}, "triples": {f: list(k) for f, k in SPK3.items()}},
            "quick": "triples as lists only, new CRS objects only",
        },
        "foreign_class": {
            "classes": list(FAMILIES), "kinds (two variants: alternating from the first / second)": {f: list(k) for f, k in XK.items()},
            "positions": "2 for binary operations, 2 and 3 for collections; every class assignment except all-own; "
                         "a method's self keeps its class",
            "tags": {"pairs": list(R_TAGS), "odd-one-out triples": list(X3_TAGS)},
            "classes named by an operation's own signature (not used as foreign there)":
                {op: sorted(declared_families(op) - {OPS[op]["family"]}) for op in sorted(OPS)
                 if declared_families(op) - {OPS[op]["family"]}},
            "not enumerated": "raw shapely shapes as operands (they carry no CRS tag: the property does not speak about them)",
        },
        "geometry_kinds2": list(GEOM_KINDS2),
        "long_streams": {
            "plan (quick)": {f: _plan_bounds("quick", f) for f in LONG_CYCLES},
            "plan (thorough)": {f: _plan_bounds("thorough", f) for f in LONG_CYCLES},
            "positions": "'every': the odd operand at each of the n positions; 'classes': first / second / middle / last but one / last",
            "kind cycles": {f: [list(c) for c in v] for f, v in LONG_CYCLES.items()},
            "tag tuples": "one base tag everywhere and one odd tag at the position; all ordered (base, odd) pairs of the stated tags",
        },
        "geobox_orientations": {"orientations": list(GB_ORIENT), "self kinds x orientations (quick)":
                                [list(x) for x in gb_orient_alphabets("quick")[:2]],
                                "other": "all GeoBox kinds x all orientations", "lists of 3": [list(t) for t in GBO_TRIPLES]},
        "nary_length_4": "base tag three times + odd one at each position (all tags); patterns a,b,a,b and a,a,b,b (reduced tags)",
        "warm": "earlier call on operands with the same coordinates under each reduced tag pair, then each reduced tag pair; "
                "unchanged operands are the same instances; lazy-read variant after 3 warm pairs",
        "entry_point_aliases": [list(a) for a in ALIASES],
        "convert_grid": f"{CV_N}x{CV_N} px of {CV_RES} m at ({CV_X0}, {CV_Y1}), tiles of {CV_TILE} px; grid tags {list(CV_GRID_TAGS)} (quick: {list(CV_GRID_TAGS_QUICK)}); "
                        f"region tags {list(CV_Q_TAGS)}; regions (pixel coordinates) {CV_PIX}",
        "convert_operations": list(CV_OPS),
        "crowded (thorough)": f"{len(CROWD_CODES) + 20} further live CRS objects",
        "non_epsg_projections": PROJ4,
        "tag_state_+e": "`.epsg` and `to_epsg()` evaluated on the operand's own CRS object inside run() before the call; "
                        "plain tags of that slice get a new CRS object per case",
        "geometry_kinds": list(GEOM_KINDS),
        "bbox_kinds": {k: list(v) for k, v in BB_KINDS.items()},
        "geobox_kinds (ny,nx,col/16,row/16,pixel/16)": {k: list(v) for k, v in GB_KINDS.items()},
        "nary_lengths": "2 (all ordered tag pairs), 3 and 4 (base tag, odd one at each position), 5 and more: see long_streams",
        "operations_explicit": sorted(EXPLICIT),
        "operations_discovered_by_signature": sorted(DISCOVERED),
        "discovered_not_in_explicit_list": ONLY_DISCOVERED,
        "explicit_not_discovered": ONLY_EXPLICIT,
        "explicit_missing_from_tree": EXPLICIT_MISSING,
        "explicit_vs_discovered_spec_disagreements": SPEC_DISAGREE,
        "matched_but_excluded (name: reason)": DISCOVERY_EXCLUDED,
        "excluded_by_design": {
            "__eq__/__ne__": "comparison answers False for another CRS, nothing is computed from mixed coordinates",
            "GeoBox.enclosing, GeoBoxBase.project, GeoBox.__getitem__, GeoboxTiles.tiles, Geometry.to_crs, "
            "GeoBox.from_geopolygon/from_bbox(crs=)": "contract is to convert the other operand into this object's CRS, "
                                                      "not to combine as-is; other operand has a different type",
            "GeoBox.__mul__/__rmul__, Geometry.__rmul__": "other operand is an Affine (no CRS)",
        },
    }
    ctx.assumptions = [
        "shapely 2 on the raw shapes is the reference for geometry results; WKB equality (plus geometry type) is 'exactly'",
        "for GeoBox operations the reference is the same call on GeoBoxes without CRS (grid arithmetic itself is C16's "
        "subject); pixel_translation / bounding_box_in_pixel_domain additionally have an exact dyadic reference",
        "a mismatch case where the untagged call itself raises a ValueError (overlapping splitter, incompatible grids) is "
        "accepted on any ValueError and counted as trivial",
        "the property quantifies over operations combining two or more objects: streams of length 0 and 1 are not enumerated",
        "EPSG class of a result CRS is taken from a fresh pyproj.CRS built from str(result.crs)",
        "converting operations (region in another CRS): judged against the answer for the same region expressed in the grid's "
        "CRS with a fresh pyproj transformer (BoundingBox queries: against the box outline carried to the grid, not judged "
        "when an edge lies within 1e-3 px of a decision boundary); an exception raised for a region in ANOTHER CRS is an "
        "observation (refusing is not mixing), an exception for the SAME CRS in another spelling is a violation; CRS-less "
        "regions are not enumerated there (project / tiles(BoundingBox) document a pixel-plane reading)",
        "spelled definitions (sp: tags): two definitions are the same CRS iff fresh pyproj.CRS objects built from them compare "
        "equal (PROJ's 'equivalent' criterion: axis order and the vertical component count, names do not); the alphabet "
        "holds no pair on which that criterion and the EPSG code reported by to_epsg() disagree (e.g. IGNF:LAMB93 is in, "
        "EPSG:2154 is not); a definition that the library's CRS() itself refuses makes the case vacuous",
        "operands of another CRS-tagged class than the signature names: only 'different CRSs => nothing is returned' is "
        "demanded (any exception, or NotImplemented from an operator method, is accepted); equal CRSs are not judged",
        "discovered operations without a hand-written reference are judged by the generic clauses only (mismatch => "
        "ValueError; same class => no ValueError, result tagged with the operands' CRS)",
    ]
    for n in ONLY_DISCOVERED:
        print(f"NOTE C01: {n} was found by signature and is not in the explicit list: swept with the generic oracle")
    for n, why in sorted(DISCOVERY_EXCLUDED.items()):
        if "not CRS-tagged" not in why:
            print(f"NOTE C01: {n} matches the signature rule but is NOT exercised: {why}")
    for n in EXPLICIT_MISSING:
        print(f"NOTE C01: explicit operation {n} does not exist in this tree")
    sl = slices(ctx.tier)
    if ctx.only:
        sl = [s for s in sl if any(s.name.startswith(o) for o in ctx.only)]
    e1.run_slices(ctx, sl)
    ctx.extra["observations"] = {k.split(":", 1)[1]: int(v) for k, v in sorted(ctx.counters.items())
                                 if k.startswith("observation:")}


def replay(slice_name, case, tier):
    return e1.replay(slices(tier), slice_name, case).fails
