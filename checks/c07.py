"""C07 - geometry reprojection and densification are faithful.

E1: complete products of (geometry kind, placement of its vertices relative to the coordinate axes,
symmetry of the square, scale, resolution) for ``densify`` / ``Geometry.segmented``, and of
(directed CRS pair, placement inside both valid areas, kind, symmetry, resolution, target spelling,
flags) for ``Geometry.to_crs``.

Oracles (none of them uses the code under test):
* densification: plain float geometry on the coordinate lists - original vertices found again in
  order (exact ``==``), every added vertex within tolerance of the original edge it was put on,
  every piece no longer than the resolution, type / part / ring structure equal, shapely area and
  length of the raw shapes equal.
* reprojection: a pyproj.Transformer built by this module from its own ``pyproj.CRS.from_epsg``
  objects (never the library's cached transformer); with ``resolution=`` the output is mapped back
  with the inverse transformer built the same way and judged by the densification oracle in the
  source CRS.
"""
from __future__ import annotations

import math
import os
import pickle
import select
import signal
import time

import numpy as np
import pyproj
from shapely import geometry as sg

from vf import core, e1
from vf.core import R

PROPERTY = "C07"
LEVEL = "exploration"

from odc.geo.crs import CRS  # noqa: E402
from odc.geo.geom import Geometry, densify  # noqa: E402

INF = math.inf
REL = 1e-9  # relative to the LOCAL length scale (edge length / resolution), never to the coordinate magnitude
REL_RT = 1e-6  # there-and-back through a projection (DESIGN C07): relative to the coordinate magnitude
ULPS = 16  # head-room for binary64 rounding of a coordinate of magnitude M: ULPS * ulp(M)


def ulp(m):
    return math.ulp(max(abs(m), 1e-300))


def edge_tol(rel, M, L):
    """How far an added vertex may sit from its edge / how much a piece may exceed the resolution.

    Same CRS (rel == REL): 1e-9 of the edge length plus a few ulps of the coordinates (a tolerance scaled
    by the coordinate magnitude would be many edge lengths for a 4.5e-6-sized geometry at lon 150).
    Mapped back through an inverse projection (rel == REL_RT): 1e-6 of the coordinate magnitude."""
    if rel == REL:
        return REL * L + ULPS * ulp(M)
    return rel * (M + L)


def len_tol(li, M, nv):
    return REL * abs(li) + 4 * nv * ulp(M)


def area_tol(ai, li, M):
    return REL * abs(ai) + 8 * ulp(M) * abs(li)


def nverts(pp_):
    return sum(len(c) for _, _, c in pp_)

# ---------------------------------------------------------------------------------------------
# flattening a shapely geometry into paths; structure signature
# ---------------------------------------------------------------------------------------------
_MULTI = ("MultiPoint", "MultiLineString", "MultiPolygon", "GeometryCollection")


def paths(shp, prefix=""):
    """[(path id, kind, coords)] with kind in pt/line/ring/empty; ids encode part/ring structure."""
    t = shp.geom_type
    if t in _MULTI:
        out = []
        for i, g in enumerate(shp.geoms):
            out += paths(g, f"{prefix}{i}:{g.geom_type}/")
        return out
    if shp.is_empty:
        return [(prefix + "empty", "empty", [])]
    if t == "Point":
        return [(prefix + "pt", "pt", list(shp.coords))]
    if t == "LineString":
        return [(prefix + "line", "line", list(shp.coords))]
    if t == "LinearRing":
        return [(prefix + "ring", "ring", list(shp.coords))]
    if t == "Polygon":
        out = [(prefix + "ext", "ring", list(shp.exterior.coords))]
        out += [(f"{prefix}hole{i}", "ring", list(h.coords)) for i, h in enumerate(shp.interiors)]
        return out
    raise AssertionError(f"harness: unexpected geometry type {t}")


def signature(pp):
    return tuple((pid, kind) for pid, kind, _ in pp)


def maxabs(pp):
    m = 0.0
    for _, _, cc in pp:
        for x, y in cc:
            m = max(m, abs(x), abs(y))
    return m


# ---------------------------------------------------------------------------------------------
# densification oracle on one path
# ---------------------------------------------------------------------------------------------
def _dist_pt_seg(x, p, q):
    vx, vy = q[0] - p[0], q[1] - p[1]
    wx, wy = x[0] - p[0], x[1] - p[1]
    vv = vx * vx + vy * vy
    t = 0.0 if vv == 0 else min(1.0, max(0.0, (wx * vx + wy * vy) / vv))
    return math.hypot(wx - t * vx, wy - t * vy)


def match_originals(orig, out, eq):
    """Positions of the original vertices, in order, inside the output sequence.

    The first and the last original vertex must be the first and the last output vertex. In between,
    greedy first match: added vertices lie inside an edge, so the first later occurrence of the next
    original vertex is that vertex (an added vertex that rounds onto the end point of its edge is then
    read as a zero-distance added vertex of the following edge - or, on the last edge, of that edge).
    Returns (index list, n) or (None, number of the original vertex that was not found).
    """
    n, m = len(orig), len(out)
    if m == 0 or not eq(0, orig[0], out[0]):
        return None, 0
    if n == 1:
        return ([0], 1) if m == 1 else (None, 0)
    idx = [0]
    j = 1
    for k in range(1, n - 1):
        while j < m - 1 and not eq(k, orig[k], out[j]):
            j += 1
        if j >= m - 1:
            return None, k
        idx.append(j)
        j += 1
    if j > m - 1 or not eq(n - 1, orig[n - 1], out[m - 1]):
        return None, n - 1
    idx.append(m - 1)
    return idx, n


class Once:
    """report each finding key at most once per case"""

    def __init__(self, r):
        self.r = r
        self.seen = set()

    def __call__(self, key, msg):
        if key not in self.seen:
            self.seen.add(key)
            self.r.fail(key, msg)


def judge_dense_path(fail, tag, ctxmsg, pid, src, out_src, idx, res, rel):
    """src: original vertices (source CRS). out_src: output vertices expressed in the source CRS.
    idx: position of every original vertex in the output. Returns (needed, added)."""
    needed = added = 0
    lim = res * (1 + REL)
    for i in range(len(src) - 1):
        p, q = src[i], src[i + 1]
        mid = out_src[idx[i] + 1: idx[i + 1]]
        L = math.hypot(q[0] - p[0], q[1] - p[1])
        M = max(abs(p[0]), abs(p[1]), abs(q[0]), abs(q[1]))
        tol = edge_tol(rel, M, L)
        if L > lim:
            needed += 1
        if not mid:
            if L > lim:
                fail(f"{tag}:edge-left-undensified",
                     f"{ctxmsg} path {pid}: edge {p}->{q} has length {L!r} > resolution {res!r} "
                     f"but no vertex was added on it")
            continue
        added += len(mid)
        seg = [p] + list(mid) + [q]
        worst = max(math.hypot(b[0] - a[0], b[1] - a[1]) for a, b in zip(seg[:-1], seg[1:]))
        if worst > lim + 2 * tol:
            fail(f"{tag}:piece-longer-than-resolution",
                 f"{ctxmsg} path {pid}: edge {p}->{q} was split into {len(seg) - 1} pieces, the longest "
                 f"is {worst!r} > resolution {res!r}")
        for x in mid:
            d = _dist_pt_seg(x, p, q)
            if not d <= tol:
                fail(f"{tag}:added-vertex-off-edge",
                     f"{ctxmsg} path {pid}: added vertex {x} is {d!r} away from its edge {p}->{q} (tol {tol!r})")
                break
    return needed, added


def judge_segmented(fail, tag, ctxmsg, shp_in, shp_out, res):
    """Full densification oracle, input and output in the same CRS. Returns (needed, added)."""
    if shp_out.geom_type != shp_in.geom_type:
        fail(f"{tag}:type-changed", f"{ctxmsg}: {shp_in.geom_type} became {shp_out.geom_type}")
        return 0, 0
    pin, pout = paths(shp_in), paths(shp_out)
    if signature(pin) != signature(pout):
        fail(f"{tag}:structure-changed",
             f"{ctxmsg}: parts/rings {signature(pin)} became {signature(pout)}")
        return 0, 0
    needed = added = 0
    for (pid, kind, cin), (_, _, cout) in zip(pin, pout):
        if kind in ("pt", "empty"):
            if cin != cout:
                fail(f"{tag}:point-moved", f"{ctxmsg} path {pid}: {cin} became {cout}")
            continue
        idx, nfound = match_originals(cin, cout, lambda k, p, o: p == o)
        if idx is None:
            fail(f"{tag}:original-vertex-lost",
                 f"{ctxmsg} path {pid}: original vertex #{nfound} {cin[nfound]} not found (in order) "
                 f"in the output {cout[:12]}{'...' if len(cout) > 12 else ''}")
            continue
        n, a = judge_dense_path(fail, tag, ctxmsg, pid, cin, cout, idx, res, REL)
        needed += n
        added += a
    M = maxabs(pin)
    li, lo = shp_in.length, shp_out.length
    if not abs(lo - li) <= len_tol(li, M, nverts(pout)):
        fail(f"{tag}:length-changed", f"{ctxmsg}: length {li!r} became {lo!r}")
    ai, ao = shp_in.area, shp_out.area
    if not abs(ao - ai) <= area_tol(ai, li, M):
        fail(f"{tag}:area-changed", f"{ctxmsg}: area {ai!r} became {ao!r}")
    return needed, added


# ---------------------------------------------------------------------------------------------
# geometry kinds (templates on the integer grid [-2, 5]^2) and placements
# ---------------------------------------------------------------------------------------------
def _sq(x0, y0, x1, y1):
    return [(x0, y0), (x0, y1), (x1, y1), (x1, y0), (x0, y0)]


_T = {
    "point": ("Point", (1, 2)),
    "multipoint": ("MultiPoint", [(-2, 0), (0, 5), (5, -1)]),
    # horizontal, vertical on x=0, horizontal, oblique, oblique
    "line": ("LineString", [(-2, -2), (0, -2), (0, 5), (5, 5), (2, 1), (-1, 2)]),
    "ring": ("LinearRing", [(0, 0), (0, 5), (5, 2), (2, 0), (0, 0)]),
    "polygon": ("Polygon", [[(0, -2), (0, 5), (5, 5), (5, 0), (2, -2), (0, -2)]]),
    "polygon-hole": ("Polygon", [_sq(-2, -2, 5, 5), [(0, 0), (0, 2), (2, 2), (1, 0), (0, 0)]]),
    "multiline": ("MultiLineString", [[(-2, 0), (5, 0)], [(0, -2), (0, 5)], [(-1, -1), (2, 5), (5, 5)]]),
    "multipolygon": ("MultiPolygon", [[_sq(-2, -2, 0, 5)],
                                      [_sq(1, -2, 5, 5), [(2, 0), (2, 2), (4, 1), (2, 0)]]]),
    "empty": ("Polygon", []),
}
_T["collection"] = ("GeometryCollection", [_T["point"], _T["multiline"], _T["polygon-hole"]])
# multi-geometries / collections with exactly ONE part: must stay multi with one part (never the bare part)
_T["multipoint-1"] = ("MultiPoint", [(1, 2)])
_T["multiline-1"] = ("MultiLineString", [[(-2, 0), (0, 0), (0, 5), (5, 2)]])
_T["multipolygon-1"] = ("MultiPolygon", [[_sq(-2, -2, 5, 5), [(0, 0), (0, 2), (2, 2), (1, 0), (0, 0)]]])
_T["collection-1"] = ("GeometryCollection", [_T["polygon-hole"]])
# consecutive repeated vertices (at the start, inside, at the end; in shells and holes): every original
# vertex has to come back, repeated ones as often as they were given (sequence embedding)
_T["line-dup"] = ("LineString", [(-2, -2), (-2, -2), (0, -2), (0, 5), (0, 5), (0, 5), (5, 5), (2, 1), (2, 1)])
_T["ring-dup"] = ("LinearRing", [(0, 0), (0, 5), (0, 5), (5, 2), (2, 0), (2, 0), (0, 0)])
_T["polygon-dup"] = ("Polygon", [[(-2, -2), (-2, 5), (-2, 5), (5, 5), (5, -2), (-2, -2)],
                                 [(0, 0), (0, 2), (2, 2), (2, 2), (1, 0), (0, 0)]])
_T["multiline-1-dup"] = ("MultiLineString", [[(-2, 0), (0, 0), (0, 0), (0, 5), (5, 2)]])

# rings taken from a polygon (what Geometry.exterior / .interiors wrap), a collection inside a collection
_T["ring-exterior"] = ("ExteriorOf", _T["polygon-hole"])
_T["ring-interior"] = ("InteriorOf", _T["polygon-hole"])
_T["collection-nested"] = ("GeometryCollection", [_T["collection"], _T["multipolygon"], _T["ring"]])

KINDS = ("point", "multipoint", "line", "ring", "polygon", "polygon-hole", "multiline",
         "multipolygon", "collection", "empty",
         "multipoint-1", "multiline-1", "multipolygon-1", "collection-1",
         "line-dup", "ring-dup", "polygon-dup", "multiline-1-dup",
         "ring-exterior", "ring-interior", "collection-nested")
BASE_KINDS = KINDS[:10]  # the quick tier crosses the other ("extra") kinds with fewer symmetries / spellings
# area > 0: "auto" is defined
AREA_KINDS = ("polygon", "polygon-hole", "multipolygon", "collection", "multipolygon-1", "collection-1",
              "polygon-dup", "collection-nested")

# the 8 symmetries of the square, about the grid origin (so x=0 / y=0 lines stay on the axes)
D4 = ((1, 0, 0, 1), (0, -1, 1, 0), (-1, 0, 0, -1), (0, 1, -1, 0),
      (-1, 0, 0, 1), (1, 0, 0, -1), (0, 1, 1, 0), (0, -1, -1, 0))


def placer(sym, ox, oy, step):
    a, b, c, d = D4[sym]

    def f(gx, gy):
        return (ox + step * (a * gx + b * gy), oy + step * (c * gx + d * gy))

    return f


def build(t, f):
    typ, data = t
    if typ == "Point":
        return sg.Point(f(*data))
    if typ == "MultiPoint":
        return sg.MultiPoint([f(*p) for p in data])
    if typ == "LineString":
        return sg.LineString([f(*p) for p in data])
    if typ == "LinearRing":
        return sg.LinearRing([f(*p) for p in data])
    if typ == "Polygon":
        if not data:
            return sg.Polygon()
        return sg.Polygon([f(*p) for p in data[0]], [[f(*p) for p in h] for h in data[1:]])
    if typ == "MultiLineString":
        return sg.MultiLineString([[f(*p) for p in ln] for ln in data])
    if typ == "MultiPolygon":
        return sg.MultiPolygon([build(("Polygon", rings), f) for rings in data])
    if typ == "GeometryCollection":
        return sg.GeometryCollection([build(c, f) for c in data])
    if typ == "ExteriorOf":
        return build(data, f).exterior
    if typ == "InteriorOf":
        return build(data, f).interiors[0]
    raise AssertionError(typ)


def make_shape(kind, sym, ox, oy, step):
    return build(_T[kind], placer(sym, ox, oy, step))


# ---------------------------------------------------------------------------------------------
# slice 1: single edges (and, thorough, two-edge paths) through densify() and line.segmented()
# ---------------------------------------------------------------------------------------------
GRID = (-2, -1, 0, 1, 2, 5)
SUBGRID = (-1, 0, 2)
SCALES = (1.0, 1e3, 1e6)
# offsets in units of the scale: on the axes, near them, far from either or both
OFFS_Q = ((0.0, 0.0), (0.25, 0.25), (1024.0, 0.0), (0.0, 1024.0), (-1024.0, -1024.0))
OFFS_T = OFFS_Q + ((0.0, -0.25), (3.0, 1024.0), (500.0, 6000.0))
RES_Q = (0.3, 0.5, 1.0, 2.5, 10.0, INF)
RES_T = RES_Q + (0.1, 0.7, 3.0, 7.0)


def gen_edges(tier):
    pts = [(x, y) for x in GRID for y in GRID]
    offs, ress = (OFFS_T, RES_T) if tier == "thorough" else (OFFS_Q, RES_Q)

    def gen():
        for p in pts:
            for q in pts:
                for s in SCALES:
                    for off in offs:
                        for res in ress:
                            yield ((p, q), s, off, res)
        if tier == "thorough":
            sub = [(x, y) for x in SUBGRID for y in SUBGRID]
            for p in sub:
                for q in sub:
                    for t in sub:
                        if p != q and q != t:
                            for s in SCALES:
                                for off in offs:
                                    for res in ress:
                                        yield ((p, q, t), s, off, res)

    return gen


def _dir(p, q):
    dx, dy = q[0] - p[0], q[1] - p[1]
    if dx == 0 and dy == 0:
        return "zero"
    if dy == 0:
        return "h"
    if dx == 0:
        return "v"
    return "diag" if abs(dx) == abs(dy) else "oblique"


def run_edges(case):
    gpts, s, (ox, oy), res0 = case
    res = res0 * s
    coords = [(s * (gx + ox), s * (gy + oy)) for gx, gy in gpts]
    cls = _dir(gpts[0], gpts[1]) if len(gpts) == 2 else "path3"
    r = R()
    fail = Once(r)
    msg = f"coords={coords} resolution={res!r}"
    ref = sg.LineString(coords)

    # (a) the coordinate-list function
    got = densify(list(coords), res)
    got = [tuple(p) for p in got]
    idx, nfound = match_originals(coords, got, lambda k, p, o: p == o)
    needed = added = 0
    tag = f"densify:edge-{cls}"
    if idx is None:
        fail(f"{tag}:original-vertex-lost",
             f"densify({coords}, {res!r}): original vertex #{nfound} not found in order in {got[:12]}")
    else:
        needed, added = judge_dense_path(fail, tag, f"densify({msg})", "coords", coords, got, idx, res, REL)
        lo = sg.LineString(got).length if len(got) > 1 else 0.0
        if not abs(lo - ref.length) <= len_tol(ref.length, maxabs([(0, 0, coords)]), len(got)):
            fail(f"{tag}:length-changed", f"densify({msg}): length {ref.length!r} became {lo!r}")

    # (b) the Geometry method on the same line (CRS handling is covered by the segmented-kinds slice)
    g = Geometry(sg.LineString(coords), None)
    out = g.segmented(res)
    judge_segmented(fail, f"segmented:edge-{cls}", f"line({msg}, None).segmented", ref, out.geom, res)
    if out.crs is not None:
        fail("segmented:crs-changed", f"line({msg}, None).segmented: crs None became {out.crs}")
    r.outcome = f"{cls}:{'needed' if needed else 'not-needed'}:{'added' if added else 'unchanged'}"
    r.nontrivial = needed > 0
    return r


# ---------------------------------------------------------------------------------------------
# slice 2: every geometry kind through Geometry.segmented
# ---------------------------------------------------------------------------------------------
def gen_seg_kinds(tier):
    offs, ress = (OFFS_T, RES_T) if tier == "thorough" else (OFFS_Q, RES_Q)

    def gen():
        for kind in KINDS:
            for sym in (range(8) if tier == "thorough" or kind in BASE_KINDS else (0, 1)):
                for s in SCALES:
                    for off in offs:
                        for res in ress:
                            for crs in (None, "EPSG:3577"):
                                yield (kind, sym, s, off, res, crs)

    return gen


def run_seg_kinds(case):
    kind, sym, s, (ox, oy), res0, crs = case
    res = res0 * s
    shp = make_shape(kind, sym, s * ox, s * oy, s)
    g = Geometry(shp, crs)
    r = R()
    fail = Once(r)
    msg = f"{kind} {shp.wkt} crs={crs} .segmented({res!r})"
    if kind == "empty":
        # empty geometries are not among the kinds the property's quantifier lists: observed, not judged
        try:
            out = g.segmented(res)
        except IndexError:
            r.outcome = "empty:observed-IndexError"
            r.nontrivial = False
            r.counts = {"observation:empty-polygon-segmented-raises-IndexError": 1}
            return r
        r.outcome = "empty:returns"
        r.nontrivial = False
        if not out.is_empty or out.geom_type != "Polygon":
            fail("segmented:empty:not-empty", f"{msg} -> {out}")
        return r
    out = g.segmented(res)
    needed, added = judge_segmented(fail, f"segmented:{kind}", msg, shp, out.geom, res)
    if str(out.crs) != str(g.crs):
        fail("segmented:crs-changed", f"{msg}: crs {g.crs} became {out.crs}")
    r.outcome = f"{kind}:{'needed' if needed else 'not-needed'}:{'added' if added else 'unchanged'}"
    r.nontrivial = needed > 0
    return r


# ---------------------------------------------------------------------------------------------
# CRS material built by the check itself
# ---------------------------------------------------------------------------------------------
_PP = {}
_TR = {}
_WKT = {}


def pp(code):
    if code not in _PP:
        _PP[code] = pyproj.CRS.from_epsg(code)
    return _PP[code]


def wkt(code):
    if code not in _WKT:
        _WKT[code] = pyproj.CRS.from_epsg(code).to_wkt()
    return _WKT[code]


def fresh_tr(src, dst, always_xy=True):
    """The oracle: built here from this module's own pyproj objects, never via odc.geo (kept in this
    module's own per-process table, keyed by the full request)."""
    k = (src, dst, always_xy)
    if k not in _TR:
        _TR[k] = pyproj.Transformer.from_crs(pp(src), pp(dst), always_xy=always_xy)
    return _TR[k]


def project(src, dst, coords):
    if not coords:
        return []
    xs = np.asarray([c[0] for c in coords], dtype="float64")
    ys = np.asarray([c[1] for c in coords], dtype="float64")
    X, Y = fresh_tr(src, dst).transform(xs, ys)
    return list(zip(X.tolist(), Y.tolist()))


def spell(code, how):
    if how == "EPSG":
        return f"EPSG:{code}"
    if how == "epsg":
        return f"epsg:{code}"
    if how == "int":
        return code
    if how == "wkt":
        return wkt(code)
    if how == "pyproj":
        return pyproj.CRS.from_epsg(code)
    if how == "crs":
        return CRS(f"EPSG:{code}")
    if how == "json":
        return pyproj.CRS.from_epsg(code).to_json_dict()
    if how == "EpSg":
        return f"EpSg:{code}"
    raise AssertionError(how)


# directed pairs with placements (origin x, origin y, step) in the SOURCE CRS; the template grid is
# mapped to origin + step * D4(grid), i.e. inside origin +- 5*step; every placement is verified by
# _selfcheck() to lie inside the areas of use of both CRSs (with |lon| <= 170).
DPAIRS = (
    (4326, 3857, ((0.0, 0.0, 10.0), (100.0, -40.0, 1.0), (-120.0, 60.0, 0.5))),
    (3857, 4326, ((0.0, 0.0, 1e6), (1e7, -5e6, 1e4), (-1.3e7, 8e6, 5e4))),
    (4326, 3577, ((132.0, -25.0, 2.0), (147.0, -35.0, 0.25), (118.0, -20.0, 0.5))),
    (3577, 4326, ((0.0, -3e6, 2e5), (1.2e6, -2.5e6, 1e4), (-1.2e6, -3.5e6, 3e4))),
    (3857, 32633, ((1670000.0, 4866000.0, 3e4), (1.5e6, 8.4e6, 1e4), (1.7e6, 1e6, 2e4))),
    (32633, 3857, ((5e5, 5e6, 2e4), (3e5, 1e6, 1e4), (5e5, 8e6, 1e4))),
    (4326, 32755, ((147.0, -30.0, 0.5), (147.0, -60.0, 0.25), (145.0, -5.0, 0.125))),
    (32755, 4326, ((5e5, 6e6, 2e4), (4e5, 8e6, 1e4), (5e5, 3e6, 1e4))),
)
_checked = False


def _selfcheck():
    """Harness precondition: every placement keeps all vertices inside both valid areas."""
    global _checked  # pylint: disable=global-statement
    if _checked:
        return
    for src, dst, places in DPAIRS:
        for ox, oy, step in places:
            cc = [(ox + i * step, oy + j * step) for i in (-5, 0, 5) for j in (-5, 0, 5)]
            ll = cc if src == 4326 else project(src, 4326, cc)
            for code in (src, dst, ALT):
                w, s_, e, n = pp(code).area_of_use.bounds
                w, e = max(w, -170.0), min(e, 170.0)
                for lon, lat in ll:
                    if not (w <= lon <= e and s_ <= lat <= n):
                        raise AssertionError(
                            f"harness: placement {(ox, oy, step)} of {src}->{dst} leaves the valid area of "
                            f"EPSG:{code}: lon/lat {(lon, lat)}")
            out = project(src, dst, cc)
            if not all(math.isfinite(v) for p in out for v in p):
                raise AssertionError(f"harness: non-finite oracle projection for {src}->{dst} {(ox, oy, step)}")
    for src, dst, res, places in LPAIRS:
        for x0, y0 in places:
            for di in range(len(LDIRS)):
                cc = list(long_shape("polygon-hole", max(LK), di, x0, y0, res).exterior.coords)
                ll = cc if src == 4326 else project(src, 4326, cc)
                for code in (src, dst):
                    w, s_, e, n = pp(code).area_of_use.bounds
                    w, e = max(w, -170.0), min(e, 170.0)
                    for lon, lat in ll:
                        if not (w <= lon <= e and s_ <= lat <= n):
                            raise AssertionError(
                                f"harness: long shape {src}->{dst} from {(x0, y0)} dir {di} leaves the valid "
                                f"area of EPSG:{code}: lon/lat {(lon, lat)}")
    _checked = True


def _vclose(a, b):
    """a vertex against what pyproj gives for it: bit-equal or within a few ulps (non-finite: same kind)"""
    for u, v in zip(a, b):
        if u == v or (math.isnan(u) and math.isnan(v)):
            continue
        if not (math.isfinite(u) and math.isfinite(v)) or abs(u - v) > ULPS * ulp(max(abs(v), 1.0)):
            return False
    return True


def _close(a, b, rel):
    t = rel * (max(abs(b[0]), abs(b[1])) + 1.0)
    return abs(a[0] - b[0]) <= t and abs(a[1] - b[1]) <= t


# ---------------------------------------------------------------------------------------------
# slice 3: to_crs between different CRSs
# ---------------------------------------------------------------------------------------------
TRES = (None, INF, 0.3, 1.0, 2.5, 10.0)  # finite values are multiples of the placement step
FLAGS = ("plain", "check_and_fix", "wrapdateline", "wrapdateline+check_and_fix")


def flag_kw(flag):
    kw = {}
    if "check_and_fix" in flag:
        kw["check_and_fix"] = True
    if "wrapdateline" in flag:
        kw["wrapdateline"] = True
    return kw


def gen_to_crs(tier):
    thorough = tier == "thorough"
    syms = range(8) if thorough else (0, 1)
    spells = ("EPSG", "int", "wkt", "crs") if thorough else ("EPSG", "wkt", "crs")
    nplaces = 3 if thorough else 2

    def gen():
        for di, (_, dst, places) in enumerate(DPAIRS):
            for pi in range(nplaces):
                for kind in KINDS:
                    extra = not thorough and kind not in BASE_KINDS
                    for sym in ((0,) if extra else syms):
                        # flags are full dimensions: well inside the valid areas and away from lon 180 every
                        # clause must hold whatever check_and_fix / wrapdateline say (wrapdateline only acts
                        # for a geographic destination)
                        flags = FLAGS if dst == 4326 else FLAGS[:2]
                        for sp in (("EPSG",) if extra else spells):
                            for res in TRES + (("auto",) if kind in AREA_KINDS else ()):
                                for flag in flags:
                                    yield (di, pi, kind, sym, res, sp, flag)

    return gen


def run_to_crs(case):
    di, pi, kind, sym, res0, sp, flag = case
    _selfcheck()
    src, dst, places = DPAIRS[di]
    ox, oy, step = places[pi]
    shp = make_shape(kind, sym, ox, oy, step)
    g = Geometry(shp, f"EPSG:{src}")
    res = res0 if res0 is None or res0 == "auto" else res0 * step
    kw = flag_kw(flag)
    resclass = "none" if res is None else ("auto" if res == "auto" else ("inf" if res == INF else "finite"))
    r = R(outcome=f"{kind}:{resclass}:{flag}", nontrivial=kind != "empty")
    fail = Once(r)
    call = f"Geometry({shp.wkt}, EPSG:{src}).to_crs({sp}:{dst}, resolution={res!r}{', ' + flag if flag != 'plain' else ''})"
    tag = f"to_crs:{kind}" if flag == "plain" else f"to_crs:{kind}:{flag}"

    if kind == "empty" and resclass in ("finite",):
        # see run_seg_kinds: observed, not judged
        try:
            out = g.to_crs(spell(dst, sp), res, **kw)
        except IndexError:
            r.outcome = "empty:finite:observed-IndexError"
            r.counts = {"observation:empty-polygon-to_crs-resolution-raises-IndexError": 1}
            return r
    else:
        out = g.to_crs(spell(dst, sp), res, **kw)

    if not isinstance(out, Geometry):
        fail(f"{tag}:not-a-geometry", f"{call} -> {out!r}")
        return r
    if out.crs is None or out.crs.proj.to_epsg() != dst:
        fail("to_crs:result-crs", f"{call}: result crs is {out.crs}, expected EPSG:{dst}")
    if out.geom.geom_type != shp.geom_type:
        fail(f"{tag}:type-changed", f"{call}: {shp.geom_type} became {out.geom.geom_type}")
        return r
    pin, pout = paths(shp), paths(out.geom)
    if signature(pin) != signature(pout):
        fail(f"{tag}:structure-changed", f"{call}: parts/rings {signature(pin)} became {signature(pout)}")
        return r

    densifying = resclass in ("finite", "auto")
    n_exact = n_tol = needed = added = 0
    for (pid, pkind, cin), (_, _, cout) in zip(pin, pout):
        want = project(src, dst, cin)
        if not densifying or pkind in ("pt", "empty"):
            if len(cout) != len(cin):
                fail(f"{tag}:vertex-count-changed",
                     f"{call} path {pid}: {len(cin)} vertices became {len(cout)}")
                continue
            for k, (a, b) in enumerate(zip(cout, want)):
                if a == b:
                    n_exact += 1
                elif _vclose(a, b):
                    n_tol += 1
                else:
                    fail(f"{tag}:vertex-differs-from-pyproj",
                         f"{call} path {pid} vertex #{k} {cin[k]}: got {a}, a fresh "
                         f"Transformer.from_crs(EPSG:{src}, EPSG:{dst}, always_xy=True) gives {b}")
                    break
            continue
        # densify-then-project: originals (projected) must be found in order ...
        idx, nfound = match_originals(cin, cout, lambda k, p, o, want=want: _vclose(o, want[k]))
        if idx is None:
            fail(f"{tag}:original-vertex-lost",
                 f"{call} path {pid}: projected original vertex #{nfound} {cin[nfound]} -> {want[nfound]} "
                 f"not found (in order) in the output ({len(cout)} vertices)")
            continue
        # ... and everything else, mapped back with the inverse oracle, must lie on the source edges
        back = project(dst, src, cout)
        for i, j in enumerate(idx):
            back[j] = cin[i]
        lim = INF if res == "auto" else res  # "auto" names no resolution: only the other clauses apply
        n, a = judge_dense_path(fail, tag, call, pid, cin, back, idx, lim, REL_RT)
        needed += n
        added += a
    r.counts = {"vertices-bit-exact": n_exact, "vertices-within-tolerance": n_tol}
    if densifying:
        r.outcome += f":{'needed' if needed else 'not-needed'}:{'added' if added else 'unchanged'}"

    # there and back (plain projection only)
    if not densifying and not r.fails:
        back = out.to_crs(f"EPSG:{src}")
        pb = paths(back.geom)
        if back.geom.geom_type != shp.geom_type or signature(pb) != signature(pin):
            fail(f"{tag}:roundtrip-structure", f"{call} and back: structure changed")
        else:
            for (pid, _, cin), (_, _, cb) in zip(pin, pb):
                if len(cin) != len(cb) or not all(_close(b, a, REL_RT) for a, b in zip(cin, cb)):
                    fail(f"{tag}:roundtrip-coordinates",
                         f"{call} and back to EPSG:{src} path {pid}: {cin} became {cb}")
                    break
        if back.crs is None or back.crs.proj.to_epsg() != src:
            fail("to_crs:result-crs", f"{call} and back: crs {back.crs}")
    return r


# ---------------------------------------------------------------------------------------------
# slice 4: already in the target CRS (any spelling on either side) -> the input, unchanged
# ---------------------------------------------------------------------------------------------
SPELLS = ("EPSG", "epsg", "int", "wkt", "pyproj", "crs", "json", "EpSg")
SAME_PLACES = {4326: (0.0, 0.0, 10.0), 3857: (0.0, 0.0, 1e6), 32633: (5e5, 5e6, 2e4)}
SAME_RES = (None, 0.5, INF, "auto")


def gen_same(tier):
    syms = (0, 1, 4) if tier == "thorough" else (0,)

    def gen():
        for code in SAME_PLACES:
            for gs in SPELLS:
                for ts in SPELLS:
                    for kind in KINDS:
                        for sym in syms:
                            for res in SAME_RES:
                                # never ask for "auto" on a zero-area geometry (resolution 0, see report)
                                if res == "auto" and kind not in AREA_KINDS:
                                    continue
                                yield (code, gs, ts, kind, sym, res)

    return gen


def run_same(case):
    code, gs, ts, kind, sym, res0 = case
    ox, oy, step = SAME_PLACES[code]
    shp = make_shape(kind, sym, ox, oy, step)
    g = Geometry(shp, spell(code, gs))
    res = res0 if res0 is None or res0 == "auto" else res0 * step
    call = f"Geometry({kind}, {gs}:{code}).to_crs({ts}:{code}, resolution={res!r})"
    r = R(nontrivial=kind != "empty")
    if kind == "empty" and res0 == 0.5:
        try:
            out = g.to_crs(spell(code, ts), res)
        except IndexError:  # only reachable if the short-circuit is missing; empty is observed only
            r.outcome = "empty:observed-IndexError"
            return r
    else:
        out = g.to_crs(spell(code, ts), res)
    if out is g:
        r.outcome = "same-object"
        return r
    r.outcome = "equal-copy"
    if not isinstance(out, Geometry) or out.geom.geom_type != shp.geom_type \
            or [(a, b, c) for a, b, c in paths(out.geom)] != [(a, b, c) for a, b, c in paths(shp)]:
        r.outcome = "changed"
        r.fail(f"to_crs:same-crs:geometry-changed:res-{'none' if res is None else 'given'}",
               f"{call}: geometry is already in the target CRS but came back as "
               f"{out.wkt[:300] if isinstance(out, Geometry) else out!r} instead of {shp.wkt[:300]}")
    elif out.crs is None or out.crs.proj.to_epsg() != code:
        r.fail("to_crs:same-crs:crs-changed", f"{call}: crs {out.crs}")
    return r


# ---------------------------------------------------------------------------------------------
# slice 5: no CRS -> refused
# ---------------------------------------------------------------------------------------------
def gen_nocrs(tier):
    def gen():
        for kind in KINDS:
            for code in (4326, 3857, 32633):
                for ts in SPELLS:
                    for res in (None, 0.5, INF):
                        yield (kind, code, ts, res)

    return gen


def run_nocrs(case):
    kind, code, ts, res = case
    shp = make_shape(kind, 0, 0.0, 0.0, 1.0)
    g = Geometry(shp, None)
    call = f"Geometry({kind}, None).to_crs({ts}:{code}, resolution={res!r})"
    r = R()
    try:
        out = g.to_crs(spell(code, ts), res)
    except ValueError as e:
        r.outcome = f"refused:{type(e).__name__}"
        return r
    except IndexError:
        if kind == "empty":  # densify of an empty ring reached before the refusal: still not a result
            r.outcome = "empty:observed-IndexError"
            return r
        raise
    r.outcome = "returned"
    r.fail(f"to_crs:no-crs:not-refused:{kind}", f"{call} returned {out!r} instead of raising ValueError")
    return r


# ---------------------------------------------------------------------------------------------
# slice 6: the transformer the library hands out (what to_crs maps vertices through), all call forms
# ---------------------------------------------------------------------------------------------
FORMS = ("scalar", "list", "array", "array-with-nan")
ALT = 3395  # a third CRS (World Mercator) valid at every placement: second destination from the same source
ORDERS = ((0, 1, 2), (1, 2, 0), (2, 0, 1))


def gen_transformer(tier):
    def gen():
        for di in range(len(DPAIRS)):
            for pi in range(3):
                for form in FORMS:
                    for sp in ("EPSG", "wkt"):
                        for order in range(len(ORDERS)):
                            yield (di, pi, form, sp, order)

    return gen


def _call_form(f, pts, form):
    """-> (list of (x, y), indices that carry NaN on input)"""
    if form == "scalar":
        return [f(x, y) for x, y in pts], ()
    if form == "list":
        X, Y = f([p[0] for p in pts], [p[1] for p in pts])
        return list(zip(X, Y)), ()
    xs = np.asarray([p[0] for p in pts], dtype="float64")
    ys = np.asarray([p[1] for p in pts], dtype="float64")
    nan_at = ()
    if form == "array-with-nan":
        # NaN is outside the property's domain: those two positions are observed, the others judged
        nan_at = (3, 7)
        xs[3] = np.nan
        ys[7] = np.nan
    X, Y = f(xs, ys)
    return list(zip(X.tolist(), Y.tolist())), nan_at


def run_transformer(case):
    di, pi, form, sp, order = case
    _selfcheck()
    src, dst, places = DPAIRS[di]
    ox, oy, step = places[pi]
    # three requests from the same source CRS, in the order of the case: two axis conventions for the
    # pair's destination and a second destination - whatever the library caches must keep them apart
    requests = [(dst, True), (dst, False), (ALT, True)]
    r = R(outcome=f"{form}")
    n_exact = n_tol = 0
    for ri in ORDERS[order]:
        to, axy = requests[ri]
        pts = [(ox + step * gx, oy + step * gy) for gx in GRID for gy in GRID]
        if not axy and src == 4326:
            pts = [(y, x) for x, y in pts]  # authority order of EPSG:4326 is lat, lon
        oracle = fresh_tr(src, to, axy)
        want = [oracle.transform(x, y) for x, y in pts]
        f = CRS(spell(src, sp)).transformer_to_crs(CRS(spell(to, sp)), always_xy=axy)
        got, nan_at = _call_form(f, pts, form)
        cls = f"{form}:{'xy' if axy else 'authority-order'}"
        call = f"CRS({sp}:{src}).transformer_to_crs(CRS({sp}:{to}), always_xy={axy}) [{form}]"
        if nan_at:
            both = all(math.isnan(got[i][0]) and math.isnan(got[i][1]) for i in nan_at)
            if not both:
                r.outcome = f"{form}:nan-not-in-both"
        if len(got) != len(want):
            r.fail("transformer:length", f"{call}: {len(want)} points in, {len(got)} out")
            continue
        for i, (a, b) in enumerate(zip(got, want)):
            if i in nan_at:
                continue
            a = (float(a[0]), float(a[1]))
            if a == b:
                n_exact += 1
            elif _vclose(a, b):
                n_tol += 1
            else:
                r.fail(f"transformer:{cls}:differs-from-pyproj",
                       f"{call} (requests from this source in this case: "
                       f"{[requests[k] for k in ORDERS[order]]}): point {pts[i]} -> {a}, a fresh "
                       f"Transformer.from_crs(EPSG:{src}, EPSG:{to}, always_xy={axy}) gives {b}")
                break
    r.counts = {"vertices-bit-exact": n_exact, "vertices-within-tolerance": n_tol}
    return r


# ---------------------------------------------------------------------------------------------
# to_crs after heavy CRS churn: many distinct projections created and dropped in one process
def gen_churn(tier):
    ns = (40, 150, 420) if tier == "quick" else (40, 150, 420, 1300)

    def g():
        for n in ns:
            for dst in (4326, 3857):
                for keep in (False, True):
                    yield (n, dst, keep)

    return g


def run_churn(case):
    """n geometries, each in its own custom projection (laea with its own centre), converted one after another to
    `dst`; handles are dropped as we go (keep=False) or kept alive (keep=True). Every vertex must equal what a
    transformer built here from the same proj string gives, however many CRS objects came and went before."""
    import gc  # pylint: disable=import-outside-toplevel

    from odc.geo import geom as G  # pylint: disable=import-outside-toplevel

    n, dst, keep = case
    r = R(outcome=f"churn:n{n}:keep{int(keep)}")
    held = []
    bad = 0
    first = None
    ring = [(-20000.0, -10000.0), (30000.0, -15000.0), (25000.0, 22000.0), (-18000.0, 17000.0), (-20000.0, -10000.0)]
    for i in range(n):
        lat0, lon0 = -60 + (i % 25) * 5, -170 + (i // 25) * 6.5 + (i % 7) * 0.25
        spec = f"+proj=laea +lat_0={lat0} +lon_0={lon0:.2f} +x_0=0 +y_0=0 +datum=WGS84 +units=m +no_defs"
        g = G.polygon(ring, spec)
        out = g.to_crs(f"EPSG:{dst}")
        tr = pyproj.Transformer.from_crs(pyproj.CRS.from_user_input(spec), pp(dst), always_xy=True)
        want = [tr.transform(x, y) for x, y in ring]
        got = list(out.exterior.coords)
        if any(abs(a - c) > 1e-6 * (abs(c) + 1) or abs(b - d) > 1e-6 * (abs(d) + 1) for (a, b), (c, d) in zip(got, want)):
            bad += 1
            if first is None:
                first = (i, spec, got[0], want[0])
        if keep:
            held.append((g, out))
        else:
            del g, out
            if i % 16 == 0:
                gc.collect()
    if bad:
        r.fail("to_crs:vertex-differs-from-pyproj:after-crs-churn",
               f"{case}: {bad} of {n} geometries, each in its own laea projection and converted in sequence, were not mapped "
               f"the way pyproj maps them; first at #{first[0]} ({first[1]}): got {first[2]}, pyproj {first[3]}")
    return r


# ---------------------------------------------------------------------------------------------
# slice: edges with MANY steps and non-round length / resolution ratios (judged with numpy)
# ---------------------------------------------------------------------------------------------
LK = (3.5, 110.25, 999.5, 1000.5, 1024.25, 2000.0, 2047.3, 5000.7)  # steps = edge length / resolution
_S2 = math.sqrt(0.5)
LDIRS = (("h", 1.0, 0.0), ("v", 0.0, 1.0), ("diag", _S2, _S2), ("oblique", 0.6, 0.8),
         ("h", -1.0, 0.0), ("v", 0.0, -1.0), ("diag", -_S2, _S2), ("oblique", -0.8, 0.6))
LAPIS = ("densify", "segmented:line", "segmented:polygon-hole")
LPOS = ((0.0, 0.0), (-3000.5, 12345.25))  # start point in units of the resolution
LRES = (1.0, 0.3)
# to_crs(resolution=): (src, dst, resolution in source units, start points); the longest edge is 5000.7 steps
LPAIRS = (
    (3857, 4326, 200.0, ((0.0, 0.0), (1e6, -2e6))),
    (4326, 3857, 0.005, ((0.0, 0.0), (100.0, -40.0))),
    (3577, 4326, 200.0, ((0.0, -3e6), (3e5, -2.8e6))),
)
LSHAPES = ("line", "polygon-hole")


def long_shape(shape, k, di, x0, y0, res):
    """A path / polygon whose long edges run along direction LDIRS[di] and are k (and k/2) steps long."""
    _, ux, uy = LDIRS[di]
    nx, ny = -uy, ux
    L = k * res
    W = 40.5 * res

    def P(a, b):
        return (x0 + a * ux + b * nx, y0 + a * uy + b * ny)

    if shape == "line":
        return sg.LineString([P(0, 0), P(L, 0), P(L, 2.5 * res)])
    outer = [P(0, 0), P(L, 0), P(L, W), P(0, W), P(0, 0)]
    hole = [P(L / 4, W / 3), P(L / 4, 2 * W / 3), P(3 * L / 4, 2 * W / 3), P(3 * L / 4, W / 3), P(L / 4, W / 3)]
    return sg.Polygon(outer, [hole])


def gen_long(tier):
    def gen():
        for api in LAPIS:
            for k in LK:
                for di in range(len(LDIRS)):
                    slim = tier != "thorough" and api == "segmented:polygon-hole"
                    for pos in (LPOS[:1] if slim else LPOS):
                        for res in (LRES[:1] if slim else LRES):
                            yield (api, k, di, pos, res, None, "plain")
        for shape in LSHAPES:
            for li, (_, dst, _, places) in enumerate(LPAIRS):
                for flag in (("plain", "wrapdateline") if dst == 4326 else ("plain",)):
                    for k in LK:
                        for di in range(4 if tier != "thorough" else len(LDIRS)):
                            for pi in range(len(places)):
                                yield ("to_crs:" + shape, k, di, pi, None, li, flag)

    return gen


def project_np(src, dst, arr):
    X, Y = fresh_tr(src, dst).transform(arr[:, 0].copy(), arr[:, 1].copy())
    return np.column_stack([X, Y])


def match_np(targets, out, tols):
    """match_originals on an (m, 2) array: target k matches a row when both coordinates are within tols[k]
    (0 = exact); first and last anchored, greedy first match in between."""
    n, m = len(targets), len(out)

    def hit(k, lo, hi):
        seg = out[lo:hi]
        ok = (np.abs(seg[:, 0] - targets[k][0]) <= tols[k]) & (np.abs(seg[:, 1] - targets[k][1]) <= tols[k])
        nz = np.flatnonzero(ok)
        return lo + int(nz[0]) if nz.size else None

    if m == 0 or hit(0, 0, 1) is None:
        return None, 0
    if n == 1:
        return ([0], 1) if m == 1 else (None, 0)
    idx = [0]
    j = 1
    for k in range(1, n - 1):
        h = hit(k, j, m - 1)
        if h is None:
            return None, k
        idx.append(h)
        j = h + 1
    if j > m - 1 or hit(n - 1, m - 1, m) is None:
        return None, n - 1
    idx.append(m - 1)
    return idx, n


def judge_dense_path_np(fail, tag, ctxmsg, pid, src, out_src, idx, res, rel):
    """Same clauses as judge_dense_path; out_src is an (m, 2) array in the source CRS."""
    needed = added = 0
    lim = res * (1 + REL)
    for i in range(len(src) - 1):
        p, q = src[i], src[i + 1]
        mid = out_src[idx[i] + 1: idx[i + 1]]
        L = math.hypot(q[0] - p[0], q[1] - p[1])
        M = max(abs(p[0]), abs(p[1]), abs(q[0]), abs(q[1]))
        tol = edge_tol(rel, M, L)
        if L > lim:
            needed += 1
        if mid.shape[0] == 0:
            if L > lim:
                fail(f"{tag}:edge-left-undensified",
                     f"{ctxmsg} path {pid}: edge {p}->{q} has length {L!r} > resolution {res!r} "
                     f"but no vertex was added on it")
            continue
        added += mid.shape[0]
        seg = np.vstack([np.asarray([p]), mid, np.asarray([q])])
        d = np.hypot(np.diff(seg[:, 0]), np.diff(seg[:, 1]))
        w = int(np.argmax(d))
        if not d[w] <= lim + 2 * tol:
            fail(f"{tag}:piece-longer-than-resolution",
                 f"{ctxmsg} path {pid}: edge {p}->{q} (length {L!r} = {L / res!r} steps) was split into {len(d)} "
                 f"pieces; piece #{w} {tuple(seg[w].tolist())}->{tuple(seg[w + 1].tolist())} is {float(d[w])!r} long "
                 f"> resolution {res!r}")
        vx, vy = q[0] - p[0], q[1] - p[1]
        wx, wy = mid[:, 0] - p[0], mid[:, 1] - p[1]
        vv = vx * vx + vy * vy
        t = np.clip((wx * vx + wy * vy) / vv, 0.0, 1.0) if vv > 0 else np.zeros(len(wx))
        dist = np.hypot(wx - t * vx, wy - t * vy)
        b = int(np.argmax(dist))
        if not dist[b] <= tol:
            fail(f"{tag}:added-vertex-off-edge",
                 f"{ctxmsg} path {pid}: added vertex {tuple(mid[b].tolist())} is {float(dist[b])!r} away from its "
                 f"edge {p}->{q} (tol {tol!r})")
    return needed, added


def judge_long(fail, tag, msg, shp_in, shp_out, res, src=None, dst=None):
    """All clauses on (possibly very long) outputs. src/dst given: shp_out is in dst, judged back in src."""
    if shp_out.geom_type != shp_in.geom_type:
        fail(f"{tag}:type-changed", f"{msg}: {shp_in.geom_type} became {shp_out.geom_type}")
        return 0, 0
    pin, pout = paths(shp_in), paths(shp_out)
    if signature(pin) != signature(pout):
        fail(f"{tag}:structure-changed", f"{msg}: parts/rings {signature(pin)} became {signature(pout)}")
        return 0, 0
    needed = added = 0
    for (pid, _, cin), (_, _, cout) in zip(pin, pout):
        out = np.asarray(cout, dtype="float64").reshape(-1, 2)
        if src is None:
            idx, nfound = match_np(cin, out, [0.0] * len(cin))
            rel = REL
        else:
            want = project(src, dst, cin)
            idx, nfound = match_np(want, out, [ULPS * ulp(max(abs(w[0]), abs(w[1]), 1.0)) for w in want])
            rel = REL_RT
        if idx is None:
            fail(f"{tag}:original-vertex-lost",
                 f"{msg} path {pid}: original vertex #{nfound} {cin[nfound]} not found (in order) in the output "
                 f"({len(cout)} vertices)")
            continue
        if src is not None:
            out = project_np(dst, src, out)
            for i, j in enumerate(idx):
                out[j] = cin[i]
        n, a = judge_dense_path_np(fail, tag, msg, pid, cin, out, idx, res, rel)
        needed += n
        added += a
    if src is None:
        M = maxabs(pin)
        li, lo = shp_in.length, shp_out.length
        if not abs(lo - li) <= len_tol(li, M, nverts(pout)):
            fail(f"{tag}:length-changed", f"{msg}: length {li!r} became {lo!r}")
        ai, ao = shp_in.area, shp_out.area
        if not abs(ao - ai) <= area_tol(ai, li, M):
            fail(f"{tag}:area-changed", f"{msg}: area {ai!r} became {ao!r}")
    return needed, added


def run_long(case):
    api, k, di, pos, res, li, flag = case
    dcls = LDIRS[di][0]
    r = R()
    fail = Once(r)
    if api.startswith("to_crs:"):
        _selfcheck()
        shape = api.split(":", 1)[1]
        src, dst, res, places = LPAIRS[li]
        x0, y0 = places[pos]
        shp = long_shape(shape, k, di, x0, y0, res)
        g = Geometry(shp, f"EPSG:{src}")
        out = g.to_crs(f"EPSG:{dst}", res, **flag_kw(flag))
        tag = f"to_crs:long-edge-{dcls}" if flag == "plain" else f"to_crs:long-edge-{dcls}:{flag}"
        msg = (f"{shape} with edges of {k} and {k / 2} steps along {LDIRS[di]} from {(x0, y0)}: "
               f"Geometry({shp.wkt[:200]}, EPSG:{src}).to_crs(EPSG:{dst}, resolution={res!r}"
               f"{', ' + flag if flag != 'plain' else ''})")
        if out.crs is None or out.crs.proj.to_epsg() != dst:
            fail("to_crs:result-crs", f"{msg}: result crs is {out.crs}")
        needed, added = judge_long(fail, tag, msg, shp, out.geom, res, src, dst)
    else:
        x0, y0 = pos[0] * res, pos[1] * res
        shape = "line" if api == "densify" else api.split(":", 1)[1]
        shp = long_shape(shape, k, di, x0, y0, res)
        if api == "densify":
            coords = list(shp.coords)
            got = densify(list(coords), res)
            tag = f"densify:long-edge-{dcls}"
            msg = f"densify({coords}, {res!r}) [first edge: {k} steps along {LDIRS[di]}]"
            out_shp = sg.LineString([tuple(c) for c in got]) if len(got) > 1 else sg.LineString()
        else:
            tag = f"segmented:long-edge-{dcls}"
            msg = (f"{shape} with edges of {k} and {k / 2} steps along {LDIRS[di]}: "
                   f"Geometry({shp.wkt[:200]}).segmented({res!r})")
            o = Geometry(shp, "EPSG:3857").segmented(res)
            if o.crs is None or str(o.crs) != "EPSG:3857":
                fail("segmented:crs-changed", f"{msg}: crs became {o.crs}")
            out_shp = o.geom
        needed, added = judge_long(fail, tag, msg, shp, out_shp, res)
    r.outcome = (f"long:{api}:{flag}:{'over-1000-steps' if k > 1000 else 'up-to-1000-steps'}:"
                 f"{'added' if added else 'unchanged'}")
    r.nontrivial = needed > 0
    r.counts = {"long-edge-vertices-added": int(added)}
    return r


# ---------------------------------------------------------------------------------------------
# slice: definitions that carry a STALE embedded id, x history of reads on the CRS objects
# ---------------------------------------------------------------------------------------------
# (name, EPSG code the text names in its trailing ID[...], (text, replacement) or None for the unedited control)
STALE_DEFS = (
    ("3577-lon140", 3577, ('PARAMETER["Longitude of false origin",132,', 'PARAMETER["Longitude of false origin",140,')),
    ("32633-fe0", 32633, ('PARAMETER["False easting",500000,', 'PARAMETER["False easting",0,')),
    # (EPSG:3857 is no candidate: PROJ ignores edited parameters of its pseudo-Mercator method)
    ("3395-fe1e6", 3395, ('PARAMETER["False easting",0,', 'PARAMETER["False easting",1000000,')),
    ("3577-unedited", 3577, None),
    ("32633-unedited", 32633, None),
    ("3395-unedited", 3395, None),
)
# placements (origin x, origin y, step) of the geometry by CRS family and by which CRS it is given in
STALE_PLACES = {
    (3577, "edited"): (0.0, -3e6, 1e5), (3577, "named"): (0.0, -3e6, 1e5), (3577, "lonlat"): (135.0, -25.0, 1.0),
    (32633, "edited"): (0.0, 5e6, 2e4), (32633, "named"): (5e5, 5e6, 2e4), (32633, "lonlat"): (15.0, 45.0, 0.2),
    (3395, "edited"): (0.0, 0.0, 1e5), (3395, "named"): (0.0, 0.0, 1e5), (3395, "lonlat"): (0.0, 0.0, 1.0),
}
STALE_HIST = ("cold", "src.epsg", "dst.epsg", "both.epsg", "eq-first", "to_epsg+eq", "str-repr-hash-authority")
STALE_KINDS = ("point", "line", "polygon-hole", "multipolygon-1", "collection")
_STALE = {}


def stale_text(di):
    """-> (definition text, pyproj CRS built from that text by the check, genuinely the named CRS?)"""
    if di not in _STALE:
        name, code, edit = STALE_DEFS[di]
        text = pyproj.CRS.from_epsg(code).to_wkt()
        if edit is not None:
            if text.count(edit[0]) != 1:
                raise AssertionError(f"harness: cannot edit the WKT of EPSG:{code} for {name}")
            text = text.replace(edit[0], edit[1])
        if not text.rstrip().endswith(f'ID["EPSG",{code}]]'):
            raise AssertionError(f"harness: {name} does not end with the id of EPSG:{code}")
        P = pyproj.CRS.from_wkt(text)
        same = P == pp(code)
        if same != (edit is None) or (edit is not None and P.to_epsg() is not None):
            raise AssertionError(f"harness: {name}: pyproj says same={same}, to_epsg={P.to_epsg()}")
        _STALE[di] = (text, P, same)
    return _STALE[di]


def gen_stale(tier):
    def gen():
        for di in range(len(STALE_DEFS)):
            for partner in ("named", "lonlat"):
                for direction in ("from-edited", "to-edited"):
                    for hist in STALE_HIST:
                        for tform in ("crs-object", "text"):
                            for kind in (STALE_KINDS if tier == "thorough" else STALE_KINDS[:3]):
                                for res0 in (None, 2.5):
                                    yield (di, partner, direction, hist, tform, kind, res0)

    return gen


def _stale_tr(di, partner_code, direction):
    k = ("stale", di, partner_code, direction)
    if k not in _TR:
        _, P, _ = stale_text(di)
        a, b = (P, pp(partner_code)) if direction == "from-edited" else (pp(partner_code), P)
        _TR[k] = (pyproj.Transformer.from_crs(a, b, always_xy=True),
                  pyproj.Transformer.from_crs(b, a, always_xy=True))
    return _TR[k]


def _tr_coords(tr, coords):
    if not coords:
        return []
    X, Y = tr.transform(np.asarray([c[0] for c in coords], dtype="float64"),
                        np.asarray([c[1] for c in coords], dtype="float64"))
    return list(zip(X.tolist(), Y.tolist()))


def _judge_between(r, fail, tag, call, g, out, shp, fwd, inv, P_dst, res, same_crs):
    """Judge g.to_crs(...) -> out between two DEFINITIONS (fwd / inv: the check's transformers between them)."""
    pin = paths(shp)
    if same_crs:
        r.outcome += ":same-object" if out is g else ":copy"
        if out is not g and [tuple(x) for x in paths(out.geom)] != [tuple(x) for x in pin]:
            fail(f"{tag}:same-crs:geometry-changed", f"{call}: source and target are the same CRS but the geometry changed")
        return r
    # the two definitions are different CRSs: the input must not come back
    pout = paths(out.geom)
    if out.geom.geom_type != shp.geom_type or signature(pin) != signature(pout):
        fail(f"{tag}:structure-changed", f"{call}: {signature(pin)} became {signature(pout)}")
        return r
    lbl_ok = out.crs is not None and out.crs.proj == P_dst
    if not lbl_ok:
        fail(f"{tag}:result-crs", f"{call}: result is labelled {str(out.crs)[:80]}, not with the target definition")
    n_exact = n_tol = 0
    for (pid, pkind, cin), (_, _, cout) in zip(pin, pout):
        want = _tr_coords(fwd, cin)
        if res is None or pkind in ("pt", "empty"):
            if len(cout) != len(cin):
                fail(f"{tag}:vertex-count-changed", f"{call} path {pid}: {len(cin)} vertices became {len(cout)}")
                continue
            for k, (a, b) in enumerate(zip(cout, want)):
                if a == b:
                    n_exact += 1
                elif _vclose(a, b):
                    n_tol += 1
                else:
                    unchanged = out is g or a == cin[k]
                    fail(f"{tag}:{'input-returned-unprojected' if unchanged else 'vertex-differs-from-pyproj'}",
                         f"{call} path {pid} vertex #{k} {cin[k]}: got {a}; pyproj.Transformer.from_crs between the "
                         f"two definitions (CRS objects built by the check from the same texts, always_xy=True) "
                         f"gives {b}" + (" - the input came back untouched" if unchanged else ""))
                    break
            continue
        idx, nfound = match_originals(cin, cout, lambda k, p, o, want=want: _vclose(o, want[k]))
        if idx is None:
            unchanged = out is g or list(cout) == list(cin)
            fail(f"{tag}:{'input-returned-unprojected' if unchanged else 'original-vertex-lost'}",
                 f"{call} path {pid}: projected original vertex #{nfound} {cin[nfound]} -> {want[nfound]} not found "
                 f"(in order) in the output ({len(cout)} vertices, first {cout[0]})")
            continue
        back = _tr_coords(inv, cout)
        for i, j in enumerate(idx):
            back[j] = cin[i]
        judge_dense_path(fail, tag, call, pid, cin, back, idx, res, REL_RT)
    r.counts = {"vertices-bit-exact": n_exact, "vertices-within-tolerance": n_tol}
    return r


def run_stale(case):
    di, partner, direction, hist, tform, kind, res0 = case
    name, code, edit = STALE_DEFS[di]
    text, P_def, genuinely_named = stale_text(di)
    pcode = code if partner == "named" else 4326
    fwd, inv = _stale_tr(di, pcode, direction)
    if direction == "from-edited":
        src_spec, dst_spec, P_dst = text, f"EPSG:{pcode}", pp(pcode)
        place = STALE_PLACES[(code, "edited")]
    else:
        src_spec, dst_spec, P_dst = f"EPSG:{pcode}", text, P_def
        place = STALE_PLACES[(code, partner)]
    ox, oy, step = place
    shp = make_shape(kind, 0, ox, oy, step)
    res = None if res0 is None else res0 * step
    same_crs = genuinely_named and partner == "named"

    src_crs = CRS(src_spec)
    g = Geometry(shp, src_crs)
    dst_crs = CRS(dst_spec)
    # history: reads on the CRS objects before the conversion; none of them may change what to_crs does
    s_ = g.crs
    if hist in ("src.epsg", "both.epsg"):
        _ = s_.epsg
    if hist in ("dst.epsg", "both.epsg"):
        _ = dst_crs.epsg
    if hist == "eq-first":
        _ = (s_ == dst_crs, dst_crs == s_, s_ != dst_crs)
    if hist == "to_epsg+eq":
        _ = (s_.to_epsg(), dst_crs.to_epsg(), s_ == dst_crs, dst_crs == s_)
    if hist == "str-repr-hash-authority":
        _ = [(str(c), repr(c), hash(c), c.authority) for c in (s_, dst_crs)]
    target = dst_crs if tform == "crs-object" else dst_spec

    r = R(outcome=f"{'same-crs' if same_crs else ('stale-id' if edit else 'unedited')}:{partner}:{direction}:{hist}")
    fail = Once(r)
    tag = f"to_crs:{'stale-id' if edit else 'unedited-wkt'}:{partner}:{hist}"
    call = (f"[{name}: WKT of EPSG:{code}{' with ' + edit[1] if edit else ''}, trailing ID kept] {direction}, partner "
            f"EPSG:{pcode}, history {hist}, target given as {tform}: Geometry({shp.wkt[:160]}, <source>)"
            f".to_crs(<target>, resolution={res!r})")
    out = g.to_crs(target, res)
    return _judge_between(r, fail, tag, call, g, out, shp, fwd, inv, P_dst, res, same_crs)


# ---------------------------------------------------------------------------------------------
# slice: both sides of the "already fine enough" test, tiny and huge geometries, > 65536 pieces,
#        and the caller's coordinate list (must not be modified; a second call must answer the same)
# ---------------------------------------------------------------------------------------------
# steps = edge length / resolution: around 1 (densify or not) and around 2, 3 (one or two added vertices)
BFACT = (0.9, 0.999, 1 - 1e-12, 1.0, 1 + 1e-12, 1.001, 1.1, 1.999, 2.001, 2.9, 3.1)
BSCALES = (4.5e-6, 1.0, 30.0, 1e7)  # edge length
BORIG = ((0.0, 0.0), (150.25, -33.5), (500000.5, 6200000.0), (-1e7, 1e7))
BHUGE = (65535.5, 65536.5, 70000.3)  # pieces per edge beyond 16 bits


def gen_boundary(tier):
    def gen():
        for api in ("densify", "segmented"):
            for f in BFACT:
                for di in range(len(LDIRS)):
                    for oi in range(len(BORIG)):
                        for L in BSCALES:
                            yield (api, f, di, oi, L)
        for api in ("densify", "segmented"):
            for f in (BHUGE if tier == "thorough" else BHUGE[1:2]):
                for di in range(len(LDIRS) if tier == "thorough" else 4):
                    for oi in ((0, 2) if tier == "thorough" else (0,)):
                        yield (api, f, di, oi, 1.0)

    return gen


def run_boundary(case):
    api, f, di, oi, L0 = case
    dcls, ux, uy = LDIRS[di]
    x0, y0 = BORIG[oi]
    # a second, short edge after the long one so that the end vertex of the judged edge is an inner vertex
    coords = [(x0, y0), (x0 + L0 * ux, y0 + L0 * uy), (x0 + L0 * ux - 0.25 * L0 * uy, y0 + L0 * uy + 0.25 * L0 * ux)]
    L = math.hypot(coords[1][0] - coords[0][0], coords[1][1] - coords[0][1])
    res = L / f
    shp = sg.LineString(coords)
    r = R()
    fail = Once(r)
    cls = "over-65535-pieces" if f > 60000 else ("steps-near-1" if f < 1.5 else "steps-2-3")
    size = "tiny" if L0 < 1e-3 else ("huge" if L0 > 1e6 else "normal")
    if api == "densify":
        given = list(coords)
        before = [tuple(c) for c in given]
        got = densify(given, res)
        tag = f"densify:{cls}:{size}:edge-{dcls}"
        msg = f"densify({coords}, {res!r}) [edge length / resolution = {f!r}]"
        if given != before or len(given) != len(before):
            fail("densify:input-list-modified", f"{msg}: the caller's list is now {given[:6]}{'...' if len(given) > 6 else ''}")
        if got is given:
            fail("densify:returns-input-list", f"{msg}: the returned list is the caller's list object")
        again = densify(list(coords), res) if f < 60000 else got
        if [tuple(c) for c in again] != [tuple(c) for c in got]:
            fail("densify:second-call-differs", f"{msg}: a second call returned {len(again)} vertices, the first {len(got)}")
        out_shp = sg.LineString([tuple(c) for c in got]) if len(got) > 1 else sg.LineString()
    else:
        tag = f"segmented:{cls}:{size}:edge-{dcls}"
        msg = f"Geometry({shp.wkt}).segmented({res!r}) [edge length / resolution = {f!r}]"
        g = Geometry(shp, "EPSG:32755")
        o = g.segmented(res)
        if list(g.geom.coords) != coords:
            fail("segmented:input-geometry-modified", f"{msg}: the input geometry changed")
        out_shp = o.geom
    needed, added = judge_long(fail, tag, msg, shp, out_shp, res)
    r.outcome = f"{api}:{cls}:{size}:{'needed' if needed else 'not-needed'}:{'added' if added else 'unchanged'}"
    r.nontrivial = True
    return r


# ---------------------------------------------------------------------------------------------
# slice: resolutions that are not a positive float - every call in a child process with a HARD time limit
# ---------------------------------------------------------------------------------------------
GUARD_LIMIT_S = 2.0


def run_guarded(fn, limit=GUARD_LIMIT_S):
    """Run fn() in a forked child. -> ("ok", value) | ("raised", (type name, text, raised inside the tree,
    file:function)) | ("timeout", None) | ("died", exit status). A call that does not return is killed."""
    rfd, wfd = os.pipe()
    pid = os.fork()
    if pid == 0:  # child
        code = 0
        try:
            os.close(rfd)
            try:
                res = ("ok", fn())
            except BaseException as e:  # pylint: disable=broad-except
                res = ("raised", (type(e).__name__, str(e)[:300], core.in_repo_tb(e), core.raise_site(e)))
            with os.fdopen(wfd, "wb") as f:
                pickle.dump(res, f, protocol=4)
        except BaseException:  # pylint: disable=broad-except
            code = 3
        finally:
            os._exit(code)  # pylint: disable=protected-access
    os.close(wfd)
    chunks = []
    deadline = time.monotonic() + limit
    timed_out = False
    with os.fdopen(rfd, "rb") as f:
        while True:
            left = deadline - time.monotonic()
            if left <= 0:
                timed_out = True
                break
            ready, _, _ = select.select([f], [], [], left)
            if not ready:
                timed_out = True
                break
            b = os.read(f.fileno(), 1 << 20)
            if not b:
                break
            chunks.append(b)
    if timed_out:
        os.kill(pid, signal.SIGKILL)
        os.waitpid(pid, 0)
        return ("timeout", None)
    _, status = os.waitpid(pid, 0)
    if status != 0 or not chunks:
        return ("died", status)
    return pickle.loads(b"".join(chunks))


# resolution spellings: name -> callable(step) giving the value handed to the library
def _res_value(name, step):
    return {
        "int-0": lambda: 0, "float-0.0": lambda: 0.0, "float--0.0": lambda: -0.0, "float--1": lambda: -1.0 * step,
        "-inf": lambda: -INF, "nan": lambda: math.nan, "auto": lambda: "auto",
        "np.float64": lambda: np.float64(2.5 * step), "np.float32": lambda: np.float32(2.5 * step),
        "np.int64": lambda: np.int64(3 * step), "int": lambda: int(3 * step), "np.float64-0": lambda: np.float64(0.0),
        "np.array-0d": lambda: np.asarray(2.5 * step),
    }[name]()


ODD_NONPOS = ("int-0", "float-0.0", "float--0.0", "float--1", "-inf", "nan", "np.float64-0")
ODD_ENC = ("np.float64", "np.float32", "np.int64", "int", "np.array-0d")
_T["polygon-flat"] = ("Polygon", [[(-2, 0), (0, 0), (5, 0), (-2, 0)]])  # zero area
_T["line-zero"] = ("LineString", [(1, 2), (1, 2)])  # zero length
ODD_KINDS = ("line", "polygon-hole", "collection", "multipoint")
ODD_AUTO_KINDS = ("point", "multipoint", "line", "ring", "multiline", "polygon-flat", "line-zero")  # area == 0
ODD_STEP = 4.0  # dyadic, so that the float32 / integer spellings name exactly the same number


def gen_odd(tier):
    def gen():
        for api in ("densify", "segmented", "to_crs"):
            for kind in (("line",) if api == "densify" else ODD_KINDS):
                for rn in ODD_NONPOS + ODD_ENC:
                    yield (api, kind, rn)
        for kind in ODD_AUTO_KINDS:
            # (check_and_fix may legitimately rebuild an INVALID input such as the zero-area polygon)
            for flag in ("plain", "wrapdateline" if kind == "polygon-flat" else "wrapdateline+check_and_fix"):
                yield ("to_crs", kind, "auto:" + flag)

    return gen


def run_odd(case):
    api, kind, rn = case
    flag = "plain"
    if rn.startswith("auto:"):
        rn, flag = rn.split(":")
    # 3857 -> 4326 around the origin: well inside both valid areas
    src, dst = 3857, 4326
    step = ODD_STEP * (1.0 if api != "to_crs" else 65536.0)
    shp = make_shape(kind, 0, 0.0, 0.0, step)
    res = _res_value(rn, step)
    cls = ("non-positive" if rn in ODD_NONPOS else ("auto-on-zero-area" if rn == "auto" else "number-type"))
    r = R(outcome=f"{api}:{cls}:{rn}")
    fail = Once(r)
    tag = f"{api}:resolution-{rn}" if cls == "number-type" else f"{api}:resolution-{cls}"
    rtxt = f"{res!r} ({type(res).__name__})"

    if api == "densify":
        coords = list(shp.coords)
        call = f"densify({coords}, {rtxt})"

        def fn():
            return ("LineString", sg.LineString([tuple(map(float, c)) for c in densify(list(coords), res)]), None)
    elif api == "segmented":
        call = f"Geometry({shp.wkt}, EPSG:{src}).segmented({rtxt})"

        def fn():
            o = Geometry(shp, f"EPSG:{src}").segmented(res)
            return (o.geom.geom_type, o.geom, str(o.crs))
    else:
        call = f"Geometry({shp.wkt}, EPSG:{src}).to_crs(EPSG:{dst}, resolution={rtxt}{', ' + flag if flag != 'plain' else ''})"

        def fn():
            o = Geometry(shp, f"EPSG:{src}").to_crs(f"EPSG:{dst}", res, **flag_kw(flag))
            return (o.geom.geom_type, o.geom, str(o.crs))

    status, val = run_guarded(fn)
    if status == "timeout":
        r.outcome += ":does-not-terminate"
        fail(f"{tag}:does-not-terminate",
             f"{call} did not return within {GUARD_LIMIT_S} s (killed); a resolution that cannot be honoured has to be "
             f"refused or ignored, and 'auto' on a geometry without area has to terminate")
        return r
    if status == "died":
        r.outcome += ":process-died"
        fail(f"{tag}:{kind}:process-died", f"{call}: the process running the call died (status {val})")
        return r
    if status == "raised":
        tname, text, in_repo, site = val
        r.outcome += f":raised-{tname}"
        if cls == "non-positive" and tname in ("ValueError",):
            return r  # refused: fine
        fail(f"{tag}:{kind}:raised-{tname}", f"{call} raised {tname}: {text} (at {site})")
        return r
    gtype, out, crs_s = val  # the geometry travels pickled (keeps LinearRing, which WKB cannot express)
    r.outcome += ":returned"
    if gtype != shp.geom_type or out.geom_type != gtype:
        fail(f"{tag}:{kind}:type-changed", f"{call}: {shp.geom_type} became {gtype}")
        return r
    if api == "to_crs":
        if crs_s != f"EPSG:{dst}":
            fail("to_crs:result-crs", f"{call}: labelled {crs_s}")
        eff = None
        if cls == "number-type":
            eff = float(res)
        if cls == "auto-on-zero-area" and shp.length > 0:
            eff = shp.length / 100  # ~100 points along the length (maintainers' contract for zero-area 'auto')
        # non-positive / nan / auto: no resolution to honour; structure, original vertices, on-edge still hold
        judge_long(fail, tag + ":" + kind, call, shp, out, INF if eff is None else eff, src, dst)
    else:
        if api == "segmented" and crs_s != f"EPSG:{src}":
            fail("segmented:crs-changed", f"{call}: labelled {crs_s}")
        eff = float(res) if cls == "number-type" else INF
        judge_long(fail, tag + ":" + kind, call, shp, out, eff)
    return r


# ---------------------------------------------------------------------------------------------
# slice: the same coordinates in other encodings (differential against plain float tuples)
# ---------------------------------------------------------------------------------------------
ENCODINGS = ("float", "int", "list", "np.float32", "np.float64", "np.int32", "negzero", "xyz-geojson", "ndarray")
ENC_KINDS = ("point", "multipoint", "line", "polygon-hole", "multipolygon")
# integers below 2**24 (exact in every encoding); the last one has squared edge lengths beyond 2**31
ENC_PLACES = ((0, 0, 1), (1000, -2000, 16), (0, 0, 16384))
ENC_APIS = ("densify", "segmented", "to_crs", "to_crs-resolution")


def _enc_pt(p, enc):
    x, y = p
    if enc == "int":
        return (int(x), int(y))
    if enc == "list":
        return [float(x), float(y)]
    if enc == "np.float32":
        return (np.float32(x), np.float32(y))
    if enc == "np.float64":
        return (np.float64(x), np.float64(y))
    if enc == "np.int32":
        return (np.int32(x), np.int32(y))
    if enc == "negzero":
        return (-0.0 if x == 0 else float(x), -0.0 if y == 0 else float(y))
    if enc == "xyz-geojson":
        return (float(x), float(y), 7.0)
    return (float(x), float(y))


def _enc_tree(t, f, enc):
    """template -> nested coordinate lists in the encoding (the shape the library constructors take)"""
    typ, data = t
    P = lambda q: _enc_pt(f(*q), enc)  # noqa: E731
    if typ == "Point":
        return P(data)
    if typ in ("MultiPoint", "LineString"):
        return [P(q) for q in data]
    if typ == "Polygon":
        return [[P(q) for q in ring] for ring in data]
    if typ == "MultiPolygon":
        return [[[P(q) for q in ring] for ring in poly] for poly in data]
    raise AssertionError(typ)


def _enc_geometry(kind, place, enc, crs):
    from odc.geo import geom as G  # pylint: disable=import-outside-toplevel

    ox, oy, step = place
    tree = _enc_tree(_T[kind], placer(0, ox, oy, step), enc)
    if kind == "point":
        if enc == "xyz-geojson":
            return Geometry({"type": "Point", "coordinates": tree}, crs)
        return G.point(tree[0], tree[1], crs)
    if kind == "multipoint":
        return G.multipoint(tree, crs)
    if kind == "line":
        return G.line(tree, crs)
    if kind == "polygon-hole":
        return G.polygon(tree[0], crs, *tree[1:])
    return G.multipolygon(tree, crs)


def _snap(coords):
    """value AND type snapshot of a caller's coordinate list (or array)"""
    if isinstance(coords, np.ndarray):
        return ("ndarray", str(coords.dtype), coords.shape, coords.tobytes())
    return [(type(c).__name__, tuple((type(v).__name__, float(v)) for v in c)) for c in coords]


def gen_enc(tier):
    def gen():
        for api in ENC_APIS:
            for kind in (("line",) if api == "densify" else ENC_KINDS):
                for pi in range(len(ENC_PLACES)):
                    for enc in ENCODINGS:
                        if enc == "ndarray" and api != "densify":
                            continue  # an array is a coordinate list for densify() only
                        if enc == "xyz-geojson" and api == "densify":
                            continue  # z is dropped by the Geometry constructor (documented); densify() is 2-D
                        yield (api, kind, pi, enc)

    return gen


def run_enc(case):
    api, kind, pi, enc = case
    place = ENC_PLACES[pi]
    ox, oy, step = place
    res = 2.5 * step
    shp = make_shape(kind, 0, float(ox), float(oy), float(step))  # reference shape, float64
    r = R(outcome=f"{api}:{enc}")
    fail = Once(r)
    tag = f"{api}:coordinates-as-{enc}:{kind}"
    if api == "densify":
        base = list(shp.coords)
        given = np.asarray(base, dtype="float64") if enc == "ndarray" else [_enc_pt(p, enc) for p in base]
        snapshot = _snap(given)
        got = [tuple(map(float, c[:2])) for c in densify(given, res)]
        ref = [tuple(map(float, c)) for c in densify([tuple(c) for c in base], res)]
        call = f"densify(<{base} as {enc}>, {res!r})"
        if _snap(given) != snapshot:
            fail("densify:input-list-modified", f"{call}: the caller's coordinates changed (values or types): "
                 f"{str(_snap(given))[:200]} was {str(snapshot)[:200]}")
        if got != ref:
            fail(f"{tag}:differs-from-float-tuples", f"{call} -> {got[:8]}..., with float tuples {ref[:8]}...")
        judge_long(fail, tag, call, shp, sg.LineString(got), res)
        return r
    src, dst = 3857, 4326
    try:
        g = _enc_geometry(kind, place, enc, f"EPSG:{src}")
    except ValueError as e:
        if enc in ("np.float32", "np.int32") and "invalid coordinate" in str(e):
            # construction (not C07's subject) refuses numpy scalars that are not Python floats: observed
            r.outcome = f"{api}:{enc}:construction-refused-ValueError"
            r.nontrivial = False
            r.counts = {"observation:constructor-refuses-" + enc + "-coordinates": 1}
            return r
        raise
    g0 = _enc_geometry(kind, place, "float", f"EPSG:{src}")
    call = f"<{kind} {shp.wkt[:120]} built from {enc} coordinates>"
    if [tuple(x) for x in paths(g.geom)] != [tuple(x) for x in paths(shp)]:
        fail(f"construct:coordinates-as-{enc}:{kind}:differs-from-float-tuples",
             f"{call}: constructed {g.wkt[:200]}")
        return r
    if api == "segmented":
        o, o0 = g.segmented(res), g0.segmented(res)
        call += f".segmented({res!r})"
        judge_long(fail, tag, call, shp, o.geom, res)
    elif api == "to_crs":
        o, o0 = g.to_crs(f"EPSG:{dst}"), g0.to_crs(f"EPSG:{dst}")
        call += f".to_crs(EPSG:{dst})"
        for (pid, _, cin), (_, _, cout) in zip(paths(shp), paths(o.geom)):
            want = project(src, dst, cin)
            if len(cout) != len(want) or not all(_vclose(a, b) for a, b in zip(cout, want)):
                fail(f"{tag}:vertex-differs-from-pyproj", f"{call} path {pid}: {cout[:4]} vs pyproj {want[:4]}")
    else:
        o, o0 = g.to_crs(f"EPSG:{dst}", res), g0.to_crs(f"EPSG:{dst}", res)
        call += f".to_crs(EPSG:{dst}, resolution={res!r})"
        judge_long(fail, tag, call, shp, o.geom, res, src, dst)
    if o.geom.geom_type != o0.geom.geom_type or [tuple(x) for x in paths(o.geom)] != [tuple(x) for x in paths(o0.geom)]:
        fail(f"{tag}:differs-from-float-tuples", f"{call} -> {o.wkt[:200]}, from float tuples {o0.wkt[:200]}")
    return r


# ---------------------------------------------------------------------------------------------
# slice: definitions that are the same / nearly the same / look the same, with and without an EPSG code
# ---------------------------------------------------------------------------------------------
_LAEA = "+proj=laea +lat_0=52 +lon_0=10 +x_0=4321000 +y_0=3210000 +ellps=GRS80 +units=m +no_defs"
NS_DEFS = (
    ("EPSG:4326", "EPSG:4326", "lonlat"), ("EPSG:4258", "EPSG:4258", "lonlat"),
    ("EPSG:32633", "EPSG:32633", "utm"), ("EPSG:25833", "EPSG:25833", "utm"),
    ("EPSG:3035", "EPSG:3035", "laea"),
    ("laea-proj4", _LAEA, "laea"),  # no EPSG code
    ("laea-wkt", None, "laea"),  # the WKT text of the previous one
    ("laea-proj4-shifted", _LAEA.replace("+lon_0=10 ", "+lon_0=10.000001 "), "laea"),
)
NS_PLACES = {"lonlat": (15.0, 50.0, 0.1), "utm": (5e5, 5.54e6, 1e4), "laea": (4.68e6, 3.0e6, 1e4)}  # all near 15E 50N
NS_HIST = ("cold", "both.epsg", "twice", "other-target-first")
_NS = {}


def ns_def(i):
    if i not in _NS:
        name, text, fam = NS_DEFS[i]
        if text is None:
            text = pyproj.CRS.from_user_input(_LAEA).to_wkt()
        P = pyproj.CRS.from_user_input(text)
        _NS[i] = (name, text, P, fam, P.to_epsg())  # to_epsg: pyproj's own identification (slow: once per process)
    return _NS[i]


def gen_near(tier):
    def gen():
        for a in range(len(NS_DEFS)):
            for b in range(len(NS_DEFS)):
                for hist in NS_HIST:
                    for tform in ("crs-object", "text"):
                        for kind in ("point", "polygon-hole"):
                            for res0 in (None, 2.5):
                                yield (a, b, hist, tform, kind, res0)

    return gen


def run_near(case):
    a, b, hist, tform, kind, res0 = case
    na, ta, Pa, fam, ea = ns_def(a)
    nb, tb, Pb, _, eb = ns_def(b)
    k = ("near", a, b)
    if k not in _TR:
        _TR[k] = (pyproj.Transformer.from_crs(Pa, Pb, always_xy=True), pyproj.Transformer.from_crs(Pb, Pa, always_xy=True))
    fwd, inv = _TR[k]
    ox, oy, step = NS_PLACES[fam]
    shp = make_shape(kind, 0, ox, oy, step)
    res = None if res0 is None else res0 * step
    kv = ("near-verdict", a, b)
    if kv not in _TR:
        _TR[kv] = Pa == Pb  # pyproj's verdict on the two definitions
    same = _TR[kv]
    g = Geometry(shp, CRS(ta))
    dst_crs = CRS(tb)
    if hist == "both.epsg":
        _ = (g.crs.epsg, dst_crs.epsg)
    target = dst_crs if tform == "crs-object" else tb
    r = R(outcome=f"{'same' if same else 'different'}:{hist}")
    fail = Once(r)
    tag = f"to_crs:{'same' if same else 'different'}-definitions:{hist}"
    call = (f"Geometry({shp.wkt[:120]}, {na}).to_crs({nb} as {tform}, resolution={res!r}) after history {hist} "
            f"[pyproj: definitions {'equal' if same else 'differ'}]")
    if hist == "other-target-first":
        _ = g.to_crs("EPSG:3857", res)
    first = None
    if hist == "twice":
        first = g.to_crs(target, res)
    out = g.to_crs(target, res)
    if first is not None and [tuple(x) for x in paths(first.geom)] != [tuple(x) for x in paths(out.geom)]:
        fail(f"{tag}:second-call-differs", f"{call}: the second identical call gave another geometry")
    if not same and ea is not None and ea == eb:
        # pyproj does not call the definitions equal but identifies both as the same EPSG code (a PROJ string
        # without datum against the EPSG entry; the transformation between them is the identity). The library
        # treats them as one CRS once .epsg has been read and as two before: both answers are accepted here.
        r.outcome = f"pyproj-identifies-both-as-EPSG:{ea}:{hist}:{'returned-input' if out is g else 'projected'}"
        if out is g:
            ident = all(_tr_coords(fwd, c) == list(c) for _, _, c in paths(shp))
            if not ident:
                fail(f"{tag}:input-returned-unprojected", f"{call}: input returned although the transformation is not the identity")
            return r
    return _judge_between(r, fail, tag, call, g, out, shp, fwd, inv, Pb, res, same)


# ---------------------------------------------------------------------------------------------
# slice: every flag combination on geometries that cross the antimeridian / have vertices the target
#        projection cannot map (documented behaviour of wrapdateline= and check_and_fix=)
# ---------------------------------------------------------------------------------------------
CROSS = (
    # name, source EPSG (smooth across lon 180), box crossing lon 180 (x0, y0, x1, y1), resolution
    ("pdc-mercator", 3832, (3.0e6, -2.0e6, 3.7e6, -1.5e6), 25000.0),
    ("utm60-north", 32660, (618300.0, 1642500.0, 849000.0, 1876800.0), 25000.0),
    ("utm60-south-of-equator", 32660, (618300.0, -1876800.0, 849000.0, -1642500.0), 25000.0),
)
CROSS_KINDS = ("polygon", "polygon-hole", "line", "multipoint")
ORTHO = "+proj=ortho +lat_0=40 +lon_0=0 +datum=WGS84 +units=m +no_defs"  # far hemisphere does not project
UNMAPPABLE = {
    "line": sg.LineString([(-30.0, 10.0), (20.0, 50.0), (170.0, -40.0), (175.0, -45.0), (60.0, 60.0), (100.0, -80.0)]),
    "multipoint": sg.MultiPoint([(170.0, -40.0), (5.0, 40.0), (-170.0, -50.0), (30.0, 30.0)]),
    "point": sg.Point(175.0, -45.0),
    "line-one-left": sg.LineString([(170.0, -40.0), (20.0, 50.0), (175.0, -45.0)]),
    "line-two-left": sg.LineString([(170.0, -40.0), (20.0, 50.0), (175.0, -45.0), (30.0, 30.0)]),
}


def cross_shape(kind, box):
    x0, y0, x1, y1 = box

    def P(u, v):
        return (x0 + u * (x1 - x0), y0 + v * (y1 - y0))

    if kind == "polygon":
        return sg.Polygon([P(0, 0), P(0, 1), P(1, 1), P(1, 0), P(0, 0)])
    if kind == "polygon-hole":
        return sg.Polygon([P(0, 0), P(0, 1), P(1, 1), P(1, 0), P(0, 0)],
                          [[P(0.3, 0.3), P(0.95, 0.3), P(0.95, 0.7), P(0.3, 0.7), P(0.3, 0.3)]])
    if kind == "line":
        return sg.LineString([P(0, 0.1), P(1, 0.9), P(0.95, 0.2), P(0.05, 0.5)])
    return sg.MultiPoint([P(0.1, 0.1), P(0.9, 0.9), P(0.5, 0.5), P(0.99, 0.2)])


def gen_cross(tier):
    def gen():
        for si in range(len(CROSS)):
            for kind in CROSS_KINDS:
                for flag in FLAGS:
                    for res0 in (None, "finite"):
                        yield ("crossing", si, kind, flag, res0)
        for kind in UNMAPPABLE:
            for flag in FLAGS:
                yield ("unmappable", 0, kind, flag, None)

    return gen


def _rings_of(part):
    if part.geom_type == "Polygon":
        return [list(part.exterior.coords)] + [list(h.coords) for h in part.interiors]
    return [list(part.coords)]


def run_cross(case):
    import shapely  # pylint: disable=import-outside-toplevel

    what, si, kind, flag, res0 = case
    r = R(outcome=f"{what}:{kind}:{flag}:{'res' if res0 else 'nores'}")
    fail = Once(r)
    kw = flag_kw(flag)
    if what == "unmappable":
        shp = UNMAPPABLE[kind]
        P_dst = pyproj.CRS.from_user_input(ORTHO)
        k = ("ortho",)
        if k not in _TR:
            _TR[k] = pyproj.Transformer.from_crs(pp(4326), P_dst, always_xy=True)
        cin = [c for _, _, cc in paths(shp) for c in cc]
        want = _tr_coords(_TR[k], cin)
        fin = [w for w in want if all(math.isfinite(v) for v in w)]
        if len(fin) == len(want):
            raise AssertionError("harness: the unmappable shapes must have vertices the target cannot map")
        tag = f"to_crs:unmappable-vertices:{kind}:{flag}"
        call = f"Geometry({shp.wkt}, EPSG:4326).to_crs('{ORTHO}'{', ' + flag if flag != 'plain' else ''})"
        out = Geometry(shp, "EPSG:4326").to_crs(ORTHO, **kw)
        got = [c for _, _, cc in paths(out.geom) for c in cc]
        if "check_and_fix" in flag:
            # documented: vertices that did not project cleanly are removed (a line keeps at least 2 points or none)
            expect = fin
            if kind.startswith("line") and len(expect) < 2:
                expect = []
            if len(got) != len(expect) or not all(_vclose(a, b) for a, b in zip(got, expect)):
                fail(f"{tag}:not-the-mappable-vertices-in-order",
                     f"{call}: got {got}, the vertices pyproj can map are {expect} (all images: {want})")
        else:
            if out.geom.geom_type != shp.geom_type or len(got) != len(want) or \
                    not all(_vclose(a, b) for a, b in zip(got, want)):
                fail(f"{tag}:vertex-differs-from-pyproj", f"{call}: got {got}, pyproj gives {want}")
        return r

    name, src, box, resv = CROSS[si]
    res = resv if res0 else None
    shp = cross_shape(kind, box)
    g = Geometry(shp, f"EPSG:{src}")
    tag = f"to_crs:crossing:{kind}:{flag}"
    call = (f"[{name}] Geometry({shp.wkt[:200]}, EPSG:{src}).to_crs(EPSG:4326, resolution={res!r}"
            f"{', ' + flag if flag != 'plain' else ''})")
    out = g.to_crs("EPSG:4326", res, **kw)
    if out.crs is None or out.crs.proj.to_epsg() != 4326:
        fail("to_crs:result-crs", f"{call}: labelled {out.crs}")
    if flag == "check_and_fix" and kind.startswith("polygon"):
        # no cut: the projected ring jumps across the whole map and may be invalid, which check_and_fix is
        # documented to repair with buffer(0). Valid after plain projection => untouched; otherwise => valid, finite.
        plain = g.to_crs("EPSG:4326", res)
        if plain.geom.is_valid:
            r.outcome += ":valid-after-projection"
            if [tuple(x) for x in paths(plain.geom)] != [tuple(x) for x in paths(out.geom)]:
                fail(f"{tag}:valid-geometry-altered", f"{call}: valid after projection but check_and_fix changed it")
        else:
            r.outcome += ":invalid-after-projection"
            arr = np.asarray([c for _, _, cc in paths(out.geom) for c in cc], dtype="float64").reshape(-1, 2)
            if not out.geom.is_valid or not np.isfinite(arr).all():
                fail(f"{tag}:not-fixed", f"{call}: result is invalid or not finite: {out.wkt[:200]}")
        return r
    if "wrapdateline" not in flag or kind == "multipoint":
        # nothing to cut: plain faithful projection
        if res is None and nverts(paths(out.geom)) != nverts(paths(shp)):
            fail(f"{tag}:vertex-count-changed", f"{call}: {nverts(paths(shp))} vertices became {nverts(paths(out.geom))}")
        judge_long(fail, tag, call, shp, out.geom, INF if res is None else res, src, 4326)
        return r

    # wrapdateline=True on a geometry that crosses lon 180
    og = out.geom
    parts = list(og.geoms) if og.geom_type.startswith("Multi") or og.geom_type == "GeometryCollection" else [og]
    want_part = "Polygon" if kind.startswith("polygon") else "LineString"
    if not parts or any(p.geom_type != want_part or p.is_empty for p in parts):
        fail(f"{tag}:part-types", f"{call}: result {og.geom_type} of {[p.geom_type for p in parts]}")
        return r
    r.outcome += f":{len(parts)}-parts"
    inv = fresh_tr(4326, src)
    M = maxabs(paths(shp))
    tol = 25.0 + REL_RT * M  # clip_lon180 may move a vertex by 1e-4 deg (about 11 m) onto the meridian
    total = 0.0
    perim = 0.0
    allv = []
    for pi_, part in enumerate(parts):
        rings = _rings_of(part)
        arr = np.asarray([c for ring in rings for c in ring], dtype="float64")
        allv.append(arr)
        if not np.isfinite(arr).all() or np.abs(arr[:, 0]).max() > 180.0 or np.abs(arr[:, 1]).max() > 90.0:
            fail(f"{tag}:longitude-outside-180", f"{call}: part #{pi_} has coordinates outside [-180,180]x[-90,90] / non-finite")
            return r
        if arr[:, 0].max() - arr[:, 0].min() >= 180.0:
            fail(f"{tag}:part-spans-the-globe",
                 f"{call}: part #{pi_} of the result runs from lon {arr[:, 0].min()!r} to {arr[:, 0].max()!r} "
                 f"(result {og.geom_type}, area {og.area!r} deg^2)")
            return r
        back_rings = []
        for ring in rings:
            a = np.asarray(ring, dtype="float64")
            X, Y = inv.transform(a[:, 0].copy(), a[:, 1].copy())
            b = np.column_stack([X, Y])
            back_rings.append(b)
            d = shapely.distance(shp, shapely.points(b))
            w = int(np.argmax(d))
            if not d[w] <= tol:
                fail(f"{tag}:vertex-off-the-input",
                     f"{call}: output vertex {tuple(a[w].tolist())} maps back to {tuple(b[w].tolist())}, {float(d[w])!r} "
                     f"away from the input geometry")
            if res is not None:
                cut = np.abs(a[:, 0]) == 180.0
                el = np.hypot(np.diff(b[:, 0]), np.diff(b[:, 1]))
                el = np.where(cut[:-1] & cut[1:], 0.0, el)  # edges along the cut are not edges of the input
                w = int(np.argmax(el))
                if not el[w] <= res * (1 + REL) + 2 * tol:
                    fail(f"{tag}:piece-longer-than-resolution",
                         f"{call}: output edge {tuple(a[w].tolist())}->{tuple(a[w + 1].tolist())} is {float(el[w])!r} long "
                         f"in the source CRS > resolution {res!r}")
        if want_part == "Polygon":
            bp = sg.Polygon(back_rings[0], back_rings[1:])
            total += bp.area
            perim += bp.length
        else:
            total += sg.LineString(back_rings[0]).length
    if want_part == "Polygon":
        if not abs(total - shp.area) <= tol * (perim + shp.length):
            fail(f"{tag}:area-not-preserved",
                 f"{call}: the parts, mapped back, cover {total!r} m^2, the input {shp.area!r} m^2")
    else:
        if not abs(total - shp.length) <= tol * (2 * len(parts) + 2):
            fail(f"{tag}:length-not-preserved",
                 f"{call}: the parts, mapped back, are {total!r} m long, the input {shp.length!r} m")
    # every original vertex is still there
    V = np.vstack(allv)
    for _, _, cin in paths(shp):
        for c, w_ in zip(cin, project(src, 4326, cin)):
            dd = np.hypot(V[:, 0] - w_[0], V[:, 1] - w_[1]).min()
            if not dd <= 1.5e-4:
                fail(f"{tag}:original-vertex-lost", f"{call}: original vertex {c} -> {w_} is {float(dd)!r} deg from the nearest output vertex")
                break
    return r


def slices(tier):
    return [
        e1.Slice("to_crs-after-churn", gen_churn(tier), run_churn,
                 "n in {40,150,420[,1300]} geometries each in its own projection converted in sequence (handles dropped / kept)",
                 shards=16),
        e1.Slice("long-edges", gen_long(tier), run_long,
                 "edges of {3.5, 110.25, 999.5, 1000.5, 1024.25, 2000, 2047.3, 5000.7} steps x 8 directions x 2 start "
                 "points x 2 resolutions through densify(), line.segmented(), polygon-with-hole.segmented(); and "
                 "{line, polygon-with-hole} x 3 CRS pairs x {plain, wrapdateline (geographic destination)} x steps x "
                 "4 (thorough 8) directions x 2 start points through to_crs(resolution=)"),
        e1.Slice("odd-resolutions", gen_odd(tier), run_odd,
                 "resolution given as 0 / 0.0 / -0.0 / negative / -inf / nan / numpy zero, as numpy float64 / float32 / "
                 "int64 / 0-d array / int, and 'auto' on zero-area geometries x {densify, segmented, to_crs} x kinds; "
                 "every call in a child process killed after 2 s", shards=32),
        e1.Slice("encodings", gen_enc(tier), run_enc,
                 "coordinates as float / int / list / np.float32 / np.float64 / np.int32 / -0.0 / 3-D GeoJSON (z dropped) "
                 "/ ndarray through the library constructors x 5 kinds x 3 placements x {densify, segmented, to_crs, "
                 "to_crs(resolution)}: all clauses + identical to the float-tuple result"),
        e1.Slice("boundary-edges", gen_boundary(tier), run_boundary,
                 "edge length / resolution in {0.9, 0.999, 1-1e-12, 1, 1+1e-12, 1.001, 1.1, 1.999, 2.001, 2.9, 3.1} x 8 "
                 "directions x 4 origins x edge length {4.5e-6, 1, 30, 1e7}; {65535.5, 65536.5, 70000.3} pieces per "
                 "edge; densify() (caller's list untouched, second call identical) and line.segmented()"),
        e1.Slice("densify-edges", gen_edges(tier), run_edges,
                 "all ordered vertex pairs of {-2,-1,0,1,2,5}^2 (incl. zero-length) x scale x offset x resolution; "
                 "densify() and line.segmented(); thorough adds all two-edge paths on {-1,0,2}^2"),
        e1.Slice("segmented-kinds", gen_seg_kinds(tier), run_seg_kinds,
                 "21 kinds (incl. single-part multi-geometries, repeated consecutive vertices, rings of a polygon, nested collection) x 8 symmetries x scale x "
                 "offset x resolution x {no crs, crs}"),
        e1.Slice("to_crs", gen_to_crs(tier), run_to_crs,
                 "8 directed CRS pairs x placements inside both valid areas x kinds x symmetries x "
                 "resolution {None, inf, 4 finite, auto (area>0)} x target spelling x {check_and_fix} x {wrapdateline, "
                 "geographic destination}"),
        e1.Slice("to_crs-stale-id", gen_stale(tier), run_stale,
                 "6 definitions (WKT of EPSG 3577/32633/3395 with one projection parameter edited and the trailing "
                 "ID kept; unedited controls) x partner {the EPSG it names, 4326} x direction x 7 histories of reads on "
                 "the CRS objects (.epsg, to_epsg, ==, str/repr/hash/authority) x target as object/text x 5 kinds x "
                 "resolution {None, finite}; oracle transformer built from the definition texts"),
        e1.Slice("to_crs-near-same", gen_near(tier), run_near,
                 "all ordered pairs of 8 definitions valid near 15E 50N (4326, 4258, 32633, 25833, 3035, a LAEA "
                 "without EPSG code as PROJ string and as WKT, the same shifted by 1e-6 deg) x history {cold, .epsg "
                 "read, called twice, another target first} x target as object/text x {point, polygon-with-hole} x "
                 "resolution {None, finite}; unchanged only where pyproj calls the definitions equal"),
        e1.Slice("to_crs-crossing", gen_cross(tier), run_cross,
                 "polygon / polygon-with-hole / line / multipoint crossing lon 180 from EPSG:3832 and 32660 x 4 flag "
                 "combinations x resolution {None, 25 km}; lines / multipoints / points with vertices an orthographic "
                 "target cannot map x 4 flag combinations"),
        e1.Slice("to_crs-same", gen_same(tier), run_same,
                 "3 CRSs x 8 spellings (incl. PROJJSON dict, mixed case) of the geometry's CRS x 8 of the target x kinds x resolution"),
        e1.Slice("to_crs-nocrs", gen_nocrs(tier), run_nocrs,
                 "kinds x 3 targets x 8 spellings x resolution"),
        e1.Slice("transformer", gen_transformer(tier), run_transformer,
                 "CRS.transformer_to_crs: 8 directed pairs x 3 placements x call form x spelling x order of three "
                 "requests (destination xy / authority order, second destination), 36 grid points each, against "
                 "the check's own transformers"),
    ]


def main(ctx):
    _selfcheck()
    ctx.rule = (
        "complete Cartesian products (see slices); a densification case is non-trivial when at least one "
        "edge is longer than the resolution, a projection case when the geometry is not empty; "
        "distinct by (slice, case) hash"
    )
    ctx.bounds = {
        "edge_grid": list(GRID), "scales": list(SCALES),
        "offsets_in_scale_units": [list(o) for o in (OFFS_T if ctx.tier == "thorough" else OFFS_Q)],
        "resolutions_in_scale_units": [repr(x) for x in (RES_T if ctx.tier == "thorough" else RES_Q)],
        "kinds": list(KINDS), "symmetries": 8,
        "crs_pairs": [f"{a}->{b}" for a, b, _ in DPAIRS],
        "to_crs_resolutions_in_steps": [repr(x) for x in TRES] + ["auto"],
        "to_crs_flags": list(FLAGS),
        "stale_id_definitions": [d[0] for d in STALE_DEFS], "stale_id_histories": list(STALE_HIST),
        "long_edge_steps": list(LK), "long_edge_directions": [list(d) for d in LDIRS],
        "long_edge_crs_pairs": [f"{a}->{b} resolution {r}" for a, b, r, _ in LPAIRS],
        "tolerances": {"same-crs geometry": "1e-9*edge length + 16 ulp(|coord|)", "vertex vs pyproj": "bit-equal or 16 ulp",
                       "there-and-back / inverse-mapped": "1e-6*(|value|+...)", "cut at lon 180": "25 m + 1e-6*|value|"},
        "boundary_steps": [repr(x) for x in BFACT], "boundary_edge_lengths": list(BSCALES),
        "pieces_beyond_16_bits": list(BHUGE), "odd_resolutions": list(ODD_NONPOS + ODD_ENC) + ["auto on zero area"],
        "child_process_time_limit_s": GUARD_LIMIT_S, "coordinate_encodings": list(ENCODINGS),
        "near_same_definitions": [d[0] for d in NS_DEFS], "crossing_scenarios": [c[0] for c in CROSS],
    }
    ctx.assumptions = [
        "resolutions that are not a positive number (0, -0.0, negative, -inf, nan, numpy zero): the call has to "
        "terminate (child process, hard time limit) and either refuse with ValueError or return a geometry that "
        "keeps structure / original vertices / on-edge; numpy scalars, ints and 0-d arrays count as their float value",
        "resolution='auto': on geometries with positive area no maximum edge length is judged (no resolution is "
        "named); on zero-area geometries with positive length the maintainers' contract length/100 is judged",
        "check_and_fix on a geometry that is invalid after projection is judged by its documented contract only "
        "(valid, finite; mappable vertices of lines / points kept in order); wrapdateline on a geometry crossing "
        "lon 180: parts within [-180,180], none spanning 180 deg, vertices map back onto the input, areas / "
        "lengths add up, original vertices present, no non-cut edge longer than the resolution",
        "Geometry constructors refusing np.float32 / np.int32 coordinates (ValueError) is construction, not C07: observed",
        "a definition pyproj does not call equal to the target but identifies as the same EPSG code (datum-less "
        "PROJ string vs EPSG:3035): both 'input returned' and 'projected + relabelled' are accepted",
        "empty geometries are not among the kinds the property lists: Polygon().segmented(r) raising IndexError is "
        "counted as an observation (counters), not a violation; empty geometries are judged where no "
        "densification is requested",
        "same CRS: the same object or an exactly equal geometry with an equal CRS is accepted as 'the input unchanged'",
        "all vertices lie inside the areas of use of both CRSs with |lon| <= 170 (asserted by the harness)",
        "no multi-geometry with an EMPTY member is enumerated (shapely.segmentize crashes the process on this GEOS "
        "for such input; a regression routing densification through it would kill a worker)",
        "stale-id definitions: the harness asserts that pyproj itself sees the edited text as a different CRS "
        "(to_epsg() is None) - EPSG:3857 is unusable for this because PROJ ignores edited pseudo-Mercator parameters",
        "the oracle transformer is pyproj.Transformer.from_crs(pyproj.CRS.from_epsg(a), pyproj.CRS.from_epsg(b), "
        "always_xy=True) built by the check; PROJ_NETWORK=OFF",
    ]
    sl = slices(ctx.tier)
    if ctx.only:
        sl = [s for s in sl if any(s.name.startswith(o) for o in ctx.only)]
    e1.run_slices(ctx, sl)
    ctx.extra["counters"] = {k: int(v) for k, v in sorted(ctx.counters.items())}


def replay(slice_name, case, tier):
    return e1.replay(slices(tier), slice_name, case).fails
