"""C14 - a GridSpec tiles the plane without gaps or overlaps.

E1: complete enumeration of grid specifications (tile shape x resolution sign per axis x origin x
index direction per axis) x tile indices / query shapes, executed on the real GridSpec / Bin1D code and
judged by an exact-rational reference model of the documented layout (origin = bottom-left corner of
tile (0,0); index grows right/up unless flipped), by exact separating-axis tests for polygon queries,
by shapely + a fresh pyproj.Transformer for cross-CRS queries and by the slippy-map formula for web tiles.

Numerics: alphabet D (dyadic) => every comparison is exact (tolerance 0); alphabet R (30 m, 0.1 deg,
1/3, UTM-sized origins, 4.5e-6 and 1e5 pixels) => exact rationals of the float inputs with tolerance
16 ulp of the coordinate magnitudes involved + 1e-9 pixel (never a fraction of the coordinate).

Query semantics demanded (see ctx.assumptions): bounding-box query: overlap depth >= 1.0005e-8 in both
axes => tile MUST be returned; depth <= 0.9995e-8 (contact within 1e-8, touching, gap) => MUST NOT be
returned (constructed: 0, +-1e-9, f x 1e-8 for f in 0.9/0.999/1.001/1.1, +-1e-6, quarter tile). Polygon
queries: clear overlap (>= 5e-7) required, clear gap forbidden, exact touching on D forbidden, other
contacts open. Non-areal / multi-part / collection / empty / CRS-less geometries: slice query-geomtypes.
Further slices: argument encodings, call histories on one instance (differential vs a fresh one).
"""
from __future__ import annotations

import itertools
import math
from fractions import Fraction as Fr

from vf import e1
from vf.core import R

PROPERTY = "C14"
LEVEL = "exploration"

import pyproj  # noqa: E402
import shapely.geometry as sg  # noqa: E402

from odc.geo import geom, resxy_, xy_  # noqa: E402
from odc.geo.geom import BoundingBox  # noqa: E402
from odc.geo.gridspec import GridSpec  # noqa: E402

# ---------------------------------------------------------------------------------------------
# alphabets
# ---------------------------------------------------------------------------------------------
D_SHAPES = ((4, 4), (2, 8), (5, 3))  # (ny, nx)
D_RES = ((0.5, -0.5), (0.5, 0.5), (-0.5, -0.5), (-2.0, 4.0), (8.0, -8.0))  # (rx, ry)
# origins: default, explicit zero, whole tiles away, fraction of a pixel away (3.5/-1.25), half a 0.5-pixel off whole
# numbers, an explicit zero component (falsy), within 2^-10 of whole numbers; thorough: both negative, huge
D_ORG = (None, (0.0, 0.0), (-16.0, 32.0), (3.5, -1.25), (16.25, -7.75), (0.0, 2.5), (5 + 2.0 ** -10, -3 - 2.0 ** -10))
D_ORG_T = D_ORG + ((-0.75, -100.5), (1000000.5, -2000000.25))
D_SHAPES_T = D_SHAPES + ((1, 1), (3, 16))
D_RES_T = D_RES + ((0.125, -0.25), (-4.0, -1.0))
R_RES = ((30.0, -30.0), (0.1, -0.1))
R_RES_T = R_RES + ((-30.0, 30.0), (1 / 3, -1 / 3), (-0.1, -0.1), (20.0, -40.0))
R_ORG = (None, (-16.0, 32.0), (3.5, -1.25), (500000.0, 6000000.0), (1 / 3, 0.1))
FLIPS = ((False, False), (True, False), (False, True), (True, True))
WIN = tuple(range(-3, 4))
FAR = ((-1000, 999), (4097, -4096), (1000003, -999999), (-2 ** 31 - 5, 2 ** 31 + 7))
# extreme grids (R): tiny / huge pixels, non-square tiny pixels, 4000-px tiles (1e5 m), long portrait non-square
E_GRIDS = (
    ("EPSG:4326", (4, 4), (4.5e-6, -4.5e-6), (15.0, 54.0)),
    ("EPSG:4326", (3, 5), (-4.5e-6, 9e-6), (-70.3, -33.2)),
    ("EPSG:3577", (4000, 4000), (25.0, -25.0), None),
    ("EPSG:3857", (2, 2), (1e5, -1e5), (-2e7, 2e7)),
    ("EPSG:32633", (2000, 3), (20.0, -40.0), (499980.0, 6000040.0)),
)


def d_specs(tier, small=False):
    shapes = D_SHAPES_T if tier == "thorough" else D_SHAPES
    ress = D_RES_T if tier == "thorough" else D_RES
    orgs = (None, (3.5, -1.25), (16.25, -7.75)) if (small and tier != "thorough") else \
        (D_ORG_T if tier == "thorough" else D_ORG)
    for shp in shapes:
        for res in ress:
            for org in orgs:
                for fx, fy in FLIPS:
                    yield ("D", "EPSG:3857", shp, res, org, fx, fy)


def r_specs(tier):
    ress = R_RES_T if tier == "thorough" else R_RES
    for shp in D_SHAPES:
        for res in ress:
            crs = "EPSG:32633" if abs(res[0]) >= 1 else "EPSG:4326"
            for org in R_ORG:
                for fx, fy in FLIPS:
                    yield ("R", crs, shp, res, org, fx, fy)


def e_specs(tier):
    for crs, shp, res, org in E_GRIDS:
        for fx, fy in FLIPS:
            yield ("R", crs, shp, res, org, fx, fy)


def all_specs(tier):
    yield from d_specs(tier)
    yield from r_specs(tier)
    yield from e_specs(tier)


# ---------------------------------------------------------------------------------------------
# reference model (exact rationals) and observation helpers
# ---------------------------------------------------------------------------------------------
E9 = Fr(1e-9)
EPS = Fr(2) ** -52


class Model:
    """Documented layout: tile (ix,iy) = [ox + dx*ix*W, +W] x [oy + dy*iy*H, +H]."""

    def __init__(self, spec):
        alph, _crs, (ny, nx), (rx, ry), org, fx, fy = spec
        self.exact = alph == "D"
        self.nx, self.ny = nx, ny
        self.rx, self.ry = Fr(rx), Fr(ry)
        self.px, self.py = abs(self.rx), abs(self.ry)
        self.ox, self.oy = (Fr(0), Fr(0)) if org is None else (Fr(org[0]), Fr(org[1]))
        self.W, self.H = nx * self.px, ny * self.py
        self.dx, self.dy = (-1 if fx else 1), (-1 if fy else 1)
        self._fpc = {}

    def fp(self, ix, iy):
        f = self._fpc.get((ix, iy))
        if f is None:
            x0 = self.ox + self.dx * ix * self.W
            y0 = self.oy + self.dy * iy * self.H
            f = self._fpc[(ix, iy)] = (x0, y0, x0 + self.W, y0 + self.H)
        return f

    def cell_idx(self, kx, ky):
        """value-lattice cell (kx,ky) = [ox+kx*W, ..) -> tile index"""
        return (self.dx * kx, self.dy * ky)

    def cells(self, q, pad=1):
        """tile indices of all lattice cells meeting the rectangle q = (x0,y0,x1,y1), padded by `pad` cells"""
        kx0, kx1 = (q[0] - self.ox) // self.W - pad, (q[2] - self.ox) // self.W + pad
        ky0, ky1 = (q[1] - self.oy) // self.H - pad, (q[3] - self.oy) // self.H + pad
        return [self.cell_idx(int(kx), int(ky)) for kx in range(int(kx0), int(kx1) + 1)
                for ky in range(int(ky0), int(ky1) + 1)]

    def tol(self, v, axis):
        """R tolerance: 16 ulp of the coordinate magnitudes entering the computation (the value and the origin it
        is offset from) + 1e-9 pixel. Never a fraction of the coordinate that could reach a pixel."""
        if self.exact:
            return 0
        o, p = (self.ox, self.px) if axis == 0 else (self.oy, self.py)
        return 16 * EPS * (abs(v) + abs(o)) + E9 * p

    def tolmax(self, vals, axis):
        if self.exact:
            return 0
        return self.tol(max(abs(v) for v in vals), axis)


_GRID = {}
_FP = {}


def mk_grid(spec):
    _alph, crs, shp, res, org, fx, fy = spec
    return GridSpec(crs, shp, resxy_(*res), origin=None if org is None else xy_(*org), flipx=fx, flipy=fy)


def grid(spec):
    g = _GRID.get(spec)
    if g is None:
        if len(_GRID) > 4000:
            _GRID.clear()
        g = _GRID[spec] = (mk_grid(spec), Model(spec))
    return g


def gb_fp(gb):
    """Footprint of an axis-aligned GeoBox from its defining data (affine, shape), exact rationals."""
    A = gb.affine
    vals = (A.a, A.b, A.c, A.d, A.e, A.f)
    if not all(math.isfinite(v) for v in vals) or A.b != 0 or A.d != 0:
        return None
    nx, ny = gb.shape.x, gb.shape.y
    xa = Fr(A.c)
    xb = xa + nx * Fr(A.a)
    ya = Fr(A.f)
    yb = ya + ny * Fr(A.e)
    return (min(xa, xb), min(ya, yb), max(xa, xb), max(ya, yb))


def fp_obs(spec, gs, idx):
    k = (spec, idx)
    f = _FP.get(k)
    if f is None:
        if len(_FP) > 200000:
            _FP.clear()
        f = _FP[k] = gb_fp(gs.tile_geobox(idx))
    return f


def gk(spec):
    _a, _c, _s, (rx, ry), _o, fx, fy = spec
    return f"fx{int(fx)}fy{int(fy)}:rx{'+' if rx > 0 else '-'}ry{'+' if ry > 0 else '-'}"


def fmt(F):
    return "None" if F is None else "(" + ", ".join(repr(float(v)) for v in F) + ")"


# ---------------------------------------------------------------------------------------------
# slice 1: tiling - GeoBox attributes, layout, disjoint interiors, shared edges, point lookup
# ---------------------------------------------------------------------------------------------
def gen_tiling(tier):
    win = tuple(range(-4, 5)) if tier == "thorough" else WIN

    def gen():
        for spec in all_specs(tier):
            for ix in win:
                for iy in win:
                    yield (spec, ix, iy)
            for ix, iy in FAR:
                yield (spec, ix, iy)

    return gen


def run_tiling(case):
    spec, ix, iy = case
    gs, m = grid(spec)
    k = gk(spec)
    alph, _crs, (ny, nx), (rx, ry), _org, _fx, _fy = spec
    far = abs(ix) > 100
    r = R(outcome=f"{alph}:{k}:{'far' if far else 'win'}")
    what = f"GridSpec{spec[1:]} tile {(ix, iy)}"
    T = (ix, iy)
    gb = gs.tile_geobox(T)
    if (gb.shape.y, gb.shape.x) != (ny, nx):
        r.fail(f"tile_geobox:shape:{k}", f"{what}: GeoBox shape {gb.shape} want {(ny, nx)}")
    if gb.resolution.xy != (rx, ry):
        r.fail(f"tile_geobox:resolution:{k}", f"{what}: GeoBox resolution {gb.resolution} want {(rx, ry)}")
    if gb.crs != gs.crs:
        r.fail("tile_geobox:crs", f"{what}: crs {gb.crs}")
    if gs[ix, iy] != gb or gs[T] != gb:
        r.fail("getitem:differs-from-tile_geobox", f"{what}: gs[idx] != gs.tile_geobox(idx)")
    F = gb_fp(gb)
    if F is None:
        return r.fail(f"tile_geobox:not-axis-aligned-or-non-finite:{k}", f"{what}: affine {tuple(gb.affine)[:6]}")
    tx = m.tolmax((F[0], F[2]), 0)
    ty = m.tolmax((F[1], F[3]), 1)
    tols = (tx, ty, tx, ty)
    # size and documented layout
    if abs((F[2] - F[0]) - m.W) > 2 * tx or abs((F[3] - F[1]) - m.H) > 2 * ty:
        r.fail(f"tile_geobox:footprint-size:{k}", f"{what}: footprint {fmt(F)} size != shape*|res| = {(float(m.W), float(m.H))}")
    want = m.fp(ix, iy)
    bad = [n for n, a, b, t in zip(("x0", "y0", "x1", "y1"), F, want, tols) if abs(a - b) > t]
    if bad:
        ax = "x" if any(b.startswith("x") for b in bad) else "y"
        r.fail(f"tile_geobox:footprint-vs-spec:{ax}:{k}",
               f"{what}: footprint {fmt(F)} but origin/direction/shape/resolution give {fmt(want)}")
    # GeoBox views of the same footprint
    bb = gb.boundingbox
    eb = gb.extent.boundingbox
    for name, b in (("boundingbox", bb), ("extent", eb)):
        got = (Fr(b.left), Fr(b.bottom), Fr(b.right), Fr(b.top))
        if any(abs(a - c) > t for a, c, t in zip(got, F, tols)):
            r.fail(f"tile_geobox:{name}-vs-affine:{k}", f"{what}: {name} {fmt(got)} vs affine*shape {fmt(F)}")
    # disjoint interiors against the window and the 5x5 neighbourhood
    others = set(itertools.product(WIN, WIN)) | {(ix + a, iy + b) for a in range(-2, 3) for b in range(-2, 3)}
    others.discard(T)
    for J in sorted(others):
        FJ = fp_obs(spec, gs, J)
        if FJ is None:
            continue  # reported by J's own case
        dxo = min(F[2], FJ[2]) - max(F[0], FJ[0])
        dyo = min(F[3], FJ[3]) - max(F[1], FJ[1])
        if dxo > tx and dyo > ty:
            r.fail(f"tiling:interiors-overlap:{k}", f"{what}: footprint {fmt(F)} overlaps tile {J} {fmt(FJ)}")
            break
    # neighbours share the common edge (direction aware)
    for di, dj in itertools.product((-1, 0, 1), repeat=2):
        if (di, dj) == (0, 0):
            continue
        N = (ix + di, iy + dj)
        FN = fp_obs(spec, gs, N)
        if FN is None:
            continue
        for ax, s, lo, hi, t in (("x", di * m.dx, 0, 2, tx), ("y", dj * m.dy, 1, 3, ty)):
            if s == 0:
                ok = abs(FN[lo] - F[lo]) <= t and abs(FN[hi] - F[hi]) <= t
            elif s > 0:
                ok = abs(FN[lo] - F[hi]) <= t
            else:
                ok = abs(FN[hi] - F[lo]) <= t
            if not ok:
                r.fail(f"neighbour:edge-not-shared:{ax}:{k}",
                       f"{what}: neighbour {N} footprint {fmt(FN)} does not share the {ax}-edge of {fmt(F)} "
                       f"(expected on side {s:+d})")
    # point lookup
    x0, y0, x1, y1 = F
    hx, hy = m.px / 2, m.py / 2
    cx, cy = (x0 + x1) / 2, (y0 + y1) / 2
    pts = [("centre", cx, cy),
           ("pixel-centre", x0 + hx, y0 + hy), ("pixel-centre", x1 - hx, y0 + hy),
           ("pixel-centre", x0 + hx, y1 - hy), ("pixel-centre", x1 - hx, y1 - hy),
           ("corner", x0, y0), ("corner", x1, y0), ("corner", x0, y1), ("corner", x1, y1),
           ("edge", cx, y0), ("edge", cx, y1), ("edge", x0, cy), ("edge", x1, cy)]
    conv = ""
    for cls, pxr, pyr in pts:
        fxp, fyp = float(pxr), float(pyr)
        J = gs.pt2idx(fxp, fyp)
        jx, jy = J.xy
        if not (isinstance(jx, int) and isinstance(jy, int)):
            r.fail("pt2idx:non-integer-index", f"{what}: pt2idx({fxp},{fyp}) -> {J}")
            continue
        if cls == "corner" and not conv:
            conv = "ll-own" if (jx, jy) == T else "ll-other"
        FJ = F if (jx, jy) == T else fp_obs(spec, gs, (jx, jy))
        if FJ is None:
            continue
        P = (Fr(fxp), Fr(fyp))
        inside = FJ[0] - tx <= P[0] <= FJ[2] + tx and FJ[1] - ty <= P[1] <= FJ[3] + ty
        if not inside:
            r.fail(f"pt2idx:point-outside-returned-tile:{cls}:{k}",
                   f"{what}: pt2idx({fxp},{fyp}) -> {(jx, jy)} whose footprint {fmt(FJ)} does not contain the point")
        elif cls in ("centre", "pixel-centre") and (jx, jy) != T:
            r.fail(f"pt2idx:interior-point-other-tile:{cls}:{k}",
                   f"{what}: interior point ({fxp},{fyp}) of footprint {fmt(F)} looked up as {(jx, jy)}")
    # points next to the edges: +-1 ulp and +-0.3e-8 / +-0.9e-8 / +-1.1e-8 (both sides of the query tolerance, which point
    # lookup must NOT apply). These are not dyadic: containment is judged with 4 ulp of the coordinate scale.
    fcx, fcy = float(cx), float(cy)
    for ax, ename, e, other in (("x", "x0", x0, fcy), ("x", "x1", x1, fcy), ("y", "y0", y0, fcx), ("y", "y1", y1, fcx)):
        fe = float(e)
        o = m.ox if ax == "x" else m.oy
        sz = m.W if ax == "x" else m.H
        slack = max(tx if ax == "x" else ty, 4 * EPS * (abs(e) + abs(o) + sz))
        # one unit in the last place at the scale of the grid (next to an edge at 0.0 nextafter would be a
        # denormal, whose quotient underflows - not a coordinate anyone has)
        u = max(math.ulp(fe), math.ulp(float(sz)))
        for dname, pv in (("ulp", fe + u), ("ulp", fe - u),
                          ("0.05tol", fe + 5e-10), ("0.05tol", fe - 5e-10), ("0.3tol", fe + 0.3e-8), ("0.3tol", fe - 0.3e-8),
                          ("0.9tol", fe + 0.9e-8), ("0.9tol", fe - 0.9e-8), ("1.1tol", fe + 1.1e-8), ("1.1tol", fe - 1.1e-8)):
            P = (pv, other) if ax == "x" else (other, pv)
            jx, jy = gs.pt2idx(*P).xy
            FJ = F if (jx, jy) == T else fp_obs(spec, gs, (jx, jy))
            if FJ is None:
                continue
            lo, hi = (FJ[0], FJ[2]) if ax == "x" else (FJ[1], FJ[3])
            side = "inside" if (pv > fe) == (ename[1] == "0") else "outside"
            if not lo - slack <= Fr(pv) <= hi + slack:
                r.fail(f"pt2idx:point-outside-returned-tile:edge{'+-' + dname}:{ax}:{k}",
                       f"{what}: pt2idx{P} ({dname} {side} edge {ename}={fe!r}) -> {(jx, jy)} whose footprint {fmt(FJ)} "
                       f"does not contain the point")
            elif (jx, jy)[ax == "y"] != T[ax == "y"] and side == "inside" and abs(Fr(pv) - e) > slack and not far:
                r.fail(f"pt2idx:interior-point-other-tile:edge+-{dname}:{ax}:{k}",
                       f"{what}: pt2idx{P} is {dname} inside edge {ename}={fe!r} of {fmt(F)} but looked up as {(jx, jy)}")
    r.outcome += ":" + conv
    return r


# ---------------------------------------------------------------------------------------------
# slice 2: grid rebuilt from one of its tiles has the same footprints
# ---------------------------------------------------------------------------------------------
def gen_rebuild(tier):
    forms = ("extent", "bbox-polygon") if tier == "thorough" else ("extent",)

    def gen():
        for spec in all_specs(tier):
            for form in forms:
                for ix in WIN:
                    for iy in WIN:
                        yield (spec, ix, iy, form)
                for ix, iy in FAR:
                    yield (spec, ix, iy, form)

    return gen


def run_rebuild(case):
    spec, ix, iy, fname = case
    gs, m = grid(spec)
    k = gk(spec)
    alph, crs, (ny, nx), _res, _org, fx, fy = spec
    gb = gs[ix, iy]
    FS = gb_fp(gb)
    if FS is None:
        return R(outcome="bad-sample-geobox")  # reported by the tiling slice
    scls = "sample-idx0" if (ix, iy) == (0, 0) else ("sample-far" if abs(ix) > 100 else "sample-idx-nonzero")
    r = R(outcome=f"{alph}:{k}:{scls}")
    what = f"GridSpec{spec[1:]} rebuilt from tile {(ix, iy)}"
    box = gb.extent if fname == "extent" else geom.box(*gb.boundingbox.bbox, crs)
    eq = ""
    if True:
        gs2 = GridSpec.from_sample_tile(box, shape=(ny, nx), idx=(ix, iy), flipx=fx, flipy=fy)
        if (gs2.tile_shape.y, gs2.tile_shape.x) != (ny, nx) or gs2.crs != gs.crs:
            r.fail("from_sample_tile:shape-or-crs", f"{what}: tile_shape {gs2.tile_shape} crs {gs2.crs}")
        eq = eq or f"eq{int(gs2 == gs)}"
        for J in list(itertools.product(WIN, WIN)) + list(FAR):
            F1 = fp_obs(spec, gs, J)
            g2 = gs2[J]
            F2 = gb_fp(g2)
            if F1 is None:
                continue
            if F2 is None:
                r.fail(f"from_sample_tile:bad-geobox:{k}", f"{what}: tile {J} affine {tuple(g2.affine)[:6]}")
                break
            if (g2.shape.y, g2.shape.x) != (ny, nx):
                r.fail(f"from_sample_tile:tile-shape:{k}", f"{what}: tile {J} shape {g2.shape}")
                break
            # R tolerance relative to the largest coordinate involved: the sample tile's edges are inputs too
            # (the tile size is measured from the sample and extrapolated over the index distance)
            tx = m.tolmax((F1[0], F1[2], FS[0], FS[2]), 0) * (1 + abs(J[0] - ix))
            ty = m.tolmax((F1[1], F1[3], FS[1], FS[3]), 1) * (1 + abs(J[1] - iy))
            bad = [n for n, a, b, t in zip("xyxy", F1, F2, (tx, ty, tx, ty)) if abs(a - b) > t]
            if bad:
                r.fail(f"from_sample_tile:footprint-differs:{bad[0]}:{k}:{scls}",
                       f"{what} ({fname}): tile {J} footprint {fmt(F2)} but original grid has {fmt(F1)}")
                break
    r.outcome += f":{fname}:{eq}"
    return r


# ---------------------------------------------------------------------------------------------
# slice 3: bounding-box queries (native CRS): tiles() and idx_bounds()
# ---------------------------------------------------------------------------------------------
# offsets from a lattice line: exact, +-1e-9, +-1e-6, +-quarter tile and both sides of the 1e-8 window
# (f x 1e-8, f in 0.9, 0.999, 1.001, 1.1)
OFFS = ("0", "+t", "-t", "+c", "-c", "+q", "-q", "+f0.9", "-f0.9", "+f0.999", "-f0.999", "+f1.001", "-f1.001",
        "+f1.1", "-f1.1")
REQ = Fr(5e-7)  # constructed clear overlaps / gaps are >= 1e-6 (minus float rounding of the edge)
THIN = Fr(1e-7)
TOLQ = Fr(1e-8)  # the property's edge-contact exclusion (absolute, CRS units)
TOLQ_LO, TOLQ_HI = TOLQ * Fr(9995, 10000), TOLQ * Fr(10005, 10000)


def _axis_full(tier="thorough"):
    offs = OFFS if tier == "thorough" else tuple(o for o in OFFS if "f0.999" not in o and "f1.001" not in o)
    iv = [(0, "0", 1, "0"), (-1, "0", 1, "0"), (-2, "0", -1, "0")]
    iv += [(0, e, 2, "-q") for e in offs]
    iv += [(-1, "+q", 1, e) for e in offs]
    iv += [(0, "+t", 1, "-t"), (0, "-t", 1, "+t"), (0, "-c", 1, "+c"), (0, "+c", 1, "-c")]
    iv += [(0, "-f0.999", 1, "+f0.999"), (0, "-f1.001", 1, "+f1.001")]
    iv += [(0, "-c", 0, "+c"), (0, "+q", 0, "+q"), (0, "0", 0, "0"), (0, "-t", 0, "+t")]
    iv += [(-3, "+q", 3, "-q")]
    out = []
    for i in iv:
        if i not in out:
            out.append(i)
    return tuple(out)


AX_FULL = _axis_full()
AX_FULL_Q = _axis_full("quick")
AX_SMALL = ((0, "0", 1, "0"), (0, "+q", 2, "-q"), (-1, "+q", 1, "+c"), (0, "-c", 1, "+t"), (-2, "0", -1, "0"),
            (0, "+q", 0, "+q"))


def gen_bbox(tier):
    full = AX_FULL if tier == "thorough" else AX_FULL_Q

    def gen():
        for spec in all_specs(tier):
            for qx in full:
                for qy in AX_SMALL:
                    yield (spec, qx, qy)
            for qx in AX_SMALL:
                for qy in full:
                    if qy not in AX_SMALL:
                        yield (spec, qx, qy)

    return gen


def _off(code, quarter):
    if code[1:2] == "f":
        return float(code[0] + "1") * float(code[2:]) * 1e-8
    return {"0": 0.0, "+t": 1e-9, "-t": -1e-9, "+c": 1e-6, "-c": -1e-6, "+q": quarter, "-q": -quarter}[code]


def edge_value(m, axis, kline, code):
    o, sz = (m.ox, m.W) if axis == 0 else (m.oy, m.H)
    base = float(o + kline * sz)
    return base + _off(code, float(sz) / 4)


def rect_depth(q, F):
    """min over the two axes of the overlap length (negative = gap) of two rectangles; exact."""
    return min(min(q[2], F[2]) - max(q[0], F[0]), min(q[3], F[3]) - max(q[1], F[1]))


def classify_bbox(m, q, F, thin, tau):
    """'req' | 'forbid:<why>' | 'open'"""
    p = rect_depth(q, F)
    if p >= TOLQ_HI + tau:
        return "req"
    if p <= -(REQ + tau):
        return "forbid:disjoint"
    if not thin and p <= TOLQ_LO - tau:
        return "forbid:touching" if p == 0 else ("forbid:near-gap" if p < 0 else "forbid:contact-within-1e-8")
    return "open"


def judge_tiles(r, m, q, returned, cand, classify, fn, k, what):
    """Shared by bbox and polygon queries. returned: list of indices; cand: candidate indices."""
    nreq = nforb = nopen = 0
    rset = set(returned)
    if len(rset) != len(returned):
        r.fail(f"{fn}:duplicate-tiles:{k}", f"{what}: returned {returned}")
    for idx in sorted(set(cand) | rset):
        c = classify(m.fp(*idx))
        if c == "req":
            nreq += 1
            if idx not in rset:
                r.fail(f"{fn}:missing-overlapping-tile:{k}",
                       f"{what}: tile {idx} footprint {fmt(m.fp(*idx))} clearly overlaps the query but was not "
                       f"returned; returned {sorted(rset)}")
        elif c.startswith("forbid"):
            nforb += 1
            if idx in rset:
                r.fail(f"{fn}:returned-non-overlapping-tile:{c[7:]}:{k}",
                       f"{what}: tile {idx} footprint {fmt(m.fp(*idx))} does not overlap the query ({c[7:]}) but "
                       f"was returned; returned {sorted(rset)}")
        else:
            nopen += 1
            r.counts["contact_returned" if idx in rset else "contact_not_returned"] = \
                r.counts.get("contact_returned" if idx in rset else "contact_not_returned", 0) + 1
    return nreq, nforb, nopen


def run_bbox(case):
    spec, qx, qy = case
    gs, m = grid(spec)
    k = gk(spec)
    alph, crs = spec[0], spec[1]
    lox, hix = edge_value(m, 0, qx[0], qx[1]), edge_value(m, 0, qx[2], qx[3])
    loy, hiy = edge_value(m, 1, qy[0], qy[1]), edge_value(m, 1, qy[2], qy[3])
    assert lox <= hix and loy <= hiy, case
    q = (Fr(lox), Fr(loy), Fr(hix), Fr(hiy))
    thin = (q[2] - q[0]) <= THIN or (q[3] - q[1]) <= THIN
    # the offsets are not dyadic: binary64 rounding of edge + 1e-8 (about 1 ulp of |edge| + |origin|) decides inside
    # a band of that width around the 1e-8 threshold, on D grids too (matters for origins like 1e6)
    ulps = 16 * EPS * max(max(abs(q[0]), abs(q[2])) + abs(m.ox), max(abs(q[1]), abs(q[3])) + abs(m.oy))
    tau = max(ulps, 0 if m.exact else max(m.tolmax((q[0], q[2]), 0), m.tolmax((q[1], q[3]), 1)))
    bounds = BoundingBox(lox, loy, hix, hiy, crs)
    what = f"GridSpec{spec[1:]}.tiles(BoundingBox({lox!r},{loy!r},{hix!r},{hiy!r}))"
    r = R()
    got = list(gs.tiles(bounds))
    returned = [tuple(i) for i, _ in got]
    for i, g in got:
        if g != gs.tile_geobox(i):
            r.fail("tiles:geobox-differs-from-tile_geobox", f"{what}: tile {i}")
            break
    cand = m.cells(q)
    cl = lambda F: classify_bbox(m, q, F, thin, tau)  # noqa: E731
    nreq, nforb, nopen = judge_tiles(r, m, q, returned, cand, cl, "tiles", k, what)
    # idx_bounds: documented half-open index ranges, judged by the same oracle
    ib = tuple(int(v) for v in gs.idx_bounds(bounds))
    ibset = [(i, j) for j in range(ib[1], ib[3]) for i in range(ib[0], ib[2])]
    if sorted(ibset) != sorted(returned):
        r2 = R()
        judge_tiles(r2, m, q, ibset, cand, cl, "idx_bounds", k, what.replace(".tiles(", ".idx_bounds(") + f" -> {ib}")
        r.fails.extend(r2.fails)
    # other entry points with the same arguments, judged by the same oracle
    if not thin and (qy in AX_SMALL[:3] or qx in AX_SMALL[:1]):
        cache = {}
        ret2 = [tuple(i) for i, _ in gs.tiles_from_geopolygon(geom.box(lox, loy, hix, hiy, crs), geobox_cache=cache)]
        if sorted(ret2) != sorted(returned):
            r2 = R()
            judge_tiles(r2, m, q, ret2, cand, cl, "tiles_from_geopolygon:box", k,
                        what.replace(".tiles(BoundingBox", ".tiles_from_geopolygon(geom.box"))
            r.fails.extend(r2.fails)
        ret3 = [tuple(i) for i, _ in gs.tiles(bounds, geobox_cache=cache)]
        if ret3 != returned:
            r.fail(f"tiles:geobox_cache-changes-result:{k}", f"{what}: {returned} without, {ret3} with a geobox_cache")
        if alph == "D" and qy in AX_SMALL[:1]:
            for kw in ("bbox", "geopolygon"):
                gj = gs.geojson(**{kw: bounds if kw == "bbox" else geom.box(lox, loy, hix, hiy, crs)})
                ret4 = [tuple(int(v) for v in f["properties"]["idx"].split(",")) for f in gj["features"]]
                if sorted(ret4) != sorted(returned):
                    r2 = R()
                    judge_tiles(r2, m, q, ret4, cand, cl, f"geojson:{kw}", k, what.replace(".tiles(", f".geojson({kw}="))
                    r.fails.extend(r2.fails)
    contact = any(c in ("0", "+t", "-t") or c[1:2] == "f" for c in (qx[1], qx[3], qy[1], qy[3]))
    r.outcome = f"{alph}:n{min(len(returned), 9)}:{'thin' if thin else ('contact' if contact else 'clear')}:open{min(nopen, 3)}"
    r.nontrivial = nreq > 0 or thin
    return r


# ---------------------------------------------------------------------------------------------
# slice 4: polygon queries in the grid's CRS (alphabet D), exact separating-axis oracle
# ---------------------------------------------------------------------------------------------
PD = 2.0 ** -10  # clear polygon offset (dyadic)
NEG = {"0": "0", "+t": "-t", "-t": "+t", "+d": "-d", "-d": "+d"}
POFF = {"0": 0.0, "+t": 1e-9, "-t": -1e-9, "+d": PD, "-d": -PD}


def V(u, v, eu="0", ev="0"):
    return (u, eu, v, ev)


def prect(u0, v0, u1, v1, e0="0", e1="0"):
    """rectangle; offset e0 on both low edges, e1 on both high edges"""
    return [V(u0, v0, e0, e0), V(u1, v0, e1, e0), V(u1, v1, e1, e1), V(u0, v1, e0, e1)]


def _shapes():
    S = {}
    for e in ("0", "+d", "-d", "+t", "-t"):
        rc = prect(0, 0, 1, 1, NEG[e], e)  # tile (0,0) grown by e
        S[f"tile{e}"] = ("polygon", [rc], [rc])
    for n in (2, 3):
        for e in ("0", "+d", "-d"):
            tri = [V(0, 0), V(n, 0, e, "0"), V(0, n, "0", e)]
            S[f"tri{n}{e}"] = ("polygon", [tri], [tri])
    for e in ("0", "+d", "-d"):
        d2 = [V(-1, 1, NEG[e], "0"), V(1, -1, "0", NEG[e]), V(3, 1, e, "0"), V(1, 3, "0", e)]
        d3 = [V(-2, 1, NEG[e], "0"), V(1, -2, "0", NEG[e]), V(4, 1, e, "0"), V(1, 4, "0", e)]
        S[f"diamond2{e}"] = ("polygon", [d2], [d2])
        S[f"diamond3{e}"] = ("polygon", [d3], [d3])
    for e in ("0", "+d", "-d", "+t", "-t"):
        ring = [V(0, 0), V(2, 0), V(2, 1, "0", e), V(1, 1, e, e), V(1, 2, e, "0"), V(0, 2)]
        pcs = [[V(0, 0), V(2, 0), V(2, 1, "0", e), V(0, 1, "0", e)],
               [V(0, 0), V(1, 0, e, "0"), V(1, 2, e, "0"), V(0, 2)]]
        S[f"L{e}"] = ("polygon", [ring], pcs)
        ne = NEG[e]
        a, b = -0.75, 1.75
        outer = prect(a, a, b, b)
        hole = prect(0, 0, 1, 1, ne, e)  # hole = tile (0,0) grown by e
        pcs = [[V(a, a), V(0, a, ne, "0"), V(0, b, ne, "0"), V(a, b)],
               [V(1, a, e, "0"), V(b, a), V(b, b), V(1, b, e, "0")],
               [V(a, a), V(b, a), V(b, 0, "0", ne), V(a, 0, "0", ne)],
               [V(a, 1, "0", e), V(b, 1, "0", e), V(b, b), V(a, b)]]
        S[f"frame{e}"] = ("polygon-hole", [outer, hole], pcs)
    for e in ("0", "+d", "-d"):
        A = [V(-1.75, 0.25), V(0, 0.25, e, "0"), V(0, 0.75, e, "0"), V(-1.75, 0.75)]
        B = [V(1, 0.25, NEG[e], "0"), V(2.75, 0.25), V(2.75, 0.75), V(1, 0.75, NEG[e], "0")]
        S[f"two-rects{e}"] = ("multipolygon", [A, B], [A, B])
    return S


SHAPES = _shapes()
BASES = ((0, 0), (-2, -1))


def gen_poly(tier):
    def gen():
        for spec in d_specs(tier, small=True):
            for name in SHAPES:
                for base in BASES:
                    for orient in ("ccw", "cw"):
                        yield (spec, name, base, orient)

    return gen


def vertex_xy(m, base, v):
    u, eu, w, ev = v
    x = float(m.ox + Fr(base[0] + u) * m.W) + POFF[eu]
    y = float(m.oy + Fr(base[1] + w) * m.H) + POFF[ev]
    return (x, y)


class Piece:
    """Convex polygon prepared for separating-axis tests against axis-aligned rectangles (exact)."""

    def __init__(self, verts):
        self.verts = verts
        xs = [p[0] for p in verts]
        ys = [p[1] for p in verts]
        self.bbox = (min(xs), min(ys), max(xs), max(ys))
        self.axes = []
        n = len(verts)
        for i in range(n):
            (x1, y1), (x2, y2) = verts[i], verts[(i + 1) % n]
            ax, ay = y2 - y1, x1 - x2
            if ax == 0 or ay == 0:
                continue  # axis-parallel edges are covered by the bounding-box test
            a = [ax * x + ay * y for x, y in verts]
            self.axes.append((ax, ay, min(a), max(a), math.sqrt(float(ax * ax + ay * ay))))


def sat_depth(pc, F):
    """Convex piece vs rectangle F: min over separating-axis candidates (x, y, oblique edge normals) of
    the normalised projection overlap (> 0: interiors intersect with that penetration depth; <= 0: the
    shapes are separated by at least that gap along some axis)."""
    d = float(rect_depth(pc.bbox, F))
    if d <= -5e-7:
        return d
    for ax, ay, amin, amax, norm in pc.axes:
        b = (ax * F[0] + ay * F[1], ax * F[2] + ay * F[1], ax * F[2] + ay * F[3], ax * F[0] + ay * F[3])
        ov = min(amax, max(b)) - max(amin, min(b))
        d = min(d, float(ov) / norm)
    return d


def classify_poly(pieces, F, thr=5e-7, exact=False):
    """tile vs union of convex pieces: 'req' if it clearly overlaps one piece, 'forbid:disjoint' if it
    is clearly separated from every piece, else 'open' (contact: touching / within ~1e-9)."""
    ds = [sat_depth(p, F) for p in pieces]
    if max(ds) >= thr:
        return "req"
    if max(ds) <= -thr:
        return "forbid:disjoint"
    if exact and max(ds) == 0:
        # dyadic grid and dyadic vertices: the tile exactly touches the polygon (shared edge or corner) and does
        # not overlap it - "edge contacts excluded", as for bounding-box queries
        return "forbid:touching"
    return "open"


def build_geometry(kind, rings, crs):
    if kind == "polygon":
        return geom.polygon(rings[0] + rings[0][:1], crs)
    if kind == "polygon-hole":
        return geom.polygon(rings[0] + rings[0][:1], crs, rings[1] + rings[1][:1])
    return geom.multipolygon([[rg + rg[:1]] for rg in rings], crs)


def run_poly(case):
    spec, name, base, orient = case
    gs, m = grid(spec)
    k = gk(spec)
    kind, rings_s, pieces_s = SHAPES[name]
    rings = [[vertex_xy(m, base, v) for v in rg] for rg in rings_s]
    if orient == "cw":
        rings = [rg[::-1] for rg in rings]
    pieces = [Piece([(Fr(x), Fr(y)) for x, y in (vertex_xy(m, base, v) for v in pc)]) for pc in pieces_s]
    g = build_geometry(kind, rings, spec[1])
    what = f"GridSpec{spec[1:]}.tiles_from_geopolygon({name} at cell {base}, {orient}: {rings})"
    r = R()
    cache = {} if orient == "cw" else None
    got = list(gs.tiles_from_geopolygon(g, geobox_cache=cache))
    returned = [tuple(i) for i, _ in got]
    for i, gb in got:
        if gb != gs.tile_geobox(i):
            r.fail("tiles_from_geopolygon:geobox-differs-from-tile_geobox", f"{what}: tile {i}")
            break
    xs = [x for rg in rings for x, _ in rg]
    ys = [y for rg in rings for _, y in rg]
    qb = (Fr(min(xs)), Fr(min(ys)), Fr(max(xs)), Fr(max(ys)))
    cand = m.cells(qb)
    cls = {}

    def classify(F):
        c = cls.get(F)
        if c is None:
            c = cls[F] = classify_poly(pieces, F, exact=m.exact)
        return c

    shape_cls = name.rstrip("+-dt0") or name
    nreq, nforb, nopen = judge_tiles(r, m, None, returned, cand, classify,
                                     "tiles_from_geopolygon", f"{shape_cls}:{k}", what)
    if orient == "ccw" and base == (0, 0):
        # same argument through the other entry point
        gj = gs.geojson(geopolygon=g)
        ret2 = [tuple(int(v) for v in f["properties"]["idx"].split(",")) for f in gj["features"]]
        if sorted(ret2) != sorted(returned):
            r2 = R()
            judge_tiles(r2, m, None, ret2, cand, classify, "geojson:geopolygon", f"{shape_cls}:{k}",
                        what.replace(".tiles_from_geopolygon(", ".geojson(geopolygon="))
            r.fails.extend(r2.fails)
    # forbidden tiles inside the query's bounding box exercise the polygon filter (not only the bbox)
    inbox = sum(1 for idx in cand if rect_depth(qb, m.fp(*idx)) >= REQ and classify(m.fp(*idx)) == "forbid:disjoint")
    r.outcome = f"{name}:n{min(len(returned), 12)}:open{min(nopen, 4)}:filtered{min(inbox, 3)}"
    r.nontrivial = nreq > 0
    return r


# ---------------------------------------------------------------------------------------------
# slice 4b: every geometry type as query (grid CRS, alphabet D); oracle = shapely on raw shapes
# ---------------------------------------------------------------------------------------------
MG = 2.0 ** -12  # margin of the generic oracle; constructed features are >= 2^-10 (mostly a quarter tile) clear
_RECT = [(0.25, 0.25), (2.75, 0.25), (2.75, 2.75), (0.25, 2.75)]
# name -> (kind, parts in cell units [, world offset added to every x])
GEOMS = {
    "point-inside": ("point", [(0.5, 0.5)]),
    "point-on-edge": ("point", [(1, 0.5)]),
    "point-on-corner": ("point", [(1, 1)]),
    "point-near-edge": ("point", [(1, 0.5)], 2.0 ** -10),
    "multipoint": ("multipoint", [(0.5, 0.5), (3.5, 2.5)]),
    "multipoint-single": ("multipoint", [(1.5, 0.25)]),
    "multipoint-repeated": ("multipoint", [(0.5, 0.5), (0.5, 0.5), (-1.5, 0.5)]),
    "line-mid": ("line", [(0.25, 0.5), (3.75, 0.5)]),
    "line-diag-through-corners": ("line", [(0, 0), (3, 3)]),
    "line-diag": ("line", [(0.25, 0), (3.25, 3)]),
    "line-along-edge": ("line", [(0.25, 1), (2.75, 1)]),
    "line-vertical-long": ("line", [(0.5, -2.5), (0.5, 3.5)]),
    "line-near-edge": ("line", [(1, -0.75), (1, 1.75)], 2.0 ** -10),
    "multiline": ("multiline", [[(0.25, 0.5), (0.75, 0.5)], [(3.25, 2.5), (3.75, 2.5)]]),
    "multiline-single": ("multiline", [[(0.25, 0.5), (1.75, 0.5)]]),
    "ring-exterior": ("ring", _RECT),
    "ring-interior": ("ring-hole", [(0.25, 0.25), (0.75, 0.25), (0.75, 0.75), (0.25, 0.75)]),
    "multipolygon-single": ("multipolygon", [[(0.25, 0.25), (0.75, 0.25), (0.75, 1.75), (0.25, 1.75)]]),
    "multipolygon-row-gap": ("multipolygon", [[(-1.75, 0.25), (-1.25, 0.25), (-1.25, 0.75), (-1.75, 0.75)],
                                              [(2.25, 0.25), (2.75, 0.25), (2.75, 0.75), (2.25, 0.75)]]),
    "multipolygon-column-gap": ("multipolygon", [[(0.25, -2.75), (0.75, -2.75), (0.75, -2.25), (0.25, -2.25)],
                                                 [(0.25, 0.25), (0.75, 0.25), (0.75, 0.75), (0.25, 0.75)],
                                                 [(0.25, 3.25), (0.75, 3.25), (0.75, 3.75), (0.25, 3.75)]]),
    "polygon-repeated-vertices": ("polygon-repeated", _RECT),
    "collection": ("collection", [[(0.5, 0.5)], [(2.25, 2.25), (2.75, 2.75)],
                                  [(4.25, 0.25), (4.75, 0.25), (4.75, 0.75), (4.25, 0.75)]]),
    "collection-single": ("collection1", [(0.25, 0.25), (1.75, 0.25), (1.75, 0.75), (0.25, 0.75)]),
    "empty-polygon": ("empty", "Polygon"),
    "empty-multipolygon": ("empty", "MultiPolygon"),
    "empty-collection": ("empty", "GeometryCollection"),
    "empty-point": ("empty", "Point"),
    "empty-linestring": ("empty", "LineString"),
    "empty-polygon-other-crs": ("empty-4326", "Polygon"),
    "no-crs-polygon": ("nocrs", _RECT),
    "no-crs-empty": ("nocrs-empty", "Polygon"),
}


def gen_geomtypes(tier):
    def gen():
        for spec in d_specs(tier, small=True):
            for name in GEOMS:
                for base in BASES:
                    yield (spec, name, base)

    return gen


def make_query(kind, pts, crs):
    """-> (odc Geometry built through the public constructors, independent shapely shape, filled shape)"""
    cl = lambda rg: list(rg) + [rg[0]]  # noqa: E731
    if kind == "point":
        return geom.point(*pts[0], crs), sg.Point(pts[0]), None
    if kind == "multipoint":
        return geom.multipoint(list(pts), crs), sg.MultiPoint(pts), None
    if kind == "line":
        return geom.line(list(pts), crs), sg.LineString(pts), None
    if kind == "multiline":
        return geom.multiline([list(p) for p in pts], crs), sg.MultiLineString(pts), None
    if kind == "ring":
        return geom.polygon(cl(pts), crs).exterior, sg.LineString(cl(pts)), sg.Polygon(pts)
    if kind == "ring-hole":
        outer = [(min(x for x, _ in pts) - 1e3, min(y for _, y in pts) - 1e3), (max(x for x, _ in pts) + 1e3, min(y for _, y in pts) - 1e3),
                 (max(x for x, _ in pts) + 1e3, max(y for _, y in pts) + 1e3), (min(x for x, _ in pts) - 1e3, max(y for _, y in pts) + 1e3)]
        return geom.polygon(cl(outer), crs, cl(pts)).interiors[0], sg.LineString(cl(pts)), sg.Polygon(pts)
    if kind == "multipolygon":
        return geom.multipolygon([[cl(p)] for p in pts], crs), sg.MultiPolygon([sg.Polygon(p) for p in pts]), None
    if kind == "polygon-repeated":
        rep = [pts[0], pts[0], pts[1], pts[1], pts[1], pts[2], pts[3], pts[3]]
        return geom.polygon(cl(rep), crs), sg.Polygon(pts), None
    if kind == "collection":
        members = [sg.Point(pts[0][0]), sg.LineString(pts[1]), sg.Polygon(pts[2])]
        return geom.Geometry(sg.GeometryCollection(members), crs), sg.GeometryCollection(
            [sg.Point(pts[0][0]), sg.LineString(pts[1]), sg.Polygon(pts[2])]), None
    if kind == "collection1":
        return geom.Geometry(sg.GeometryCollection([sg.Polygon(pts)]), crs), sg.Polygon(pts), None
    raise ValueError(kind)


def areal_part(G):
    if G.geom_type in ("Polygon", "MultiPolygon"):
        return G
    if G.geom_type == "GeometryCollection":
        polys = [g for g in G.geoms if g.geom_type in ("Polygon", "MultiPolygon")]
        return sg.MultiPolygon([p for g in polys for p in (g.geoms if g.geom_type == "MultiPolygon" else [g])]) if polys else None
    return None


def generic_classifier(G, filled, margin):
    """tile -> 'req' when the query has a point clearly inside the tile (for areal parts: clearly inside both),
    'forbid:disjoint' when the whole query (a ring counted with the area it encloses) is clearly away, else 'open'."""
    A = areal_part(G)
    core = G if A is None else A.buffer(-margin)
    if A is not None and G.geom_type == "GeometryCollection":
        rest = [g for g in G.geoms if g.geom_type not in ("Polygon", "MultiPolygon")]
        core = sg.GeometryCollection([core] + rest)
    hull = G if filled is None else filled

    def classify(F):
        x0, y0, x1, y1 = (float(v) for v in F)
        if x1 - x0 > 2 * margin and y1 - y0 > 2 * margin and core.intersects(sg.box(x0 + margin, y0 + margin, x1 - margin, y1 - margin)):
            return "req"
        if hull.distance(sg.box(x0, y0, x1, y1)) >= margin:
            return "forbid:disjoint"
        return "open"

    return classify


def run_geomtypes(case):
    spec, name, base = case
    gs, m = grid(spec)
    k = gk(spec)
    crs = spec[1]
    ent = GEOMS[name]
    kind, parts = ent[0], ent[1]
    xoff = ent[2] if len(ent) > 2 else 0.0
    r = R(outcome=f"{name}")
    what = f"GridSpec{spec[1:]}.tiles_from_geopolygon({name} at cell {base})"
    if kind.startswith("empty") or kind.startswith("nocrs"):
        if kind in ("empty", "empty-4326"):
            g = geom.Geometry(getattr(sg, parts)(), crs if kind == "empty" else "EPSG:4326")
            got = [tuple(i) for i, _ in gs.tiles_from_geopolygon(g)]  # an exception here is reported by the framework
            if got:
                r.fail(f"tiles_from_geopolygon:empty-query-returns-tiles:{parts}", f"{what}: empty {parts} -> {got}")
            gj = gs.geojson(geopolygon=g)
            if gj.get("features"):
                r.fail(f"geojson:empty-query-returns-tiles:{parts}", f"{what}: geojson(geopolygon=empty {parts}) -> "
                                                                     f"{len(gj['features'])} features")
            r.outcome += ":n0"
            return r
        # geometry without a CRS: the documented error of to_crs, or an answer (then judged as if native)
        xy = lambda u, v: (float(m.ox + Fr(base[0] + u) * m.W), float(m.oy + Fr(base[1] + v) * m.H))  # noqa: E731
        g = geom.Geometry(sg.Polygon() if kind == "nocrs-empty" else sg.Polygon([xy(*p) for p in parts]), None)
        try:
            got = [tuple(i) for i, _ in gs.tiles_from_geopolygon(g)]
        except ValueError as e:
            r.outcome += ":ValueError"
            if "CRS" not in str(e).upper():
                r.fail("tiles_from_geopolygon:no-crs:unexpected-error", f"{what}: ValueError: {e}")
            return r
        r.outcome += f":n{len(got)}"
        if kind == "nocrs-empty" and got:
            r.fail("tiles_from_geopolygon:empty-query-returns-tiles:no-crs", f"{what}: -> {got}")
        return r

    def xy(p):
        return (float(m.ox + Fr(base[0] + p[0]) * m.W) + xoff, float(m.oy + Fr(base[1] + p[1]) * m.H))

    pts = [[xy(q) for q in p] if isinstance(p, list) else xy(p) for p in parts]
    g, G, filled = make_query(kind, pts, crs)
    wkt0 = g.wkt
    cache = {}
    got = list(gs.tiles_from_geopolygon(g, geobox_cache=cache))
    returned = [tuple(i) for i, _ in got]
    if g.wkt != wkt0:
        r.fail("tiles_from_geopolygon:query-geometry-modified", f"{what}: {wkt0} -> {g.wkt}")
    for i, gb in got:
        if gb != gs.tile_geobox(i):
            r.fail("tiles_from_geopolygon:geobox-differs-from-tile_geobox", f"{what}: tile {i}")
            break
    bx0, by0, bx1, by1 = G.bounds
    cand = m.cells((Fr(bx0), Fr(by0), Fr(bx1), Fr(by1)))
    classify = generic_classifier(G, filled, MG)
    nreq, nforb, nopen = judge_tiles(r, m, None, returned, cand, classify, f"tiles_from_geopolygon:{kind}", k,
                                     f"{what}: {g.wkt[:200]}")
    r.outcome += f":n{min(len(returned), 9)}:open{min(nopen, 3)}"
    r.nontrivial = nreq > 0 or nforb > 0
    return r


# ---------------------------------------------------------------------------------------------
# slice 5: polygon queries given in another CRS; oracle = fresh pyproj.Transformer + shapely
# ---------------------------------------------------------------------------------------------
# CRS spellings: codes, a CRS without an EPSG code, and a WKT whose central meridian was edited (15 -> 20) while
# its trailing ID["EPSG",32633] was left in place (oracle: an independent PROJ string with the same parameters)
NOEPSG = "+proj=laea +lat_0=52 +lon_0=11 +x_0=4321000 +y_0=3210000 +ellps=GRS80 +units=m +no_defs"
STALE_ORACLE = "+proj=tmerc +lat_0=0 +lon_0=20 +k=0.9996 +x_0=500000 +y_0=0 +datum=WGS84 +units=m +no_defs"
_STALE = []


def stale_wkt():
    if not _STALE:
        w = pyproj.CRS.from_epsg(32633).to_wkt()
        w2 = w.replace('"Longitude of natural origin",15', '"Longitude of natural origin",20')
        assert w2 != w and 'ID["EPSG",32633]' in w2
        _STALE.append(w2)
    return _STALE[0]


def crs_arg(name):
    """case label -> (what is handed to odc-geo, what the oracle's pyproj uses)"""
    if name == "NOEPSG":
        return NOEPSG, NOEPSG
    if name == "STALE":
        return stale_wkt(), STALE_ORACLE
    if name.startswith("WKT:"):
        return pyproj.CRS.from_user_input(name[4:]).to_wkt(), name[4:]
    return name, name


# (grid crs, shape, res, origin, anchor point in grid coordinates, query crs)
X_GRIDS = (
    ("EPSG:3857", (4, 4), (30.0, -30.0), None, (1669792.0, 7170156.0), "EPSG:4326"),
    ("EPSG:32633", (5, 3), (30.0, -30.0), (500000.0, 6000000.0), (500300.0, 6000200.0), "EPSG:4326"),
    ("EPSG:32633", (2, 8), (-30.0, 30.0), None, (412345.0, 5987654.0), "EPSG:4326"),
    ("EPSG:3577", (4, 4), (25.0, -25.0), (3.5, -1.25), (1500000.0, -3900000.0), "EPSG:4326"),
    ("EPSG:3577", (10, 10), (1000.0, -1000.0), None, (1200000.0, -2500000.0), "EPSG:4326"),
    ("EPSG:4326", (4, 4), (0.1, -0.1), (1 / 3, 0.1), (15.05, 54.03), "EPSG:3857"),
    ("EPSG:4326", (5, 3), (0.1, 0.1), None, (-70.3, -33.2), "EPSG:32719"),
    ("NOEPSG", (4, 4), (30.0, -30.0), None, (4400000.0, 3300000.0), "EPSG:4326"),
    ("STALE", (5, 3), (20.0, -40.0), (499980.0, 6000040.0), (532774.0, 5983637.0), "EPSG:4326"),
    ("STALE", (4, 4), (30.0, -30.0), None, (532774.0, 5983637.0), "EPSG:32633"),
    ("EPSG:3857", (4, 4), (30.0, -30.0), (15.0, -15.0), (1224514.0, 6800125.0), "NOEPSG"),
    ("WKT:EPSG:3577", (2, 8), (25.0, -25.0), None, (1500000.0, -3900000.0), "WKT:EPSG:4326"),
)
# name -> (kind, parts in cell units relative to the anchor cell)
X_SHAPES = {
    "rect": ("polygon", [(0.25, 0.25), (1.75, 0.25), (1.75, 2.5), (0.25, 2.5)]),
    "rect-neg": ("polygon", [(-1.5, -0.5), (0.5, -0.5), (0.5, 0.5), (-1.5, 0.5)]),
    "tri": ("polygon", [(0.25, 0.25), (3.25, 0.25), (0.25, 3.25)]),
    "L": ("polygon", [(0.25, 0.25), (2.75, 0.25), (2.75, 0.75), (0.75, 0.75), (0.75, 2.75), (0.25, 2.75)]),
    "diamond": ("polygon", [(-1.25, 1.5), (1.5, -1.25), (4.25, 1.5), (1.5, 4.25)]),
    "native-box": ("native-box", None),  # axis-aligned box in the query CRS covering cells (0.25,0.25)-(2.75,1.75)
    "islands-row": ("multipolygon", [[(-1.75, 0.25), (-1.25, 0.25), (-1.25, 0.75), (-1.75, 0.75)],
                                     [(2.25, 0.25), (2.75, 0.25), (2.75, 0.75), (2.25, 0.75)]]),
    "islands-column": ("multipolygon", [[(0.25, -1.75), (0.75, -1.75), (0.75, -1.25), (0.25, -1.25)],
                                        [(0.25, 2.25), (0.75, 2.25), (0.75, 2.75), (0.25, 2.75)]]),
    "point": ("point", [(0.5, 0.5)]),
    "line": ("line", [(0.25, 0.5), (2.5, 1.5), (2.5, 3.5)]),
    "collection": ("collection", [[(0.5, 0.5)], [(2.25, 2.25), (2.75, 2.75)],
                                  [(4.25, 0.25), (4.75, 0.25), (4.75, 0.75), (4.25, 0.75)]]),
}
_TR = {}


def transformer(a, b):
    t = _TR.get((a, b))
    if t is None:
        t = _TR[(a, b)] = pyproj.Transformer.from_crs(pyproj.CRS.from_user_input(a), pyproj.CRS.from_user_input(b),
                                                      always_xy=True)
    return t


def gen_xcrs(tier):
    def gen():
        for gi in range(len(X_GRIDS)):
            for fx, fy in FLIPS:
                for name in X_SHAPES:
                    for orient in ("ccw", "cw"):
                        if orient == "cw" and X_SHAPES[name][0] not in ("polygon", "native-box"):
                            continue
                        yield (gi, fx, fy, name, orient)

    return gen


def _densify(path, tr, closed):
    out = []
    n = len(path)
    for i in range(n if closed else n - 1):
        (ax, ay), (bx, by) = path[i], path[(i + 1) % n]
        for s in range(16):
            t = s / 16
            out.append(tr.transform(ax + (bx - ax) * t, ay + (by - ay) * t))
    if not closed:
        out.append(tr.transform(*path[-1]))
    return out


def run_xcrs(case):
    gi, fx, fy, name, orient = case
    crs_name, shp, res, org, anchor, qcrs_name = X_GRIDS[gi]
    crs, crs_o = crs_arg(crs_name)
    qcrs, qcrs_o = crs_arg(qcrs_name)
    spec = ("R", crs, shp, res, org, fx, fy)
    gs, m = grid(spec)
    k = gk(spec)
    kx0 = math.floor((Fr(anchor[0]) - m.ox) / m.W)
    ky0 = math.floor((Fr(anchor[1]) - m.oy) / m.H)
    inv = transformer(crs_o, qcrs_o)
    fwd = transformer(qcrs_o, crs_o)

    def q_xy(p):
        return inv.transform(float(m.ox + (kx0 + Fr(p[0])) * m.W), float(m.oy + (ky0 + Fr(p[1])) * m.H))

    kind, parts = X_SHAPES[name]
    if kind == "native-box":
        cs = [q_xy(p) for p in ((0.25, 0.25), (2.75, 0.25), (2.75, 1.75), (0.25, 1.75))]
        x0, x1 = min(c[0] for c in cs), max(c[0] for c in cs)
        y0, y1 = min(c[1] for c in cs), max(c[1] for c in cs)
        qring = [(x0, y0), (x1, y0), (x1, y1), (x0, y1)]
        g = geom.box(x0, y0, x1, y1, qcrs) if orient == "ccw" else geom.polygon(qring[::-1] + qring[-1:], qcrs)
        members = [("polygon", qring)]
    elif kind == "polygon":
        qring = [q_xy(p) for p in parts]
        if orient == "cw":
            qring = qring[::-1]
        g = geom.polygon(qring + qring[:1], qcrs)
        members = [("polygon", qring)]
    else:
        pts = [[q_xy(q) for q in p] if isinstance(p, list) else q_xy(p) for p in parts]
        g, _G, _f = make_query(kind, pts, qcrs)
        if kind == "multipolygon":
            members = [("polygon", p) for p in pts]
        elif kind == "collection":
            members = [("point", [pts[0][0]]), ("line", pts[1]), ("polygon", pts[2])]
        else:
            members = [(kind, pts)]
    what = f"GridSpec({crs_name}, {spec[2:]}).tiles_from_geopolygon({name} {orient} in {qcrs_name}: {g.wkt[:300]})"
    r = R()
    returned = [tuple(i) for i, _ in gs.tiles_from_geopolygon(g)]
    # oracle: densified image of the query (true shape) vs image of its vertices (what a vertex-wise
    # transformation sees); tiles within the margin of the boundary are left open
    dense, chord = [], []
    for mk, path in members:
        if mk == "point":
            dense.append(sg.Point(fwd.transform(*path[0])))
            chord.append(dense[-1])
        elif mk == "line":
            dense.append(sg.LineString(_densify(path, fwd, False)))
            chord.append(sg.LineString([fwd.transform(*q) for q in path]))
        else:
            dense.append(sg.Polygon(_densify(path, fwd, True)))
            chord.append(sg.Polygon([fwd.transform(*q) for q in path]))
    assert all(d.is_valid for d in dense + chord), case
    dev = max(d.hausdorff_distance(c) for d, c in zip(dense, chord))
    Gd = dense[0] if len(dense) == 1 else sg.GeometryCollection(dense)
    pixel = float(max(m.px, m.py))
    bx0, by0, bx1, by1 = Gd.bounds
    maxabs = max(abs(v) for v in (bx0, by0, bx1, by1))
    margin = 2 * dev + 1e-2 * pixel + 4e-9 * maxabs
    classify = generic_classifier(Gd, None, margin)
    qb = (Fr(bx0), Fr(by0), Fr(bx1), Fr(by1))
    cand = m.cells(qb, pad=2)
    nreq, nforb, nopen = judge_tiles(r, m, None, returned, cand, classify, f"tiles_from_geopolygon:other-crs:{kind}",
                                     f"{crs_name}<-{qcrs_name}:{k}", what)
    inbox = sum(1 for idx in cand if rect_depth(qb, m.fp(*idx)) >= Fr(margin) and classify(m.fp(*idx)) == "forbid:disjoint")
    r.outcome = f"x:{crs_name}<-{qcrs_name}:{name}:n{min(len(returned), 12)}:open{min(nopen, 3)}:filtered{min(inbox, 3)}"
    r.nontrivial = nreq > 0
    return r


# ---------------------------------------------------------------------------------------------
# slice 6: web tiles against the slippy-map formula
# ---------------------------------------------------------------------------------------------
RE = 6378137.0
_WEB = {}


def web(z, npix):
    g = _WEB.get((z, npix))
    if g is None:
        g = _WEB[(z, npix)] = GridSpec.web_tiles(z, npix)
    return g


def gen_web(tier):
    zmax = 12 if tier == "thorough" else 8

    def gen():
        for npix in (256, 512):
            for z in list(range(0, zmax + 1)) + ([16, 20] if tier == "thorough" else [16]):
                n = 2 ** z
                vals = range(n) if z <= 4 else sorted({0, 1, n // 2 - 1, n // 2, n - 2, n - 1})
                for tx in vals:
                    for ty in vals:
                        yield ("tile", z, npix, tx, ty)
                yield ("count", z, npix, 0, 0)
        for z in (0, 1, 3):
            for tx in (-1, 2 ** z):  # the grid continues beyond the map: indices outside [0, 2^z)
                yield ("tile", z, 256, tx, 0)

    return gen


def run_web(case):
    kind, z, npix, tx, ty = case
    gs = web(z, npix)
    n = 2 ** z
    half = math.pi * RE
    tsz = 2 * half / n
    pixel = tsz / npix
    r = R(outcome=f"web:{kind}:z{z}")
    what = f"web_tiles({z},{npix})"

    def near(a, b):
        # R tolerance; the magnitude is that of the coordinates the grid is built from (the map corner
        # +-pi*R), not of the result, which cancels to ~0 for tiles at the map centre
        # ulp based: tile edges are extrapolated over up to n tile sizes measured at the map corner
        return abs(a - b) <= 2.0 ** -52 * half * (4 + 2 * n) + 1e-9 * pixel

    if kind == "tile":
        gb = gs[tx, ty]
        F = gb_fp(gb)
        if F is None:
            return r.fail("web_tiles:bad-geobox", f"{what}[{tx},{ty}] affine {tuple(gb.affine)[:6]}")
        F = tuple(float(v) for v in F)
        want = (-half + tx * tsz, half - (ty + 1) * tsz, -half + (tx + 1) * tsz, half - ty * tsz)
        bad = [nm for nm, a, b in zip(("x0", "y0", "x1", "y1"), F, want) if not near(a, b)]
        if bad:
            r.fail(f"web_tiles:extent:{bad[0][0]}", f"{what}[{tx},{ty}] footprint {F} but slippy-map extent is {want}")
        if (gb.shape.y, gb.shape.x) != (npix, npix):
            r.fail("web_tiles:shape", f"{what}[{tx},{ty}] shape {gb.shape}")
        rx, ry = gb.resolution.xy
        if not (abs(abs(rx) - pixel) <= 1e-9 * pixel and abs(abs(ry) - pixel) <= 1e-9 * pixel):
            r.fail("web_tiles:resolution", f"{what}[{tx},{ty}] resolution {(rx, ry)} want +-{pixel}")
        if gb.crs is None or gb.crs.epsg != 3857:
            r.fail("web_tiles:crs", f"{what} crs {gb.crs}")
        if 0 <= tx < n and 0 <= ty < n:
            # slippy-map convention in lon/lat: points inside tile (tx,ty) at zoom z
            tr = transformer("EPSG:4326", "EPSG:3857")
            for fu, fv in ((0.5, 0.5), (0.25, 0.75), (0.9, 0.1)):
                lon = (tx + fu) / n * 360.0 - 180.0
                lat = math.degrees(math.atan(math.sinh(math.pi * (1 - 2 * (ty + fv) / n))))
                x, y = tr.transform(lon, lat)
                J = gs.pt2idx(x, y).xy
                if tuple(J) != (tx, ty):
                    r.fail("web_tiles:pt2idx-vs-slippy-formula",
                           f"{what}: lon/lat {(lon, lat)} is in slippy tile {(tx, ty)} but pt2idx -> {J}")
        r.outcome += ":in" if 0 <= tx < n else ":outside"
        return r
    # count: 2^z tiles per side cover exactly the map square
    F = gb_fp(gs[n - 1, n - 1])
    if F is None or not (near(float(F[2]), half) and near(float(F[1]), -half)):
        r.fail("web_tiles:count:last-tile-corner", f"{what}[{n - 1},{n - 1}] footprint {fmt(F)}; map corner {(half, -half)}")
    if not (near(gs.tile_size.x * n, 2 * half) and near(gs.tile_size.y * n, 2 * half)):
        r.fail("web_tiles:count:tile-size", f"{what} tile_size {gs.tile_size} * {n} != {2 * half}")
    world = BoundingBox(-half + pixel, -half + pixel, half - pixel, half - pixel, "EPSG:3857")
    ib = tuple(int(v) for v in gs.idx_bounds(world))
    if ib != (0, 0, n, n):
        r.fail("web_tiles:count:idx_bounds-of-map", f"{what}.idx_bounds(map square) = {ib}, want {(0, 0, n, n)}")
    if z <= 5:
        got = sorted(tuple(i) for i, _ in gs.tiles(world))
        if got != sorted((i, j) for i in range(n) for j in range(n)):
            r.fail("web_tiles:count:tiles-of-map", f"{what}.tiles(map square) returned {len(got)} tiles, want {n * n}")
        r.outcome += ":enumerated"
    return r


# ---------------------------------------------------------------------------------------------
# slice 7: the same grid / index / point / query given in other encodings behaves identically
# ---------------------------------------------------------------------------------------------
ENC_BASES = tuple(("D", "EPSG:3857", shp, res, org, fx, fy)
                  for shp in ((2, 8), (5, 3)) for res in ((0.5, -0.5), (-2.0, 4.0), (8.0, -8.0))
                  for org in (None, (3.5, -1.25), (0.0, 2.5)) for fx, fy in FLIPS)
ENC_VARIANTS = ("crs-int", "crs-lower", "crs-upper", "crs-wkt", "crs-projjson", "crs-pyproj", "crs-CRS",
                "shape-list", "shape-Shape2d", "shape-wh", "shape-numpy", "res-int", "res-np64", "res-np32", "res-yx",
                "res-scalar", "origin-yx", "origin-np64", "origin-np32", "origin-int", "origin-tuple-form",
                "origin-negzero", "origin-explicit-zero", "flips-int", "flips-numpy", "positional", "all-at-once")
PROBE_IDX = ((0, 0), (1, -2), (-3, 2), (2, 1))


def _np():
    import numpy as np  # pylint: disable=import-outside-toplevel
    return np


def build_variant(spec, var):
    """-> GridSpec built from equal-but-differently-typed arguments, or None when the variant does not apply"""
    from odc.geo import res_, resyx_, wh_, yx_  # pylint: disable=import-outside-toplevel
    from odc.geo.crs import CRS  # pylint: disable=import-outside-toplevel
    from odc.geo.types import shape_  # pylint: disable=import-outside-toplevel
    np = _np()
    _a, crs, (ny, nx), (rx, ry), org, fx, fy = spec
    kw = dict(crs=crs, tile_shape=(ny, nx), resolution=resxy_(rx, ry),
              origin=None if org is None else xy_(*org), flipx=fx, flipy=fy)
    code = int(crs.split(":")[1])
    every = var == "all-at-once"
    if var == "crs-int" or every:
        kw["crs"] = code
    if var == "crs-lower":
        kw["crs"] = f"epsg:{code}"
    if var == "crs-upper":
        kw["crs"] = f"EPSG:{code}"
    if var == "crs-wkt":
        kw["crs"] = pyproj.CRS.from_epsg(code).to_wkt()
    if var == "crs-projjson":
        kw["crs"] = pyproj.CRS.from_epsg(code).to_json_dict()
    if var == "crs-pyproj":
        kw["crs"] = pyproj.CRS.from_epsg(code)
    if var == "crs-CRS":
        kw["crs"] = CRS(f"epsg:{code}")
    if var == "shape-list":
        kw["tile_shape"] = [ny, nx]
    if var == "shape-Shape2d":
        kw["tile_shape"] = shape_((ny, nx))
    if var == "shape-wh":
        kw["tile_shape"] = wh_(nx, ny)
    if var == "shape-numpy" or every:
        kw["tile_shape"] = (np.int64(ny), np.int32(nx))
    integral = float(rx).is_integer() and float(ry).is_integer()
    if var == "res-int":
        if not integral:
            return None
        kw["resolution"] = resxy_(int(rx), int(ry))
    if var == "res-np64":
        kw["resolution"] = resxy_(np.float64(rx), np.float64(ry))
    if var == "res-np32" or every:
        kw["resolution"] = resxy_(np.float32(rx), np.float32(ry))
    if var == "res-yx":
        kw["resolution"] = resyx_(ry, rx)
    if var == "res-scalar":
        if not (rx > 0 and ry == -rx):
            return None
        kw["resolution"] = rx if not integral else int(rx)
    if var.startswith("origin-"):
        ox, oy = (0.0, 0.0) if org is None else org
        if var == "origin-yx":
            kw["origin"] = yx_(oy, ox)
        elif var == "origin-np64":
            kw["origin"] = xy_(np.float64(ox), np.float64(oy))
        elif var == "origin-np32":
            kw["origin"] = xy_(np.float32(ox), np.float32(oy))
        elif var == "origin-int":
            if not (float(ox).is_integer() and float(oy).is_integer()):
                return None
            kw["origin"] = xy_(int(ox), int(oy))
        elif var == "origin-tuple-form":
            kw["origin"] = xy_((ox, oy))
        elif var == "origin-negzero":
            if ox != 0 and oy != 0:
                return None
            kw["origin"] = xy_(-0.0 if ox == 0 else ox, -0.0 if oy == 0 else oy)
        elif var == "origin-explicit-zero":
            if org is not None:
                return None
            kw["origin"] = xy_(0, 0)
    if every and org is not None:
        kw["origin"] = yx_(np.float64(org[1]), np.float32(org[0]))
    if var == "flips-int" or every:
        kw["flipx"], kw["flipy"] = int(fx), int(fy)
    if var == "flips-numpy":
        kw["flipx"], kw["flipy"] = np.bool_(fx), np.bool_(fy)
    if var == "positional":
        return GridSpec(kw["crs"], kw["tile_shape"], kw["resolution"], kw["origin"], kw["flipx"], kw["flipy"])
    return GridSpec(**kw)


def gen_enc(tier):
    def gen():
        for spec in ENC_BASES:
            for var in ENC_VARIANTS:
                yield (spec, var)
            yield (spec, "call-encodings")

    return gen


def probe_queries(m, crs):
    """Fixed clear queries in cell units (every relation to a tile is exact-clear): bbox, L polygon"""
    X = lambda u: float(m.ox + Fr(u) * m.W)  # noqa: E731
    Y = lambda v: float(m.oy + Fr(v) * m.H)  # noqa: E731
    bb = (X(0.25), Y(-1.75), X(2.5), Y(0.75))
    ring = [(X(u), Y(v)) for u, v in ((-1.75, -0.75), (1.75, -0.75), (1.75, -0.25), (-1.25, -0.25), (-1.25, 2.75), (-1.75, 2.75))]
    pieces = [Piece([(Fr(X(a)), Fr(Y(b))) for a, b in pc]) for pc in
              ([(-1.75, -0.75), (1.75, -0.75), (1.75, -0.25), (-1.75, -0.25)],
               [(-1.75, -0.75), (-1.25, -0.75), (-1.25, 2.75), (-1.75, 2.75)])]
    return bb, ring, pieces


_EXPECT = {}


def expected(spec, m):
    """State-independent expectations for the probe (exact model)."""
    e = _EXPECT.get(spec)
    if e is None:
        bb, ring, pieces = probe_queries(m, spec[1])
        q = tuple(Fr(v) for v in bb)
        tb = sorted(i for i in m.cells(q) if classify_bbox(m, q, m.fp(*i), False, 0) == "req")
        xs, ys = [x for x, _ in ring], [y for _, y in ring]
        qb = (Fr(min(xs)), Fr(min(ys)), Fr(max(xs)), Fr(max(ys)))
        cls = {i: classify_poly(pieces, m.fp(*i), exact=True) for i in m.cells(qb)}
        assert "open" not in cls.values() and all(classify_bbox(m, q, m.fp(*i), False, 0) != "open" for i in m.cells(q))
        tp = sorted(i for i, c in cls.items() if c == "req")
        e = _EXPECT[spec] = dict(fps=tuple(m.fp(*i) for i in PROBE_IDX), pts=PROBE_IDX, tiles=tb, poly=tp)
    return e


def observe(gs, spec, m, cache=None):
    crs = spec[1]
    bb, ring, _ = probe_queries(m, crs)
    fps = tuple(gb_fp(gs[i]) for i in PROBE_IDX)
    pts = tuple(tuple(gs.pt2idx(float((f[0] + f[2]) / 2), float((f[1] + f[3]) / 2)).xy) for f in (m.fp(*i) for i in PROBE_IDX))
    bounds = BoundingBox(*bb, crs)
    got = list(gs.tiles(bounds)) if cache is None else list(gs.tiles(bounds, geobox_cache=cache))
    poly = geom.polygon(ring + ring[:1], crs)
    gotp = list(gs.tiles_from_geopolygon(poly)) if cache is None else list(gs.tiles_from_geopolygon(poly, geobox_cache=cache))
    gbs_ok = all(gb_fp(g) == m.fp(*i) and (g.shape.y, g.shape.x) == tuple(spec[2]) and g.resolution.xy == tuple(spec[3])
                 for i, g in got + gotp)
    ib = tuple(int(v) for v in gs.idx_bounds(bounds))
    return dict(fps=fps, pts=pts, tiles=sorted(tuple(i) for i, _ in got), poly=sorted(tuple(i) for i, _ in gotp),
                geoboxes_ok=gbs_ok, idx_bounds=ib,
                types=all(isinstance(v, int) for p in pts for v in p) and all(isinstance(v, int) for i, _ in got for v in i))


def compare_obs(r, obs, exp, key, what):
    for f in ("fps", "pts", "tiles", "poly"):
        if tuple(obs[f]) != tuple(exp[f]):
            r.fail(f"{key}:{f}", f"{what}: {f} = {obs[f] if f != 'fps' else [fmt(x) for x in obs[f]]} "
                                 f"want {exp[f] if f != 'fps' else [fmt(x) for x in exp[f]]}")
    if not obs["geoboxes_ok"]:
        r.fail(f"{key}:returned-geoboxes", f"{what}: a GeoBox returned by a query differs from the grid definition")
    if not obs["types"]:
        r.fail(f"{key}:index-types", f"{what}: indices are not python ints")


def run_enc(case):
    np = _np()
    from odc.geo import ixy_, iyx_  # pylint: disable=import-outside-toplevel
    from odc.geo.crs import CRS  # pylint: disable=import-outside-toplevel
    spec, var = case
    base, m = grid(spec)
    exp = expected(spec, m)
    crs = spec[1]
    r = R(outcome=var)
    what = f"GridSpec{spec[1:]} variant {var}"
    if var != "call-encodings":
        gs = build_variant(spec, var)
        if gs is None:
            r.outcome += ":n/a"
            r.nontrivial = False
            return r
        compare_obs(r, observe(gs, spec, m), exp, f"encoding:{var}", what)
        if not (gs == base and base == gs) or gs != base:
            r.fail(f"encoding:{var}:not-equal", f"{what}: grid built from equal arguments compares unequal to the canonical one")
        if tuple(gs.tile_size.xy) != (float(m.W), float(m.H)) or (gs.tile_shape.y, gs.tile_shape.x) != tuple(spec[2]):
            r.fail(f"encoding:{var}:tile_size", f"{what}: tile_size {gs.tile_size} tile_shape {gs.tile_shape}")
        return r
    # call arguments in other encodings on the canonical grid
    gs = base
    for i, want in zip(PROBE_IDX, exp["fps"]):
        ix, iy = i
        for name, arg in (("Index2d-xy", ixy_(ix, iy)), ("Index2d-yx", iyx_(iy, ix)), ("numpy-ints", (np.int64(ix), np.int32(iy))),
                          ("Index2d-from-numpy-tuple", ixy_((np.int64(ix), np.int64(iy)))), ("XY-int", xy_(ix, iy))):
            for fn, f in (("tile_geobox", gs.tile_geobox), ("getitem", gs.__getitem__)):
                if gb_fp(f(arg)) != want:
                    r.fail(f"encoding:index:{name}:{fn}", f"{what}: {fn}({arg!r}) footprint {fmt(gb_fp(f(arg)))} want {fmt(want)}")
        if gb_fp(gs[ix, iy]) != want:
            r.fail("encoding:index:two-args:getitem", f"{what}: gs[{ix},{iy}]")
        cx, cy = float((want[0] + want[2]) / 2), float((want[1] + want[3]) / 2)  # dyadic, exact in float32 too
        for name, P in (("np64", (np.float64(cx), np.float64(cy))), ("np32", (np.float32(cx), np.float32(cy))),
                        ("int", (int(cx), int(cy)) if cx.is_integer() and cy.is_integer() else None)):
            if P is not None and float(P[0]) == cx and float(P[1]) == cy:
                J = gs.pt2idx(*P)
                if tuple(J.xy) != i or not all(isinstance(v, int) for v in J.xy):
                    r.fail(f"encoding:point:{name}", f"{what}: pt2idx{P!r} -> {J!r} want {i}")
    bb, ring, _ = probe_queries(m, crs)
    code = int(crs.split(":")[1])
    for name, c in (("int", code), ("lower", f"epsg:{code}"), ("wkt", pyproj.CRS.from_epsg(code).to_wkt()),
                    ("CRS-wkt", CRS(pyproj.CRS.from_epsg(code).to_wkt())), ("pyproj", pyproj.CRS.from_epsg(code)),
                    ("projjson", pyproj.CRS.from_epsg(code).to_json_dict())):
        got = sorted(tuple(i) for i, _ in gs.tiles(BoundingBox(*bb, c)))
        if got != exp["tiles"]:
            r.fail(f"encoding:bbox-crs:{name}", f"{what}: tiles(BoundingBox(.., crs={name})) -> {got} want {exp['tiles']}")
        got = sorted(tuple(i) for i, _ in gs.tiles_from_geopolygon(geom.polygon(ring + ring[:1], c)))
        if got != exp["poly"]:
            r.fail(f"encoding:polygon-crs:{name}", f"{what}: tiles_from_geopolygon(polygon(.., crs={name})) -> {got} want {exp['poly']}")
    got = sorted(tuple(i) for i, _ in gs.tiles(BoundingBox(*(np.float64(v) for v in bb), crs)))
    if got != exp["tiles"]:
        r.fail("encoding:bbox-coords:np64", f"{what}: -> {got} want {exp['tiles']}")
    lst = [[x, y] for x, y in ring + ring[:1]]
    got = sorted(tuple(i) for i, _ in gs.tiles_from_geopolygon(geom.polygon(lst, crs)))
    if got != exp["poly"]:
        r.fail("encoding:polygon-coords:lists", f"{what}: -> {got} want {exp['poly']}")
    # from_sample_tile with shape / idx in other encodings
    ny, nx = spec[2]
    from odc.geo import wh_  # pylint: disable=import-outside-toplevel
    for name, shp, idx in (("list-Index2d", [ny, nx], ixy_(2, 1)), ("wh-numpy", wh_(nx, ny), (np.int64(2), np.int32(1))),
                           ("numpy-yx", (np.int32(ny), np.int64(nx)), iyx_(1, 2))):
        g2 = GridSpec.from_sample_tile(gs[2, 1].extent, shape=shp, idx=idx, flipx=spec[5], flipy=spec[6])
        if tuple(gb_fp(g2[i]) for i in PROBE_IDX) != exp["fps"]:
            r.fail(f"encoding:from_sample_tile:{name}", f"{what}: rebuilt footprints differ")
    return r


# ---------------------------------------------------------------------------------------------
# slice 8: call histories on ONE instance; the probe after the history must answer like the model and like a fresh
# instance (instance memo, shared geobox_cache, process-wide caches keyed by id / zoom must not leak)
# ---------------------------------------------------------------------------------------------
H_BASES = tuple(("D", "EPSG:3857", shp, res, (3.5, -1.25), fx, fy)
                for shp, res in (((2, 8), (-2.0, 4.0)), ((4, 4), (0.5, -0.5))) for fx, fy in FLIPS)
H_OPS = ("geobox+views", "geobox-far", "pt2idx", "tiles", "tiles-cache", "poly", "poly-cache", "poly-other-crs",
         "idx_bounds", "geojson", "rebuild", "props", "other-grids", "web", "empty-query", "many-live-grids")


def h_apply(op, gs, spec, m, cache):
    crs = spec[1]
    bb, ring, _ = probe_queries(m, crs)
    X = lambda u: float(m.ox + Fr(u) * m.W)  # noqa: E731
    Y = lambda v: float(m.oy + Fr(v) * m.H)  # noqa: E731
    if op == "geobox+views":
        for i in ((1, -2), (0, 0), (5, 5)):
            g = gs.tile_geobox(i)
            _ = (g.extent, g.boundingbox, g.resolution, g.alignment)
            if i == (0, 0):
                _ = g.geographic_extent
    elif op == "geobox-far":
        _ = [gs[i] for i in FAR]
    elif op == "pt2idx":
        _ = [gs.pt2idx(X(u), Y(v)) for u, v in ((0.5, 0.5), (-7.25, 3.0), (1.0, 1.0))]
    elif op == "tiles":
        _ = list(gs.tiles(BoundingBox(X(-3.5), Y(-3.5), X(-2.5), Y(4.5), crs)))
    elif op == "tiles-cache":
        _ = list(gs.tiles(BoundingBox(X(-0.5), Y(-2.5), X(3.5), Y(1.5), crs), geobox_cache=cache))
    elif op == "poly":
        tri = [(X(-2), Y(-2)), (X(2), Y(-2)), (X(-2), Y(2))]
        _ = list(gs.tiles_from_geopolygon(geom.polygon(tri + tri[:1], crs)))
    elif op == "poly-cache":
        tri = [(X(3), Y(3)), (X(-1), Y(3)), (X(3), Y(-1))]
        for g in [g for _, g in gs.tiles_from_geopolygon(geom.polygon(tri + tri[:1], crs), geobox_cache=cache)]:
            _ = g.extent
    elif op == "poly-other-crs":
        inv = transformer(crs, "EPSG:4326")
        rg = [inv.transform(X(u), Y(v)) for u, v in ((0.25, 0.25), (1.75, 0.25), (1.75, 1.5), (0.25, 1.5))]
        _ = list(gs.tiles_from_geopolygon(geom.polygon(rg + rg[:1], "EPSG:4326"), geobox_cache=cache))
    elif op == "idx_bounds":
        _ = gs.idx_bounds(BoundingBox(X(0), Y(0), X(1), Y(1), crs))
    elif op == "geojson":
        _ = gs.geojson(bbox=BoundingBox(X(-1.5), Y(-1.5), X(0.5), Y(0.5), crs))
    elif op == "rebuild":
        g2 = GridSpec.from_sample_tile(gs[-2, 3].extent, shape=spec[2], idx=(-2, 3), flipx=spec[5], flipy=spec[6])
        _ = (g2 == gs, list(g2.tiles(BoundingBox(*bb, crs))))
    elif op == "props":
        _ = (gs.alignment, gs.tile_size, gs.tile_shape, gs.dimensions, str(gs), repr(gs), gs == gs, gs == mk_grid(spec))
    elif op == "other-grids":
        # short-lived grids with the same indices / queries (ids of dead objects get reused)
        for org, fl in (((-16.0, 32.0), (not spec[5], spec[6])), ((0.0, 2.5), (spec[5], not spec[6])), (None, (False, False))):
            g2 = mk_grid(spec[:4] + (org, fl[0], fl[1]))
            _ = ([g2[i] for i in PROBE_IDX], list(g2.tiles(BoundingBox(*bb, crs))))
            del g2
    elif op == "web":
        _ = (GridSpec.web_tiles(3, 512)[1, 2], GridSpec.web_tiles(3)[1, 2], GridSpec.web_tiles(2, 128)[1, 2])
    elif op == "many-live-grids":
        # more than 128 live grids, each used once (bounded process-wide caches must not evict into wrong answers)
        live = [mk_grid(spec[:4] + ((float(i), -0.5 * i), spec[5], spec[6])) for i in range(1, 140)]
        _ = [g[1, -2] for g in live] + [g.pt2idx(0.5, 0.5) for g in live[:5]]
    elif op == "empty-query":
        _ = list(gs.tiles_from_geopolygon(geom.Geometry(sg.Polygon(), crs), geobox_cache=cache))
    else:
        raise ValueError(op)


def gen_hist(tier):
    def gen():
        for si, spec in enumerate(H_BASES):
            depth = 3 if (tier == "thorough" or si in (1, 6)) else 2
            for n in range(1, depth + 1):
                for ops in itertools.product(range(len(H_OPS)), repeat=n):
                    yield (spec, ops)
        if tier == "thorough":
            for spec in (H_BASES[1], H_BASES[6]):
                for ops in itertools.product(range(len(H_OPS)), repeat=4):
                    yield (spec, ops)
        for a in WEB_H:
            for b in WEB_H:
                for c in WEB_H:
                    yield ("web", (a, b, c))

    return gen


WEB_H = ((3, 256), (3, 512), (5, 256), (3, 128), (5, 512))


def run_hist(case):
    spec, ops = case
    if spec == "web":
        r = R(outcome="web-history")
        half = math.pi * RE
        for z, npix in ops[:-1]:
            _ = GridSpec.web_tiles(z, npix)[0, 0]
        z, npix = ops[-1]
        for gs, how in ((GridSpec.web_tiles(z, npix), "positional"), (GridSpec.web_tiles(zoom=z, npix=npix), "keywords")) + \
                (((GridSpec.web_tiles(z), "default-npix"),) if npix == 256 else ()):
            gb = gs[1, 2]
            tsz = 2 * half / 2 ** z
            F = gb_fp(gb)
            want = (-half + tsz, half - 3 * tsz, -half + 2 * tsz, half - 2 * tsz)
            ok = F is not None and all(abs(float(a) - b) <= 2.0 ** -52 * half * (4 + 2 ** (z + 1)) + 1e-9 * tsz / npix for a, b in zip(F, want))
            if not ok or (gb.shape.y, gb.shape.x) != (npix, npix) or abs(abs(gb.resolution.x) - tsz / npix) > 1e-9 * tsz / npix:
                r.fail(f"history:web_tiles:{how}", f"after web_tiles{ops[:-1]}: web_tiles({z},{npix})[1,2] shape {gb.shape} "
                                                   f"resolution {gb.resolution} footprint {fmt(F)} want {want}")
        return r
    m = Model(spec)
    exp = expected(spec, m)
    gs = mk_grid(spec)
    cache = {}
    names = [H_OPS[o] for o in ops]
    for op in names:
        h_apply(op, gs, spec, m, cache)
    r = R(outcome=f"len{len(ops)}:last-{names[-1]}")
    what = f"GridSpec{spec[1:]} after {names}"
    o1 = observe(gs, spec, m)
    compare_obs(r, o1, exp, "history:probe", what)
    o2 = observe(gs, spec, m, cache)
    compare_obs(r, o2, exp, "history:probe-with-shared-cache", what)
    fresh = observe(mk_grid(spec), spec, m)
    if fresh != o1 or fresh != o2:
        diff = [f for f in fresh if fresh[f] != o1[f] or fresh[f] != o2[f]]
        r.fail(f"history:differs-from-fresh-instance:{diff[0]}", f"{what}: {diff} differ between the used and a fresh instance")
    bad = [i for i, g in cache.items() if gb_fp(g) != m.fp(*i)]
    if bad:
        r.fail("history:shared-geobox_cache-holds-wrong-geobox", f"{what}: cache entries {bad[:4]}")
    return r


# ---------------------------------------------------------------------------------------------
def slices(tier):
    return [
        e1.Slice("tiling", gen_tiling(tier), run_tiling,
                 "grid specs (D and R) x tile indices in the window + 2 far indices: GeoBox shape/resolution, footprint vs "
                 "documented layout, pairwise disjoint interiors, 8 neighbours share edges, 13 point lookups"),
        e1.Slice("rebuild", gen_rebuild(tier), run_rebuild,
                 "from_sample_tile from every tile of the window (+2 far), 2 geometry forms; footprints of all window "
                 "indices compared with the original grid"),
        e1.Slice("query-bbox", gen_bbox(tier), run_bbox,
                 "grid specs x (x-interval x y-interval): edges on lattice lines with offsets 0, +-1e-9, +-1e-6, +-quarter "
                 "tile; tiles() and idx_bounds()"),
        e1.Slice("query-poly", gen_poly(tier), run_poly,
                 "D grid specs x 30 polygon shapes (rect, triangles, diamonds, L, frame with hole, multipolygon; offsets "
                 "0, +-1e-9, +-2^-10) x 2 base cells x 2 ring orientations; exact separating-axis oracle"),
        e1.Slice("query-geomtypes", gen_geomtypes(tier), run_geomtypes,
                 "D grid specs x 31 query geometries of every type (points, lines, rings, multi-part incl. single-part, "
                 "collections, repeated vertices, empty, CRS-less) x 2 base cells; oracle shapely on raw shapes"),
        e1.Slice("query-other-crs", gen_xcrs(tier), run_xcrs,
                 "7 grids (3857, UTM, Albers, 4326) x flips x 6 shapes given in another CRS; oracle pyproj+shapely with "
                 "margin = 2x chord deviation", shards=16),
        e1.Slice("encodings", gen_enc(tier), run_enc,
                 "72 D grids x 27 constructor-argument encodings (CRS spellings, numpy/int/list/Shape2d/Resolution/XY/"
                 "-0.0/flags as ints) + index/point/bbox/polygon/from_sample_tile argument encodings; exact model + =="),
        e1.Slice("history", gen_hist(tier), run_hist,
                 "8 D grids x every sequence of <= 2 (on 2 grids <= 3; thorough: <= 3 on all, 4 on 2) of 16 operations on ONE instance with a "
                 "shared geobox_cache, then a probe judged by the exact model and against a fresh instance; web_tiles "
                 "call histories over (zoom, npix)"),
        e1.Slice("web-tiles", gen_web(tier), run_web,
                 "web_tiles(z, npix) z=0..8 (thorough 0..12), npix 256/512: every tile for z<=4, border/centre tiles "
                 "above; extents vs slippy-map formula, lon/lat lookups, 2^z count", shards=16),
    ]


def main(ctx):
    ctx.rule = (
        "complete Cartesian products: grid specs (tile shape x resolution incl. sign per axis x origin x flipx x flipy) x "
        "tile indices / query shapes; one case = one (grid, tile) or (grid, query); non-trivial = tile judged (tiling, "
        "rebuild) / at least one tile is required by the oracle (queries); distinct by (slice, case) hash"
    )
    ctx.bounds = {
        "D_shapes": D_SHAPES if ctx.tier != "thorough" else D_SHAPES_T,
        "D_resolutions": D_RES if ctx.tier != "thorough" else D_RES_T,
        "D_origins": D_ORG if ctx.tier != "thorough" else D_ORG_T, "extreme_grids": E_GRIDS,
        "query_geometries": sorted(GEOMS), "encodings": ENC_VARIANTS, "history_ops": H_OPS,
        "R_resolutions": R_RES if ctx.tier != "thorough" else R_RES_T, "R_origins": R_ORG,
        "flips": "all 4", "index_window": "[-3,3]^2 (thorough tiling [-4,4]^2) + far indices " + repr(FAR),
        "bbox_axis_intervals": len(AX_FULL), "bbox_offsets": OFFS, "polygon_shapes": sorted(SHAPES),
        "other_crs_grids": [g[:4] + (g[5],) for g in X_GRIDS], "web_zoom": "0..8 + 16 quick / 0..12 + 16, 20 thorough",
    }
    ctx.assumptions = [
        "layout reference = class docstring: origin is the bottom-left corner of tile (0,0); index grows right/up, "
        "reversed per axis by flipx/flipy (Bin1D direction)",
        "D alphabet: exact comparison; R alphabet: exact rationals of the float inputs, tolerance 16 ulp of (|value| + "
        "|origin|) + 1e-9 pixel (rebuilt grids: times 1 + index distance from the sample tile; web tiles: 2^-52 * pi*R * "
        "(4 + 2*2^z) + 1e-9 pixel) - 1e-13 deg on a 4.5e-6 deg grid at 15 deg, 4e-8 m at 6e6 m",
        "near-edge point lookups (+-1 ulp at the scale of the grid, +-5e-10, +-0.3e-8, +-0.9e-8, +-1.1e-8) are not dyadic: containment in "
        "the returned tile is judged with 4 ulp of (|edge| + |origin| + tile size)",
        "point lookup: the returned tile's closed footprint must contain the point; interior points must map to their "
        "own tile; which of the touching tiles owns an edge/corner point is not demanded (recorded in the outcome label)",
        "bounding-box queries (tiles, idx_bounds, and the same box through tiles_from_geopolygon(geom.box) and "
        "geojson(bbox= / geopolygon=)): overlap depth >= 1.0005e-8 (+R tolerance) in both axes => tile must be returned; "
        "depth <= 0.9995e-8 (edge contact within the property's absolute 1e-8 units, exact touching, gap) => must not be "
        "returned; the band between is open (R grids with large coordinates fall into it through their tolerance); "
        "queries thinner than 1e-7 are only judged for clearly disjoint tiles (gap >= 5e-7)",
        "polygon queries: SAT depth >= 5e-7 => required; gap >= 5e-7 => forbidden; on the dyadic alphabet a tile that "
        "exactly touches the polygon (depth == 0) is forbidden ('edge contacts excluded', repaired in b2fbc6a); other "
        "contacts (within 1e-9) are open and counted in contact_returned/contact_not_returned",
        "queries with non-areal geometries (points, lines, rings) are judged by the same reading: a tile whose interior "
        "clearly (2^-12) contains part of the geometry must be returned, a tile clearly away from it (a ring counted with "
        "the area it encloses) must not; exact contacts are open. An empty geometry overlaps nothing: [] demanded "
        "(repaired in 6bc3118). A geometry without CRS: the documented ValueError of to_crs is accepted",
        "equal-but-differently-typed arguments (encodings slice) must give identical footprints / lookups / tile sets "
        "and == grids; GridSpec defines no __hash__, none is demanded",
        "BoundingBox queries are made in the grid's own CRS only (idx_bounds asserts crs equality; geojson documents "
        "'native CRS of the grid'); other CRSs are exercised through tiles_from_geopolygon",
        "other-CRS queries: tiles closer to the query boundary than 2x the deviation between the projected edge and its "
        "chord (+1% pixel) are not judged",
        "R tolerance scale: |value| is the largest coordinate magnitude entering the computation - for a rebuilt grid "
        "the sample tile's edges as well as the compared tile's, for web tiles the map corner pi*R (tile edges at the map "
        "centre cancel to ~0 and carry the rounding of the corner they are extrapolated from)",
        "GridSpec equality of the rebuilt grid is not demanded (from_sample_tile always yields +x/-y resolution); only "
        "footprints are compared",
    ]
    sl = slices(ctx.tier)
    if ctx.only:
        sl = [s for s in sl if any(s.name.startswith(o) for o in ctx.only)]
    e1.run_slices(ctx, sl)
    ctx.extra["query_contact_tiles"] = {k: int(v) for k, v in ctx.counters.items()}


def replay(slice_name, case, tier):
    return e1.replay(slices(tier), slice_name, case).fails
