"""C09 - xarray geo-registration round-trips and survives array operations.

E2: breadth-first search over sequences of xarray operations (slicing incl. strided/reversed,
arithmetic, astype, copy, pickle, compute) applied to real geo-registered arrays; a state is the live
xarray object, deduplicated on (surviving original rows, columns, dims, dtype, backend).  The
reference model is the pair of index arrays: the recovered GeoBox must map every remaining pixel
centre to the world location it had in the original GeoBox and agree with the coordinate labels.
E1: initial round trip for every GeoBox of the family; reprojection of DataArray / Dataset.
"""
from __future__ import annotations

import math
import pickle
from collections import deque

import numpy as np
import xarray as xr
from affine import Affine

from vf import core, e1
from vf.core import R, h64

PROPERTY = "C09"
LEVEL = "model_checking"

import dask.array as da  # noqa: E402

from odc.geo._xr_interop import SPATIAL_ATTRIBUTES  # noqa: E402
from odc.geo.crs import CRS  # noqa: E402
from odc.geo.gcp import GCPGeoBox, GCPMapping  # noqa: E402
from odc.geo.geobox import GeoBox  # noqa: E402
from odc.geo.xr import wrap_xr, xr_reproject  # noqa: E402

KINDS = ("north-up", "mirrored", "rotated", "sheared", "gcp")
SHAPES = ((4, 5), (1, 5), (4, 1), (1, 1))
CRSS = ("EPSG:3857", "EPSG:4326", "EPSG:32633", None)
LAYOUTS = ("yx", "tyx", "yxb")
BACKENDS = ("numpy", "dask")


def base_affine(kind, crs):
    deg = crs == "EPSG:4326"
    px = 0.25 if deg else 16.0
    ox, oy = (10.0, 40.0) if deg else (1024.0, 4096.0)
    A = Affine(px, 0, ox, 0, -px, oy)
    if kind == "north-up":
        return A
    if kind == "mirrored":
        return Affine(-px, 0, ox, 0, px, oy)
    if kind == "rotated":
        return A * Affine.rotation(30)
    if kind == "sheared":
        return A * Affine.shear(14.0, 0)  # tan(14deg): x depends on y
    raise ValueError(kind)


def make_geobox(kind, shape, crs):
    if kind == "gcp":
        # control points generated from an affine plus a small bilinear term (not an exact affine)
        A = base_affine("north-up", crs)
        pix = np.asarray([(x, y) for y in (0.0, 2.0, 4.0) for x in (0.0, 2.5, 5.0)])
        wld = np.asarray([A * (x + 0.01 * x * y, y) for x, y in pix])
        return GCPGeoBox(shape, GCPMapping(pix, wld, crs))
    return GeoBox(shape, base_affine(kind, crs), crs)


def make_array(kind, shape, crs, layout, backend):
    g = make_geobox(kind, shape, crs)
    full = {"yx": shape, "tyx": (2, *shape), "yxb": (*shape, 3)}[layout]
    data = np.arange(int(np.prod(full)), dtype="int16").reshape(full)
    if backend == "dask":
        data = da.from_array(data, chunks=tuple(max(1, (n + 1) // 2) for n in full))
    tm = ["2020-01-01", "2020-01-02"] if layout == "tyx" else None
    return wrap_xr(data, g, time=tm), g


def valid_combo(kind, shape, crs):
    if kind == "gcp" and crs is None:
        return False  # GCP mapping needs a CRS to be serialised in the spatial_ref coordinate
    if crs is None and 1 in shape:
        return False  # property: single row/column only when a CRS is attached
    return True


# -- reference model --------------------------------------------------------------------------------------------
class St:
    """Live array + reference index arrays."""

    __slots__ = ("xx", "rows", "cols", "hist")

    def __init__(self, xx, rows, cols, hist):
        self.xx, self.rows, self.cols, self.hist = xx, rows, cols, hist

    def key(self):
        """Canonical state: the surviving pixels plus everything the recovery of the GeoBox can read - which coordinates
        and attributes are still attached and what the scalar (CRS) coordinates hold. Two arrays with the same key have
        the same futures under the operations of the alphabet; pixel values and the operation history are dropped."""
        xx = self.xx
        meta = []
        for name, c in xx.coords.items():
            val = repr(c.values.tolist()) if c.ndim == 0 else None
            meta.append((str(name), tuple(c.dims), val, tuple(sorted(map(str, c.attrs))), h64(repr(sorted((str(k), str(v)) for k, v in c.attrs.items())))))
        return (tuple(self.rows), tuple(self.cols), tuple(xx.dims), str(xx.dtype),
                "dask" if isinstance(xx.data, da.Array) else "numpy",
                tuple(sorted(meta)), tuple(sorted(map(str, xx.attrs))), str(xx.encoding.get("grid_mapping")))


SLICES = {"1:": slice(1, None), ":-1": slice(None, -1), "::2": slice(None, None, 2), "::-1": slice(None, None, -1), "1:2": slice(1, 2)}


def events(st: St):
    evs = []
    for ax in ("y", "x"):
        for name in SLICES:
            evs.append(("slice", ax, name))
    evs.append(("slice", "yx", "1:"))
    evs.append(("slice", "yx", "::-1"))
    evs.append(("slice", "yx", "::2"))
    if "time" in st.xx.dims:
        evs.append(("isel-time", 1))
    if "band" in st.xx.dims:
        evs.append(("isel-band", 0))
    evs += [("add1",), ("mul2.0",), ("astype-f32",), ("copy",), ("pickle",)]
    if not any(ev[0] in ("slice", "add-rewrapped") for ev in st.hist):
        # arithmetic with ANOTHER array registered on the same grid (wrapped with the GeoBox recovered from this one, so
        # its CRS object has another provenance); only on unsliced grids, where both label sets come from one GeoBox
        evs.append(("add-rewrapped",))
    if isinstance(st.xx.data, da.Array):
        evs.append(("compute",))
    return evs


def step(st: St, ev, ydim, xdim) -> St:
    xx, rows, cols = st.xx, st.rows, st.cols
    k = ev[0]
    if k == "slice":
        sl = SLICES[ev[2]]
        idx = {}
        if "y" in ev[1]:
            idx[ydim] = sl
            rows = rows[sl]
        if "x" in ev[1]:
            idx[xdim] = sl
            cols = cols[sl]
        xx = xx.isel(idx)
    elif k == "isel-time":
        xx = xx.isel(time=ev[1])
    elif k == "isel-band":
        xx = xx.isel(band=ev[1])
    elif k == "add1":
        xx = xx + 1
    elif k == "mul2.0":
        xx = xx * 2.0
    elif k == "add-rewrapped":
        g = xx.odc.geobox
        if g is None:
            raise StepSkipped()
        other = wrap_xr(np.zeros(tuple(g.shape), dtype=xx.dtype), g)
        dims0 = xx.dims
        xx = (xx + other).transpose(*dims0)
    elif k == "astype-f32":
        xx = xx.astype("float32")
    elif k == "copy":
        xx = xx.copy(deep=True)
    elif k == "pickle":
        xx = pickle.loads(pickle.dumps(xx))
    elif k == "compute":
        xx = xx.compute(scheduler="sync")
    else:
        raise ValueError(ev)
    return St(xx, rows, cols, st.hist + (ev,))


class StepSkipped(Exception):
    pass


def _opclass(hist):
    ks = []
    for ev in hist:
        if ev[0] == "slice":
            ks.append(f"[{ev[2]}]")
        else:
            ks.append(ev[0])
    return ">".join(ks) if ks else "initial"


def judge(st: St, G0, kind, crs, fails: dict, initial_shape):
    """Evaluate the invariant in one state; record failures under class keys."""
    rows, cols = st.rows, st.cols
    ny, nx = len(rows), len(cols)
    if ny == 0 or nx == 0:
        return "empty"
    if crs is None and (ny < 2 or nx < 2):
        return "no-crs-short-axis"  # outside the property's domain
    what = f"kind={kind} crs={crs} shape={initial_shape} ops={list(st.hist)}"
    axcls = f"{'1row' if ny == 1 else 'rows'}x{'1col' if nx == 1 else 'cols'}"
    strided = any(ev[0] == "slice" and ev[2] == "::2" for ev in st.hist)
    cls = f"{kind}:{axcls}{':strided' if strided and (ny == 1 or nx == 1) else ''}"
    try:
        g = st.xx.odc.geobox
    except Exception as e:  # pylint: disable=broad-except
        if not core.in_repo_tb(e):
            raise
        fails.setdefault(f"recover:raised:{type(e).__name__}:{cls}", f"{what}: .odc.geobox raised {type(e).__name__}: {e}")
        return "raised"
    if g is None:
        fails.setdefault(f"recover:none:{cls}", f"{what}: .odc.geobox is None with {ny}x{nx} pixels left")
        return "none"
    if tuple(g.shape) != (ny, nx):
        fails.setdefault(f"recover:shape:{cls}", f"{what}: geobox shape {tuple(g.shape)} for {ny}x{nx} pixels")
        return "shape"
    if g.crs != (CRS(crs) if crs else None):
        fails.setdefault(f"recover:crs:{cls}", f"{what}: crs {g.crs} expected {crs}")
    # every remaining pixel centre maps where it did in the original
    jj, ii = np.meshgrid(np.arange(nx), np.arange(ny))
    gx, gy = g.pix2wld(jj + 0.5, ii + 0.5)
    ox, oy = G0.pix2wld(np.asarray(cols)[jj] + 0.5, np.asarray(rows)[ii] + 0.5)
    px = abs(base_affine("north-up", crs).a)
    tol = 1e-6 * px if kind == "gcp" else loc_tol(np.maximum(np.abs(ox), np.abs(oy)), px)
    err = np.maximum(np.abs(np.asarray(gx) - ox), np.abs(np.asarray(gy) - oy))
    if not np.all(err <= tol):
        i = np.unravel_index(np.argmax(err), err.shape)
        fails.setdefault(
            f"recover:location:{cls}",
            f"{what}: pixel {i} maps to ({np.asarray(gx)[i]!r},{np.asarray(gy)[i]!r}), originally "
            f"({ox[i]!r},{oy[i]!r}); max error {err.max() / px:.4g} px")
    # coordinate labels
    sd = st.xx.odc.spatial_dims
    yl, xl = (st.xx[d].values for d in sd)
    if kind in ("north-up", "mirrored"):
        lx, _ = G0.pix2wld(np.asarray(cols) + 0.5, np.zeros(nx) + 0.5)
        _, ly = G0.pix2wld(np.zeros(ny) + 0.5, np.asarray(rows) + 0.5)
    else:
        lx, ly = np.asarray(cols) + 0.5, np.asarray(rows) + 0.5
    if not (np.allclose(xl, lx, rtol=0, atol=loc_tol(abs(lx).max(), px)) and np.allclose(yl, ly, rtol=0, atol=loc_tol(abs(ly).max(), px))):
        fails.setdefault(f"labels:{cls}", f"{what}: coordinate labels x={xl.tolist()} y={yl.tolist()} expected x={np.asarray(lx).tolist()} y={np.asarray(ly).tolist()}")
    return "ok"


def run_bfs(case):
    kind, shape, crs, layout, backend, depth = case
    xx, G0 = make_array(kind, shape, crs, layout, backend)
    sd = xx.odc.spatial_dims
    r = R(outcome=f"{kind}:{'x'.join(map(str, shape))}:{layout}:{backend}")
    if sd is None:
        return r.fail(f"initial:no-spatial-dims:{kind}", f"{case}")
    ydim, xdim = sd
    fails = {}
    init = St(xx, list(range(shape[0])), list(range(shape[1])), ())
    # initial round trip: equal GeoBox
    g = xx.odc.geobox
    dyadic = kind in ("north-up", "mirrored")
    if g is None or not (g == G0):
        if kind == "gcp" and g is not None and _gcp_same(g, G0):
            pass
        elif not dyadic and kind != "gcp" and gb_close(g, G0):
            pass  # rotation/shear coefficients are not dyadic: R tolerance
        else:
            axc = f"{'1row' if shape[0] == 1 else 'rows'}x{'1col' if shape[1] == 1 else 'cols'}"
            fails.setdefault(f"roundtrip:unequal:{kind}:{axc}", f"{case}: recovered {g!r} != original {G0!r}")
    seen = {init.key()}
    frontier = deque([(init, 0)])
    states, transitions, outcomes = 1, 0, {}
    o = judge(init, G0, kind, crs, fails, shape)
    outcomes[o] = 1
    while frontier:
        st, d = frontier.popleft()
        if d >= depth:
            continue
        for ev in events(st):
            transitions += 1
            try:
                nx_ = step(st, ev, ydim, xdim)
            except StepSkipped:
                continue
            except Exception as e:  # pylint: disable=broad-except
                if core.in_repo_tb(e):
                    fails.setdefault(f"op:raised:{type(e).__name__}:{kind}:{ev[0]}", f"{case} ops={list(st.hist + (ev,))}: {e}")
                    continue
                raise
            # the invariant is evaluated on the target of EVERY transition (two histories reaching the same canonical
            # state are still two live objects); deduplication only prunes the expansion
            o = judge(nx_, G0, kind, crs, fails, shape)
            k = nx_.key()
            if k in seen:
                continue
            seen.add(k)
            states += 1
            outcomes[o] = outcomes.get(o, 0) + 1
            if o in ("empty",):
                continue
            frontier.append((nx_, d + 1))
    r.counts = dict(states=states, transitions=transitions)
    r.outcome += ":" + "+".join(sorted(outcomes))
    for k, m in fails.items():
        r.fail(k, m)
    return r


def loc_tol(coord, px):
    """R tolerance for a recovered world location: coordinate labels are float64 values of magnitude |coord|, the
    transform is re-derived from first/last label, so a few hundred ulps of the coordinate plus 1e-9 pixel."""
    return 1e-13 * np.abs(coord) + 1e-9 * px


def gb_close(a, b):
    """GeoBox equality with the R tolerance of DESIGN section 3 (used where coefficients are not dyadic:
    labels are regenerated as first + i*step, which moves coefficients by an ulp)."""
    if a is None or b is None or tuple(a.shape) != tuple(b.shape) or a.crs != b.crs:
        return False
    px = max(abs(b.affine.a), abs(b.affine.b), abs(b.affine.d), abs(b.affine.e))
    n = max(b.shape)
    cmax = max(abs(b.affine.c), abs(b.affine.f))
    for i, (u, v) in enumerate(zip(a.affine[:6], b.affine[:6])):
        # pixel size is (last label - first label)/(n-1): it inherits the labels' rounding (ulps of the coordinate)
        tol = loc_tol(abs(v), px) if i in (2, 5) else max(1e-9 * px, 1e-13 * cmax) / n
        if abs(u - v) > tol:
            return False
    return True


def _gcp_same(a, b):
    return (tuple(a.shape) == tuple(b.shape) and a.crs == b.crs and a._affine == b._affine
            and np.array_equal(a._mapping._pix, b._mapping._pix) and np.allclose(a._mapping._wld, b._mapping._wld, rtol=0, atol=0))


def gen_bfs(tier):
    def g():
        for kind in KINDS:
            for shape in SHAPES:
                for crs in CRSS:
                    if not valid_combo(kind, shape, crs):
                        continue
                    for layout in LAYOUTS:
                        for backend in BACKENDS:
                            full = layout == "yx" and backend == "numpy"
                            if tier == "quick":
                                depth = 3 if (full and crs in ("EPSG:32633", None)) else 2 if crs in ("EPSG:32633", None) or full else 1
                            else:
                                depth = 5 if full else 4
                            yield (kind, shape, crs, layout, backend, depth)

    return g


# -- reprojection ----------------------------------------------------------------------------------------------------
PAIRS = (("EPSG:3857", "EPSG:4326"), ("EPSG:4326", "EPSG:3857"), ("EPSG:32633", "EPSG:4326"), ("EPSG:4326", "EPSG:32633"),
         ("EPSG:3857", "EPSG:32633"), ("EPSG:32633", "EPSG:3857"))


def reproject_options(opt, dst, src=None):
    """Grid options that may accompany a CRS destination; values sized to the destination's units and to the source
    pixel (0.25 degree pixels are ~20 km: a 512 m request would be a 750x590 destination cut into 22 000 tiles of the
    source's 4x5 chunk size - minutes of planning per case and nothing the property is about)."""
    deg = dst == "EPSG:4326"
    coarse_src = src == "EPSG:4326" and not deg
    return {
        "resolution": dict(resolution=0.5 if deg else (32768.0 if coarse_src else 4096.0)),
        "resolution-fine": dict(resolution=0.125 if deg else (8192.0 if coarse_src else 512.0)),
        "shape": dict(shape=(5, 7)),
        "tight": dict(tight=True),
        "anchor-center": dict(anchor="center"),
        "anchor-floating": dict(anchor="floating"),
        "res+tight": dict(resolution=0.5 if deg else (32768.0 if coarse_src else 4096.0), tight=True),
        "res+center": dict(resolution=0.5 if deg else (32768.0 if coarse_src else 4096.0), anchor="center"),
        "tol": dict(tol=0.3),
        "no-round": dict(round_resolution=False),
    }[opt]


OPTS = ("resolution", "resolution-fine", "shape", "tight", "anchor-center", "anchor-floating", "res+tight", "res+center",
        "tol", "no-round")


def gen_reproject(tier):
    def g():
        for src, dst in PAIRS:
            for container in ("da", "ds"):
                for how in ("crs", "geobox"):
                    for backend in BACKENDS:
                        for layout in ("yx", "tyx"):
                            for crsname in ("spatial_ref", "crs_custom"):
                                yield (src, dst, container, how, backend, layout, crsname)
                # destination requested as CRS + grid options (resolution / shape / tight / anchor)
                for opt in OPTS:
                    for backend in BACKENDS:
                        yield (src, dst, container, "crs+" + opt, backend, "yx", "spatial_ref")
        # destination = a GeoBox in the SOURCE's CRS that is related to the source grid (same footprint mirrored, shifted,
        # zoomed, padded, cropped ...), with and without an explicit destination nodata
        for src in ("EPSG:4326", "EPSG:32633", "EPSG:3857"):
            for container in ("da", "ds"):
                for rel in SAME_RELATIONS:
                    for backend in BACKENDS:
                        for layout in ("yx", "tyx"):
                            for nd in ("", "+dst_nodata"):
                                yield (src, src, container, f"same:{rel}{nd}", backend, layout, "spatial_ref")

    return g


SAME_RELATIONS = {
    "identical": lambda A, H, W: (A, (H, W)),
    "flipx": lambda A, H, W: (A * Affine.translation(W, 0) * Affine.scale(-1, 1), (H, W)),
    "flipy": lambda A, H, W: (A * Affine.translation(0, H) * Affine.scale(1, -1), (H, W)),
    "flipxy": lambda A, H, W: (A * Affine.translation(W, H) * Affine.scale(-1, -1), (H, W)),
    "shift-int": lambda A, H, W: (A * Affine.translation(2, -1), (H, W)),
    "shift-half": lambda A, H, W: (A * Affine.translation(0.5, 0.5), (H, W)),
    "coarser2": lambda A, H, W: (A * Affine.scale(2), ((H + 1) // 2, (W + 1) // 2)),
    "finer2": lambda A, H, W: (A * Affine.scale(0.5), (2 * H, 2 * W)),
    "pad1": lambda A, H, W: (A * Affine.translation(-1, -1), (H + 2, W + 2)),
    "crop1": lambda A, H, W: (A * Affine.translation(1, 1), (H - 2, W - 2)),
    "transposed-footprint": lambda A, H, W: (A * Affine(0, 1, 0, 1, 0, 0), (W, H)),
}


def run_reproject(case):
    src, dst, container, how, backend, layout, crsname = case
    r = R(outcome=f"{container}:{how}:{backend}:{crsname}")
    if src == "EPSG:4326":
        G = GeoBox((8, 9), Affine(0.25, 0, 14.0, 0, -0.25, 46.0), src)
    elif src == "EPSG:32633":
        G = GeoBox((8, 9), Affine(1024.0, 0, 400000.0, 0, -1024.0, 5100000.0), src)
    else:
        G = GeoBox((8, 9), Affine(2048.0, 0, 1500000.0, 0, -2048.0, 5800000.0), src)
    full = (8, 9) if layout == "yx" else (2, 8, 9)
    data = np.arange(int(np.prod(full)), dtype="float32").reshape(full)
    if backend == "dask":
        data = da.from_array(data, chunks=(4, 5) if layout == "yx" else (1, 4, 5))
    tm = ["2020-01-01", "2020-01-02"] if layout == "tyx" else None
    xx = wrap_xr(data, G, time=tm, nodata=-1.0, crs_coord_name=crsname)
    stale = {"crs": "EPSG:9999", "crs_wkt": "stale", "grid_mapping": "spatial_ref", "epsg": 9999, "units": "m"}
    xx.attrs.update(stale)
    kwopt = {}
    if how == "crs":
        target = dst
        want = xx.odc.output_geobox(dst)
    elif how.startswith("crs+"):
        kwopt = reproject_options(how[4:], dst, src)
        target = dst
        want = xx.odc.output_geobox(dst, **kwopt)
        default = xx.odc.output_geobox(dst)
        r.outcome += ":opt-differs" if want != default else ":opt-same-as-default"
    elif how.startswith("same:"):
        rel, _, nd = how[5:].partition("+")
        A2, shp = SAME_RELATIONS[rel](G.affine, *G.shape)
        want = GeoBox(shp, A2, dst)
        target = want
        if nd:
            kwopt = dict(dst_nodata=-5.0)
    else:
        want = GeoBox((7, 6), G.to_crs(dst).affine * Affine.translation(1, 1), dst)
        target = want
    if container == "da":
        out = xr_reproject(xx, target, **kwopt)
        outs = {"da": out, "da.odc.reproject": xx.odc.reproject(target, **kwopt)}
    else:
        ds = xr.Dataset({"a": xx, "b": xx * 2, "plain": xr.DataArray([1, 2, 3], dims=("z",))})
        ds["b"].attrs.update(stale)
        out = xr_reproject(ds, target, **kwopt)
        out2 = ds.odc.reproject(target, **kwopt)
        outs = {"a": out["a"], "b": out["b"], "ds": out, "ds.odc.reproject[a]": out2["a"], "ds.odc.reproject[b]": out2["b"]}
        if "plain" not in out or out["plain"].values.tolist() != [1, 2, 3]:
            r.fail("reproject:ds:non-geo-variable-lost", f"{case}")
    for name, o in outs.items():
        what = f"{case} [{name}]"
        g = o.odc.geobox
        if g is None or not (g == want or gb_close(g, want)):
            r.fail(f"reproject:{container}:geobox" + (":with-grid-options" if kwopt else ""), f"{what}: recovered {g!r}, destination {want!r}")
            continue
        if g.crs != CRS(dst) or o.odc.crs != CRS(dst):
            r.fail(f"reproject:{container}:crs", f"{what}: {g.crs}")
        if isinstance(o, xr.DataArray):
            left = [k for k in SPATIAL_ATTRIBUTES if k in o.attrs]
            if left:
                r.fail(f"reproject:{container}:stale-attrs", f"{what}: attributes {left} survived: { {k: o.attrs[k] for k in left} }")
            gm = o.encoding.get("grid_mapping", None)
            if gm is None or gm not in o.coords:
                r.fail(f"reproject:{container}:grid_mapping", f"{what}: encoding grid_mapping={gm!r}")
            else:
                w = o.coords[gm].attrs.get("spatial_ref") or o.coords[gm].attrs.get("crs_wkt")
                if w is None or CRS(w) != CRS(dst):
                    r.fail(f"reproject:{container}:grid_mapping-crs", f"{what}: coordinate {gm} holds another CRS")
            for cn, cc in o.coords.items():
                if cc.ndim == 0 and ("spatial_ref" in cc.attrs or "crs_wkt" in cc.attrs):
                    w2 = cc.attrs.get("spatial_ref") or cc.attrs.get("crs_wkt")
                    if CRS(w2) != CRS(dst):
                        r.fail(f"reproject:{container}:stale-crs-coordinate", f"{what}: coordinate {cn!r} still holds the source CRS")
            if o.attrs.get("units") != "m":
                r.fail(f"reproject:{container}:non-spatial-attr-lost", f"{what}: attrs {dict(o.attrs)}")
            sd = o.odc.spatial_dims
            lx = o[sd[1]].values
            ex, _ = want.pix2wld(np.arange(want.shape[1]) + 0.5, np.zeros(want.shape[1]) + 0.5)
            if want.affine.b == 0 and want.affine.d == 0 and not np.allclose(lx, ex, rtol=0, atol=1e-9 * (abs(ex).max() + 1)):  # rotated grids carry pixel labels
                r.fail(f"reproject:{container}:labels", f"{what}: x labels {lx.tolist()} expected {ex.tolist()}")
    return r


# -- GeoBoxes that share lazily built state: histories of wraps ------------------------------------------------------
FAMILY = {
    "parent": (lambda g: g, lambda g: Affine.identity()),
    "crop": (lambda g: g[2:6, 3:9], lambda g: Affine.translation(3, 2)),
    "last-row": (lambda g: g[-1:, :], lambda g: Affine.translation(0, g.shape[0] - 1)),
    "zoom_out2": (lambda g: g.zoom_out(2), lambda g: Affine.scale(2)),
    "pad3": (lambda g: g.pad(3), lambda g: Affine.translation(-3, -3)),
    "zoom_to": (lambda g: g.zoom_to((4, 5)), lambda g: Affine.scale(g.shape[1] / 5, g.shape[0] / 4)),
}


def gen_family(tier):
    import itertools  # pylint: disable=import-outside-toplevel

    def g():
        names = list(FAMILY)
        for kind in ("gcp", "rotated", "north-up"):
            for seq in itertools.product(names, repeat=2):
                yield (kind, seq)
            if tier == "thorough":
                for seq in itertools.product(names, repeat=3):
                    yield (kind, seq)

    return g


def run_family(case):
    """Wrap several GeoBoxes derived from ONE parent (GCP boxes share their GCPMapping object, affine boxes their
    cached extent) one after another; every wrapped array must recover a GeoBox that maps pixels like the box it
    was wrapped with, whatever was wrapped before."""
    kind, seq = case
    crs = "EPSG:4326"
    G = make_geobox(kind, (8, 10), crs) if kind != "gcp" else None
    if kind == "gcp":
        A = base_affine("north-up", crs)
        pix = np.asarray([(x, y) for y in (0.0, 4.0, 8.0) for x in (0.0, 5.0, 10.0)])
        wld = np.asarray([A * (x + 0.01 * x * y, y) for x, y in pix])
        G = GCPGeoBox((8, 10), GCPMapping(pix, wld, crs))
    r = R(outcome=f"family:{kind}:{len(seq)}")
    px = abs(base_affine("north-up", crs).a)
    wrapped = []
    for name in seq:
        g = FAMILY[name][0](G)
        M = FAMILY[name][1](G)
        xx = wrap_xr(np.zeros(tuple(g.shape), dtype="uint8"), g)
        wrapped.append((name, g, M, xx))
    for pos, (name, g, M, xx) in enumerate(wrapped):
        rec = xx.odc.geobox
        what = f"{kind}: wrapped {list(seq)}; array #{pos} ({name})"
        if rec is None or tuple(rec.shape) != tuple(g.shape):
            r.fail(f"family:recover:{kind}", f"{what}: recovered {rec!r}")
            continue
        ny, nx = g.shape
        jj, ii = np.meshgrid(np.arange(nx) + 0.5, np.arange(ny) + 0.5)
        gx, gy = rec.pix2wld(jj, ii)
        mx, my = (np.asarray(v) for v in zip(*[M * (x, y) for x, y in zip(jj.ravel(), ii.ravel())]))
        ox, oy = G.pix2wld(mx.reshape(jj.shape), my.reshape(jj.shape))
        err = np.maximum(np.abs(np.asarray(gx) - ox), np.abs(np.asarray(gy) - oy)).max() / px
        tol = 1e-4 if kind == "gcp" else 1e-7
        if err > tol:
            order = "first" if pos == 0 else "after-sibling"
            r.fail(f"family:location:{kind}:{order}", f"{what}: recovered GeoBox is off by up to {err:.4g} px from the GeoBox it was wrapped with")
    return r


# -- registration: where on the coordinate axis the grid sits ----------------------------------------------------------
REG_PIXELS = (1 / 3600, 1e-4, 0.25, 1.0, 10.0, 16.0, 4.5e-6)
REG_WHOLE = (0.0, 149.0, -35.0, 500000.0)
REG_OFFSETS = ("on", "+4e-4", "-4e-4", "+9e-4", "-9e-4", "+1e-6", "-1e-6", "centre-registered", "+quarter", "+1.5e-3")
REG_OPS = ("none", "y1:", "x2:", "y::2", "x3:7", "y-3:", "x::-1", "y1:|x2:", "x2:|x2:")


def _reg_origin(whole, off, px):
    if off == "on":
        return whole
    if off == "centre-registered":
        return whole - px / 2  # pixel centres on whole numbers: edges half a pixel away
    if off == "+quarter":
        return whole + 0.25
    return whole + float(off)


def gen_registration(tier):
    def g():
        for px in REG_PIXELS:
            for wx in REG_WHOLE:
                for offx in REG_OFFSETS:
                    for offy in (("on", "-4e-4", "centre-registered") if tier == "quick" else REG_OFFSETS):
                        for flip in ("north-up", "south-up"):
                            yield (px, wx, offx, offy, flip)

    return g


def run_registration(case):
    """Axis-aligned GeoBoxes placed on / very near / half a pixel from whole coordinates, wrapped and sliced: the
    recovered GeoBox must equal the original (round trip) and keep every surviving pixel where it was."""
    px, whole, offx, offy, flip = case
    crs = "EPSG:4326" if abs(whole) < 400 and px < 2 else "EPSG:32633"
    ox = _reg_origin(whole, offx, px)
    oy = _reg_origin(-35.0 if crs == "EPSG:4326" else 6000000.0, offy, px)
    A = Affine(px, 0, ox, 0, -px, oy) if flip == "north-up" else Affine(px, 0, ox, 0, px, oy)
    shape = (9, 10)
    G0 = GeoBox(shape, A, crs)
    xx = wrap_xr(np.zeros(shape, dtype="uint8"), G0)
    ydim, xdim = xx.odc.spatial_dims
    near = lambda o: o not in ("on", "+quarter", "+1.5e-3")  # noqa: E731
    cls = f"x-{'near-whole' if near(offx) else 'plain'}:y-{'near-whole' if near(offy) else 'plain'}"
    r = R(outcome=f"registration:{cls}:{flip}")
    sl = {"y1:": {ydim: slice(1, None)}, "x2:": {xdim: slice(2, None)}, "y::2": {ydim: slice(None, None, 2)},
          "x3:7": {xdim: slice(3, 7)}, "y-3:": {ydim: slice(-3, None)}, "x::-1": {xdim: slice(None, None, -1)}}
    for ops in REG_OPS:
        yy = xx
        rows, cols = np.arange(shape[0]), np.arange(shape[1])
        if ops != "none":
            for o in ops.split("|"):
                yy = yy.isel(sl[o])
                (ax, s_), = sl[o].items()
                if ax == ydim:
                    rows = rows[s_]
                else:
                    cols = cols[s_]
        what = f"pixel={px!r} origin=({ox!r},{oy!r}) {flip} crs={crs} ops={ops}"
        try:
            g = yy.odc.geobox
        except Exception as e:  # pylint: disable=broad-except
            if not core.in_repo_tb(e):
                raise
            r.fail(f"registration:raised:{type(e).__name__}:{cls}", f"{what}: {e}")
            continue
        if g is None or tuple(g.shape) != (len(rows), len(cols)):
            r.fail(f"registration:recover:{cls}", f"{what}: recovered {g!r}")
            continue
        if ops == "none" and not (g == G0 or gb_close(g, G0)):
            r.fail(f"registration:roundtrip-unequal:{cls}", f"{what}: recovered {g!r} != original {G0!r}")
        jj, ii = np.meshgrid(np.arange(len(cols)), np.arange(len(rows)))
        gx, gy = g.pix2wld(jj + 0.5, ii + 0.5)
        wx_, wy_ = G0.pix2wld(cols[jj] + 0.5, rows[ii] + 0.5)
        err = np.maximum(np.abs(np.asarray(gx) - wx_) - loc_tol(wx_, px), np.abs(np.asarray(gy) - wy_) - loc_tol(wy_, px))
        if err.max() > 0:
            e_px = max(np.abs(np.asarray(gx) - wx_).max(), np.abs(np.asarray(gy) - wy_).max()) / px
            r.fail(f"registration:location:{cls}", f"{what}: surviving pixels moved by up to {e_px:.4g} px")
    return r


# -- wrap inputs: where the non-spatial inputs of a wrap come from ------------------------------------------------------
TIME_KINDS = ("none", "str", "list", "np-datetime64", "plain-DataArray", "borrowed-other-crs", "borrowed-gcp",
              "borrowed-same-crs-other-grid", "borrowed-custom-crs-name", "borrowed-after-slice")
WRAP_ENTRIES = ("wrap_xr", "wrap_xr-dask", "xr_zeros", "xr_zeros-dask")


def _donor(kind_t, crs):
    """A geo-registered raster with a time axis whose `.time` coordinate is handed to the wrap under test: it drags the
    donor's own scalar CRS coordinate (and, for GCP donors, the control points stored on it) along."""
    other_crs = "EPSG:3577" if crs != "EPSG:3577" else "EPSG:32633"
    if kind_t == "borrowed-gcp":
        g = make_geobox("gcp", (3, 4), other_crs)
    elif kind_t == "borrowed-same-crs-other-grid":
        g = GeoBox((3, 4), Affine(100.0, 0, -7000.0, 0, -100.0, 9000.0), crs)
    else:
        g = GeoBox((3, 4), Affine(100.0, 0, -7000.0, 0, -100.0, 9000.0), other_crs)
    name = "crs_of_donor" if kind_t == "borrowed-custom-crs-name" else "spatial_ref"
    dd = wrap_xr(np.zeros((2, 3, 4), dtype="uint8"), g, time=["2020-01-01", "2020-01-02"], crs_coord_name=name)
    if kind_t == "borrowed-after-slice":
        dd = dd.isel(x=slice(1, 3))
    return dd


NOEPSG_CRSS = ("+proj=laea +lat_0=52 +lon_0=10 +x_0=4321000 +y_0=3210000 +ellps=GRS80 +units=m +no_defs", "ESRI:54009")


def gen_wrap_inputs(tier):
    def g():
        for kind in KINDS:
            for shape in SHAPES:
                for crs in CRSS + NOEPSG_CRSS:
                    if not valid_combo(kind, shape, crs):
                        continue
                    for entry in WRAP_ENTRIES:
                        for tk in TIME_KINDS:
                            # None: no CRS coordinate at all, the axis attributes are the only carrier of the CRS (axis-aligned
                            # grids with at least two rows and columns only: rotation, control points and the pixel size of
                            # a single row/column live on the CRS coordinate)
                            for cname in ("spatial_ref", "crs") + ((None,) if kind in ("north-up", "mirrored") and crs is not None and 1 not in shape else ()):
                                if crs in NOEPSG_CRSS and tk not in ("none", "list", "borrowed-other-crs"):
                                    continue
                                yield (kind, shape, crs, entry, tk, cname)

    return g


def run_wrap_inputs(case):
    from odc.geo.xr import xr_zeros  # pylint: disable=import-outside-toplevel

    kind, shape, crs, entry, tk, cname = case
    G0 = make_geobox(kind, shape, crs)
    nt = 0 if tk == "none" else (1 if tk == "str" else 2)
    if tk == "none":
        tm = None
    elif tk == "str":
        tm = "2020-01-01"
    elif tk == "list":
        tm = ["2020-01-01", "2020-01-02"]
    elif tk == "np-datetime64":
        tm = np.asarray(["2020-01-01", "2020-01-02"], dtype="datetime64[ns]")
    elif tk == "plain-DataArray":
        import xarray as xr  # pylint: disable=import-outside-toplevel

        tm = xr.DataArray(np.asarray(["2020-01-01", "2020-01-02"], dtype="datetime64[ns]"), dims=("time",))
    else:
        tm = _donor(tk, crs).time
    cls = f"{kind}:{'x'.join('1' if n == 1 else 'n' for n in shape)}:{entry}:time-{tk}:crsname-{'default' if cname == 'spatial_ref' else 'custom' if cname else 'none'}:{'epsg' if crs in CRSS else 'no-epsg-code'}"
    r = R(outcome=f"wrap-inputs:{entry}:time-{tk}:{kind}")
    what = f"{case}"
    if entry.startswith("xr_zeros") and tk == "str":
        return R(outcome="wrap-inputs:n/a", nontrivial=False)  # xr_zeros takes len(time)
    try:
        if entry.startswith("wrap_xr"):
            full = tuple(shape) if nt == 0 else (nt, *shape)
            data = np.arange(int(np.prod(full)), dtype="int16").reshape(full)
            if entry.endswith("dask"):
                data = da.from_array(data, chunks=tuple(max(1, (n + 1) // 2) for n in full))
            xx = wrap_xr(data, G0, time=tm, crs_coord_name=cname)
        else:
            kw = dict(chunks=((1, 2, 2) if nt else (2, 2))) if entry.endswith("dask") else {}
            xx = xr_zeros(G0, "int16", time=tm, crs_coord_name=cname, **kw)
        g = xx.odc.geobox
        c = xx.odc.crs
    except Exception as e:  # pylint: disable=broad-except
        if not core.in_repo_tb(e):
            raise
        return r.fail(f"wrap-inputs:raised:{type(e).__name__}:{cls}", f"{what}: {type(e).__name__}: {e}")
    ok = g is not None and (g == G0 or (gb_close(g, G0) if kind != "gcp" else (isinstance(g, GCPGeoBox) and _gcp_same(g, G0))))
    if not ok:
        r.fail(f"wrap-inputs:roundtrip-unequal:{cls}", f"{what}: wrapped {G0!r}, recovered {g!r}")
    want_crs = None if crs is None else CRS(crs)
    if c != want_crs:
        r.fail(f"wrap-inputs:crs:{cls}", f"{what}: wrapped with CRS {want_crs}, array reports {c}")
    if nt and ("time" not in xx.dims or xx.sizes["time"] != nt):
        r.fail(f"wrap-inputs:time-axis:{cls}", f"{what}: dims {xx.dims} sizes {dict(xx.sizes)}")
    return r


def slices(tier):
    return [
        e1.Slice("shared-state-family", gen_family(tier), run_family, "all ordered pairs (thorough: triples) of wraps of GeoBoxes derived from one parent"),
        e1.Slice("ops-bfs", gen_bfs(tier), run_bfs, "BFS over operation sequences per initial array", shards=128),
        e1.Slice("reproject", gen_reproject(tier), run_reproject, "DataArray/Dataset x CRS pairs x target kind (GeoBox, CRS, CRS + each grid option) x backend"),
        e1.Slice("wrap-inputs", gen_wrap_inputs(tier), run_wrap_inputs,
                 "wrap_xr / xr_zeros (numpy, dask) x GeoBox kinds x time axis given as str / list / array / DataArray / a time "
                 "coordinate borrowed from another registered raster (other CRS, GCP, other grid, custom CRS coordinate name, sliced)"),
        e1.Slice("registration", gen_registration(tier), run_registration,
                 "axis-aligned grids on / within 1e-3 of / half a pixel from whole coordinates x pixel sizes 4.5e-6..16 x slicing ops"),
    ]


def main(ctx):
    ctx.rule = (
        "ops-bfs: one breadth-first search per initial array (GeoBox kind x shape x CRS x layout x backend); transitions apply "
        "real xarray operations; states deduplicated on (surviving rows, columns, dims, dtype, backend); invariant evaluated "
        "in every new state; reproject: complete product. non-trivial = every case"
    )
    ctx.bounds = dict(kinds=KINDS, shapes=SHAPES, crs=CRSS, layouts=LAYOUTS, backends=BACKENDS,
                      depth="quick: 1-3 by sub-product; thorough: 4-5", operations=list(SLICES) + ["isel time/band", "+1", "*2.0", "astype", "copy", "pickle", "compute"])
    ctx.assumptions = [
        "locations are compared at pixel centres (for a single remaining pixel after striding the pixel size is not determinable)",
        "without a CRS, arrays with a single row or column are outside the property's domain",
        "R tolerance 1e-13*|coordinate| + 1e-9*pixel for affine GeoBoxes (labels are float64 coordinates; the transform is "
        "re-derived from them), 1e-6 pixel for GCP GeoBoxes (polynomial re-fit)",
    ]
    sl = slices(ctx.tier)
    if ctx.only:
        sl = [s for s in sl if any(s.name.startswith(o) for o in ctx.only)]
    e1.run_slices(ctx, sl)
    c = ctx.counters
    ctx.extra.update(states=max(1, int(c["states"])), transitions=max(1, int(c["transitions"])),
                     traces_validated_against_impl=int(c["transitions"]),
                     explanation="states = distinct (rows, cols, dims, dtype, backend) abstractions reached over all searches; "
                                 "transitions = real xarray operations applied; all on live objects of the implementation")


def replay(slice_name, case, tier):
    return e1.replay(slices(tier), slice_name, case).fails
