"""C04 - tilings are exact partitions and blocks reassemble the mosaic.

E1: complete enumeration of small pixel rectangles x tile sizes / chunk tuples, of every tile index,
tile-index block and two-tile selection, and - for BlockAssembler - of every subset of present
blocks and every window.  Oracles: exact integer arithmetic on cumulative offsets, painting the
rectangle (every pixel covered exactly once), freshly built tilings of the cropped rectangle, a
GeoBox built from the parent affine and the pixel offset, and a numpy mosaic indexed by numpy.
"""
from __future__ import annotations

import itertools
import math

import numpy as np
from affine import Affine

from vf import e1
from vf.core import R

PROPERTY = "C04"
LEVEL = "exploration"

from odc.geo._blocks import BlockAssembler  # noqa: E402
from odc.geo.geobox import GeoBox, GeoboxTiles  # noqa: E402
from odc.geo.roi import Tiles, VariableSizedTiles, clip_tiles, roi_tiles  # noqa: E402
from odc.geo.types import ixy_, iyx_, wh_  # noqa: E402

_NOTSET = object()


# ---------------------------------------------------------------------------------------------
# arithmetic reference model of a tiling: per-axis chunk tuples and cumulative offsets
# ---------------------------------------------------------------------------------------------
def cum(ch):
    o = [0]
    for c in ch:
        o.append(o[-1] + c)
    return o


def reg_chunks(N, n):
    """chunk tuple of a length-N axis cut into tiles of n (integer arithmetic only)."""
    k = (N + n - 1) // n
    return (n,) * (k - 1) + (N - (k - 1) * n,)


def comps(N):
    """all compositions (ordered sums of positive parts) of N."""
    if N == 0:
        return [()]
    out = []
    for first in range(1, N + 1):
        for rest in comps(N - first):
            out.append((first,) + rest)
    return out


def all_comps(nmax):
    return [c for N in range(1, nmax + 1) for c in comps(N)]


def call(fn, *a, **kw):
    """('ok', value) or ('exc', ExceptionTypeName).  IndexError/ValueError/... raised by the code
    under test are results to be judged, not crashes."""
    try:
        return "ok", fn(*a, **kw)
    except (IndexError, ValueError, TypeError, AssertionError, ZeroDivisionError, OverflowError, AttributeError) as e:
        return "exc", type(e).__name__


def rp(x):
    """repr that never raises (the repr of a broken tiling may itself fail)"""
    try:
        return repr(x)
    except Exception as e:  # pylint: disable=broad-except
        return f"<{type(x).__name__}: repr raised {type(e).__name__}>"


def axis_cls(i, n):
    if n == 1:
        return "only"
    if i == 0:
        return "first"
    if i == n - 1:
        return "last"
    return "mid"


def rem_cls(N, n):
    if n > N:
        return "oversize"
    if N % n == 0:
        return "exact"
    return "ragged"


class Model:
    """Everything the oracle knows about one tiling (no odc code involved)."""

    def __init__(self, case):
        self.case = case
        kind = case[0]
        if kind == "T":
            _, H, W, h, w = case
            self.K = "Tiles"
            self.chy, self.chx = reg_chunks(H, h), reg_chunks(W, w)
            self.tile = (h, w)
            self.cls = f"{rem_cls(H, h)}/{rem_cls(W, w)}"
        else:
            if kind == "VL":  # compact encoding of long chunk tuples: (pattern, repetitions) per axis
                _, (py, ry), (px, rx) = case
                chy, chx = tuple(py) * ry, tuple(px) * rx
            else:
                _, chy, chx = case
            self.K = "VariableSizedTiles"
            self.chy, self.chx = tuple(chy), tuple(chx)
            self.tile = None
            u = lambda ch: "zero-chunk" if 0 in ch else ("uniform" if len(set(ch)) == 1 else "varied")  # noqa: E731
            self.cls = f"{u(chy)}/{u(chx)}"
        self.oy, self.ox = cum(self.chy), cum(self.chx)
        self.ny, self.nx = len(self.chy), len(self.chx)
        self.H, self.W = self.oy[-1], self.ox[-1]

    def build(self):
        if self.K == "Tiles":
            return Tiles((self.H, self.W), self.tile)
        return VariableSizedTiles((self.chy, self.chx))

    def fresh(self, a, b, c, d):
        """freshly built tiling of the rectangle covered by tile rows a:b, cols c:d."""
        if self.K == "Tiles":
            return Tiles((self.oy[b] - self.oy[a], self.ox[d] - self.ox[c]), self.tile)
        return VariableSizedTiles((self.chy[a:b], self.chx[c:d]))

    def region(self, a, b, c, d):
        return (slice(self.oy[a], self.oy[b]), slice(self.ox[c], self.ox[d]))

    def size_label(self):
        f = lambda n: str(n) if n < 3 else "3+"  # noqa: E731
        return f"{self.K}:{f(self.ny)}x{f(self.nx)}:{self.cls}"


def same_roi(got, want):
    """tuple of two plain slices with integer fields equal to the wanted ones."""
    if not isinstance(got, tuple) or len(got) != 2:
        return False
    for g, w in zip(got, want):
        if not isinstance(g, slice) or g.step is not None:
            return False
        if g.start is None or g.stop is None or int(g.start) != w.start or int(g.stop) != w.stop:
            return False
    return True


def yx_of(v):
    """(y, x) of a Shape2d / tuple result."""
    if hasattr(v, "yx"):
        y, x = v.yx
    else:
        y, x = v
    return (int(y), int(x))


# ---------------------------------------------------------------------------------------------
# slice: every tile index (positive, negative, Index2d, out-of-range), partition, locate
# ---------------------------------------------------------------------------------------------
def gen_tilings(tier):
    def gen():
        nb, nt, nc = (9, 10, 6) if tier == "quick" else (11, 12, 7)
        for H in range(1, nb + 1):
            for W in range(1, nb + 1):
                for h in range(1, nt + 1):
                    for w in range(1, nt + 1):
                        yield ("T", H, W, h, w)
        cc = all_comps(nc)
        for chy in cc:
            for chx in cc:
                yield ("V", chy, chx)
        # beyond the compositions: last chunk larger than the others, interior chunk smaller than the first,
        # single-chunk axes
        for chy, chx in EXTRA_LAYOUTS:
            yield ("V", chy, chx)
            yield ("V", chx, chy)
        # zero-length chunks (dask allows them): every tuple over {0,1,2} of length <= 3 holding a zero,
        # against each other and against three plain layouts
        zz = zero_layouts()
        for chy in zz + ZERO_PLAIN:
            for chx in zz + ZERO_PLAIN:
                if 0 in chy or 0 in chx:
                    yield ("V", chy, chx)

    return gen


EXTRA_LAYOUTS = (((4, 4, 4, 9), (3, 8)), ((5, 2, 5), (2, 7, 1)), ((9,), (1, 1, 1, 9)), ((4, 4, 4, 9), (4, 4, 4, 9)),
                 ((3, 8), (8, 3)))
ZERO_PLAIN = [(1,), (2, 1), (1, 2, 1)]


def zero_layouts():
    out = []
    for n in (2, 3):
        for t in itertools.product((0, 1, 2), repeat=n):
            if 0 in t and sum(t) > 0:
                out.append(t)
    return out


def gen_large(tier):
    def gen():
        yield ("VL", ((1,), 1), ((17, 60, 40), 600))  # 1800 chunks, 70 200 px: beyond int16 / uint16 offsets
        yield ("VL", ((40, 17, 60), 600), ((1,), 1))
        yield ("T", 1, 40000, 1, 13)  # 3077 tiles
        yield ("VL", ((3, 1, 4), 20), ((2, 5), 25))  # 60 x 50 chunks
        if tier != "quick":
            yield ("VL", ((2,), 1), ((1, 0, 3, 250), 400))  # 1600 chunks with zero-length ones, 101 600 px
            yield ("T", 70000, 2, 7, 1)

    return gen


def run_index(case):
    m = Model(case)
    K = m.K
    T = m.build()
    ny, nx, H, W = m.ny, m.nx, m.H, m.W
    r = R(outcome=m.size_label(), nontrivial=ny * nx > 1, counts={})
    obs = r.counts

    # advertised aggregate quantities
    if yx_of(T.shape) != (ny, nx):
        r.fail(f"{K}.shape:{m.cls}", f"{case}: shape={T.shape} want {(ny, nx)}")
    if yx_of(T.base) != (H, W):
        r.fail(f"{K}.base", f"{case}: base={T.base} want {(H, W)}")
    st, ch = call(lambda: T.chunks)
    if st != "ok" or tuple(map(tuple, ch)) != (m.chy, m.chx):
        r.fail(f"{K}.chunks:{m.cls}", f"{case}: chunks={ch} want {(m.chy, m.chx)}")
    elif sum(ch[0]) != H or sum(ch[1]) != W:
        r.fail(f"{K}.chunks:sum", f"{case}: chunks={ch} do not sum to {(H, W)}")
    # the dispatching constructor gives the same tiling
    how = m.tile if K == "Tiles" else (m.chy, m.chx)
    T2 = roi_tiles((H, W), how)
    if type(T2) is not type(T) or not T2 == T:
        r.fail(f"roi_tiles:{K}", f"{case}: roi_tiles -> {rp(T2)} vs {rp(T)}")
    if K == "Tiles":
        T3 = Tiles(wh_(W, H), wh_(m.tile[1], m.tile[0]))
        if not T3 == T or yx_of(T3.shape) != (ny, nx):
            r.fail("Tiles:shape-spelling", f"{case}: built from Shape2d differs: {rp(T3)} vs {rp(T)}")
        encs = (("lists", lambda: Tiles([H, W], list(m.tile))),
                ("numpy-ints", lambda: Tiles((np.int64(H), np.int32(W)), (np.int64(m.tile[0]), np.int16(m.tile[1])))))
    else:
        encs = (("lists", lambda: VariableSizedTiles((list(m.chy), list(m.chx)))),
                ("list-of-lists", lambda: VariableSizedTiles([list(m.chy), list(m.chx)])),
                ("numpy-arrays", lambda: VariableSizedTiles((np.array(m.chy, dtype="int64"), np.array(m.chx)))),
                ("numpy-ints", lambda: VariableSizedTiles((tuple(map(np.int64, m.chy)), tuple(map(np.int16, m.chx))))),
                ("roi_tiles-lists", lambda: roi_tiles((H, W), [list(m.chy), list(m.chx)])))
    # the same tiling given in another encoding is the same tiling
    for ename, mk in encs:
        st, Te = call(mk)
        if st != "ok":
            r.fail(f"{K}:encoding:{ename}:raises", f"{case}: construction from {ename} raised {Te}")
            continue
        st, che = call(lambda: Te.chunks)  # noqa: B023
        if not (Te == T and T == Te) or yx_of(Te.shape) != (ny, nx) or yx_of(Te.base) != (H, W) or st != "ok" \
                or tuple(map(tuple, che)) != (m.chy, m.chx):
            r.fail(f"{K}:encoding:{ename}:differs", f"{case}: built from {ename}: {rp(Te)} chunks {che} vs {rp(T)}")
        elif call(Te.__getitem__, (ny - 1, 0)) != call(T.__getitem__, (ny - 1, 0)):
            r.fail(f"{K}:encoding:{ename}:region", f"{case}: built from {ename}: last-row tile region differs")
    # the caller's chunk lists are not modified by construction or use
    if K != "Tiles":
        ly, lx = list(m.chy), list(m.chx)
        Tl = VariableSizedTiles((ly, lx))
        call(Tl.__getitem__, (0, 0))
        call(Tl.crop, (slice(0, 1), slice(None)))
        call(lambda: Tl.chunks)
        call(Tl.locate, (H - 1, W - 1))
        if ly != list(m.chy) or lx != list(m.chx):
            r.fail(f"{K}:caller-chunks-modified", f"{case}: chunk lists given to the constructor became {ly}, {lx}")

    # every tile: region from arithmetic, painted cover, per-tile shape, all index spellings
    cover = np.zeros((H, W), dtype="int32")
    owner = np.full((H, W), -1, dtype="int32")
    for rr in range(ny):
        for cc in range(nx):
            want = m.region(rr, rr + 1, cc, cc + 1)
            pc = f"{axis_cls(rr, ny)}-{axis_cls(cc, nx)}"
            forms = (
                ("pos", (rr, cc)),
                ("neg", (rr - ny, cc - nx)),
                ("mixed", (rr, cc - nx)),
                ("Index2d", ixy_(cc, rr)),
                ("numpy-int", (np.int64(rr), np.int32(cc - nx))),
            )
            for form, idx in forms:
                st, got = call(T.__getitem__, idx)
                if form == "numpy-int" and (st != "ok" or not same_roi(got, want)):
                    r.fail(f"{K}[r,c]:numpy-int-index", f"{case}: [{rp(idx)}] -> {got}; want {want} as for python ints")
                elif st != "ok":
                    r.fail(f"{K}[r,c]:raises:{form}:{pc}", f"{case}: [{idx}] raised {got}")
                elif not same_roi(got, want):
                    r.fail(f"{K}[r,c]:region:{form}:{pc}", f"{case}: [{idx}] -> {got} want {want}")
                elif form == "pos":
                    if got[0].start < 0 or got[1].start < 0 or got[0].stop > H or got[1].stop > W:
                        r.fail(f"{K}:partition:outside", f"{case}: [{idx}] -> {got} leaves {(H, W)}")
                    else:
                        cover[got] += 1
                        owner[got] = rr * nx + cc
            wshape = (m.chy[rr], m.chx[cc])
            for form, idx in (("pos", (rr, cc)), ("Index2d", iyx_(rr, cc)), ("numpy-int", (np.int64(rr), np.int32(cc)))):
                st, got = call(T.tile_shape, idx)
                if st != "ok" or yx_of(got) != wshape:
                    r.fail(f"{K}.tile_shape:{form}:{pc}", f"{case}: tile_shape({idx}) -> {got} want {wshape}")
            # negative index: Tiles documents numpy style; VariableSizedTiles documents IndexError for
            # anything outside [(0,0), shape): either reading is accepted, a wrong shape is not.
            for idx in ((rr - ny, cc - nx), (rr - ny, cc), (rr, cc - nx)):
                st, got = call(T.tile_shape, idx)
                if st == "ok":
                    if yx_of(got) != wshape:
                        r.fail(f"{K}.tile_shape:negative-index",
                               f"{case}: tile_shape({idx}) -> {got} want {wshape} (tile {(rr, cc)})")
                elif K == "Tiles" or got != "IndexError":
                    r.fail(f"{K}.tile_shape:negative-index:raises", f"{case}: tile_shape({idx}) raised {got}")
                else:
                    obs[f"obs:{K}.tile_shape:negative-index:IndexError"] = 1
    if (cover > 1).any():
        y, x = map(int, np.argwhere(cover > 1)[0])
        r.fail(f"{K}:partition:overlap:{m.cls}", f"{case}: pixel {(y, x)} covered {int(cover[y, x])} times")
    if (cover < 1).any():
        y, x = map(int, np.argwhere(cover < 1)[0])
        r.fail(f"{K}:partition:gap:{m.cls}", f"{case}: pixel {(y, x)} not covered")

    # pixel -> tile lookup is the inverse of tile -> region
    oky = [i for i in range(ny) for _ in range(m.chy[i])]
    okx = [i for i in range(nx) for _ in range(m.chx[i])]
    for y in range(H):
        for x in range(W):
            want = (oky[y], okx[x])
            pc = f"{axis_cls(want[0], ny)}-{axis_cls(want[1], nx)}"
            for form, pix in (("tuple", (y, x)), ("Index2d", iyx_(y, x)), ("numpy-int", (np.int64(y), np.int32(x)))):
                st, got = call(T.locate, pix)
                fk = "" if form == "tuple" else f":{form}"
                if st != "ok" or tuple(map(int, got)) != want:
                    r.fail(f"{K}.locate{fk}:{pc}", f"{case}: locate({rp(pix)}) -> {got} want {want}")
                elif owner[y, x] != got[0] * nx + got[1]:
                    r.fail(f"{K}.locate{fk}:not-inverse:{pc}",
                           f"{case}: locate({rp(pix)}) -> {got} but that tile's region does not hold the pixel")
    for side, pix in (("above", (-1, 0)), ("left", (0, -1)), ("below", (H, 0)), ("right", (0, W)),
                      ("corner", (H, W)), ("far-below", (H + 7, 0)), ("numpy-int-right", (np.int64(0), np.int64(W))),
                      ("negative-wrap", (-H, -W))):
        st, got = call(T.locate, pix)
        if not (st == "exc" and got == "IndexError"):
            r.fail(f"{K}.locate:outside:{side}", f"{case}: locate({pix}) -> {got}, pixel is outside {(H, W)}")

    # index validation one step outside [-n, n)
    for side, idx in (("above", (ny, 0)), ("above", (0, nx)), ("below", (-ny - 1, 0)), ("below", (0, -nx - 1)),
                      ("above", (ny + 1, 0)), ("below", (0, -nx - 2)), ("below", (-2 * ny - 1, -1))):
        st, got = call(T.tile_shape, idx)  # documented for both classes: raises IndexError
        if not (st == "exc" and got == "IndexError"):
            r.fail(f"{K}.tile_shape:out-of-range:{side}",
                   f"{case}: tile_shape({idx}) -> {got}; documented to raise IndexError outside [(0,0),{(ny, nx)})")
        st, got = call(T.__getitem__, idx)
        if st == "exc" and got == "IndexError":
            continue
        if K == "Tiles":  # explicit index validation in the regular tiling
            r.fail(f"{K}[r,c]:out-of-range:{side}", f"{case}: [{idx}] -> {got}, expected IndexError")
        else:  # no documented contract: observation only
            obs[f"obs:{K}[r,c]:out-of-range:{side}:{'raises-' + got if st == 'exc' else 'returns'}"] = 1
    # numpy integers as slice bounds and as the int of a crop
    st, got = call(T.__getitem__, (slice(np.int64(0), np.int64(ny)), slice(np.int32(-nx), None)))
    if st != "ok" or not same_roi(got, m.region(0, ny, 0, nx)):
        r.fail(f"{K}[slices]:numpy-int-bounds", f"{case}: [np.int64(0):np.int64({ny}), np.int32({-nx}):] -> {got}")
    st, C = call(T.crop, (np.int64(ny - 1), slice(None)))
    if st != "ok" or tuple(map(tuple, C.chunks)) != (m.chy[-1:], m.chx):
        r.fail(f"{K}.crop:numpy-int-index", f"{case}: crop((np.int64({ny - 1}), :)) -> {rp(C)}; want chunks "
                                            f"{(m.chy[-1:], m.chx)} as for the python int")
    return r


# ---------------------------------------------------------------------------------------------
# slice: every block of tiles (slice pairs), crop
# ---------------------------------------------------------------------------------------------
def spellings(a, b, n):
    """every equivalent spelling of the non-empty tile-index block a:b (0 <= a < b <= n) on an axis of n tiles:
    a:b, :b (a == 0), a: (b == n), : (whole), negative bounds a-n / b-n, and the ints a, a-n when b == a+1.
    The first entry is the explicit spelling a:b.  Returns (spelling class, index object)."""
    aa = [("pos", a), ("neg", a - n)] + ([("none", None)] if a == 0 else [])
    bb = [("pos", b)] + ([("neg", b - n)] if b < n else []) + ([("none", None)] if b == n else [])
    out = [(f"{ka}:{kb}", slice(va, vb)) for ka, va in aa for kb, vb in bb]
    if b == a + 1:
        out += [("int", a), ("negint", a - n)]
    return out


def probes_1d(n):
    """(spelling class, index object, block) probes for the OTHER axis of large tilings: whole axis spelled `:`,
    first tile spelled 0:1, last tile spelled -1."""
    return [("none:none", slice(None), (0, n)), ("pos:pos", slice(0, 1), (0, 1)), ("negint", -1, (n - 1, n))]


def blocks_1d(n):
    return [(a, b) for a in range(n) for b in range(a + 1, n + 1)]


def run_crop(case, thorough=False):
    m = Model(case)
    K = m.K
    T = m.build()
    ny, nx = m.ny, m.nx
    r = R(outcome=m.size_label(), nontrivial=ny * nx > 1, counts={})
    by, bx = blocks_1d(ny), blocks_1d(nx)
    sp_y = {ab: spellings(*ab, ny) for ab in by}
    sp_x = {cd: spellings(*cd, nx) for cd in bx}
    n_sp = n_cr = 0
    # The spelling is a full dimension: full product of the spellings on both axes for tilings with <= 2 tiles per
    # axis (thorough: lookups always, crops <= 4 tiles per axis); larger tilings: the explicit spelling of every
    # block here, and below every spelling of every block on one axis x probes on the other axis.
    # Tiles whose tile exceeds base+1 behave exactly like tile == base+1 (one tile): quick leaves their spelled
    # products to the probes.
    redundant = K == "Tiles" and (m.tile[0] > m.H + 1 or m.tile[1] > m.W + 1)
    full_crop = max(ny, nx) <= 4 if thorough else (max(ny, nx) <= 2 and not redundant)
    full_lookup = thorough or full_crop
    canon = {}

    def lookup(idx, fy, fx, want):
        nonlocal n_sp
        st, got = call(T.__getitem__, idx)
        n_sp += 1
        if st != "ok" or not same_roi(got, want):
            r.fail(f"{K}[block]:spelling:row({fy})/col({fx}):region", f"{case}: [{idx}] -> {got} want {want}")

    def spelled_crop(idx, fy, fx, blk):
        """a crop under another spelling equals the crop under the explicit spelling (judged by the full oracle)"""
        nonlocal n_cr
        a, b, c, d = blk
        st, C2 = call(T.crop, idx)
        n_cr += 1
        key = f"{K}.crop:spelling:row({fy})/col({fx})"
        want = m.region(a, b, c, d)
        if st != "ok":
            r.fail(f"{key}:raises", f"{case}: crop({idx}) raised {C2}")
        elif type(C2) is not type(T):
            r.fail(f"{key}:type", f"{case}: crop({idx}) -> {type(C2).__name__}")
        elif yx_of(C2.base) != (want[0].stop - want[0].start, want[1].stop - want[1].start):
            r.fail(f"{key}:base", f"{case}: crop({idx}).base = {C2.base}; tiles [{a}:{b},{c}:{d}] cover {want}")
        elif yx_of(C2.shape) != (b - a, d - c):
            r.fail(f"{key}:shape", f"{case}: crop({idx}).shape = {C2.shape} want {(b - a, d - c)}")
        elif blk in canon and not (C2 == canon[blk] and canon[blk] == C2):
            r.fail(f"{key}:differs-from-explicit-spelling",
                   f"{case}: crop({idx}) = {rp(C2)} but crop([{a}:{b},{c}:{d}]) = {rp(canon[blk])}")

    for a, b in by:
        for c, d in bx:
            want = m.region(a, b, c, d)
            # crop == freshly built tiling of the cropped rectangle, indices re-based (explicit spelling)
            roi = (slice(a, b), slice(c, d))
            st, C = call(T.crop, roi)
            bc = "whole" if (b - a, d - c) == (ny, nx) else ("edge" if b == ny or d == nx else "inner")
            if st != "ok":
                r.fail(f"{K}.crop:raises", f"{case}: crop({roi}) raised {C}")
            elif type(C) is not type(T):
                r.fail(f"{K}.crop:type", f"{case}: crop({roi}) -> {type(C).__name__}")
            else:
                canon[(a, b, c, d)] = C
                F = m.fresh(a, b, c, d)
                if yx_of(C.base) != (want[0].stop - want[0].start, want[1].stop - want[1].start):
                    r.fail(f"{K}.crop:base:{bc}", f"{case}: crop({roi}).base={C.base} region {want}")
                if yx_of(C.shape) != (b - a, d - c):
                    r.fail(f"{K}.crop:shape:{bc}", f"{case}: crop({roi}).shape={C.shape}")
                st, ch = call(lambda: C.chunks)  # noqa: B023
                if st != "ok" or tuple(map(tuple, ch)) != (m.chy[a:b], m.chx[c:d]):
                    r.fail(f"{K}.crop:chunks:{bc}",
                           f"{case}: crop({roi}).chunks={ch} want {(m.chy[a:b], m.chx[c:d])}")
                if not (C == F and F == C):
                    r.fail(f"{K}.crop:not-fresh-tiling:{bc}", f"{case}: crop({roi}) = {rp(C)} != fresh {rp(F)}")
                oy0, ox0 = want[0].start, want[1].start
                for i in range(b - a):
                    for j in range(d - c):
                        st, got = call(C.__getitem__, (i, j))
                        w2 = m.region(a + i, a + i + 1, c + j, c + j + 1)
                        w2 = (slice(w2[0].start - oy0, w2[0].stop - oy0),
                              slice(w2[1].start - ox0, w2[1].stop - ox0))
                        if st != "ok" or not same_roi(got, w2):
                            r.fail(f"{K}.crop:rebase:{bc}",
                                   f"{case}: crop({roi})[{i},{j}] -> {got}; parent tile {(a + i, c + j)} "
                                   f"re-based is {w2}")
            # every spelling of the same block: region lookup and crop
            for iy, (fy, sy) in enumerate(sp_y[(a, b)]):
                for ix, (fx, sx) in enumerate(sp_x[(c, d)]):
                    first = not (iy or ix)
                    if full_lookup or first:
                        lookup((sy, sx), fy, fx, want)
                    if full_crop and not first:
                        spelled_crop((sy, sx), fy, fx, (a, b, c, d))
    # larger tilings: every spelling of every block on one axis x probes on the other axis
    if not (full_lookup and full_crop):
        for axis, blocks, sp, n_other in ((0, by, sp_y, nx), (1, bx, sp_x, ny)):
            for ab in blocks:
                for f, sl in sp[ab]:
                    for pf, ps, pblk in probes_1d(n_other)[:3 if thorough else 2]:
                        idx = (sl, ps) if axis == 0 else (ps, sl)
                        blk = (*ab, *pblk) if axis == 0 else (*pblk, *ab)
                        fy, fx = (f, pf) if axis == 0 else (pf, f)
                        if not full_lookup:
                            lookup(idx, fy, fx, m.region(*blk))
                        if not full_crop:
                            spelled_crop(idx, fy, fx, blk)
    # empty / reversed tile selections are outside the stated domain: record what happens
    for name, sel in (("empty-at-0", slice(0, 0)), ("empty-at-end", slice(ny, ny)), ("reversed", slice(ny, 0))):
        st, got = call(T.__getitem__, (sel, slice(None)))
        r.counts[f"obs:{K}[{name},:]:{'raises-' + got if st == 'exc' else 'returns'}"] = 1
    r.counts["spelled_block_lookups"] = n_sp
    r.counts["spelled_crops"] = n_cr
    # the parent tiling is what it was before all these crops (no state shared with the crops)
    if not (T == m.build()) or tuple(map(tuple, T.chunks)) != (m.chy, m.chx):
        r.fail(f"{K}.crop:parent-changed", f"{case}: after the crops the parent is {rp(T)} chunks {T.chunks}")
    return r


# ---------------------------------------------------------------------------------------------
# slice: clip_tiles over every ordered pair of tile indices (and singletons / triples)
# ---------------------------------------------------------------------------------------------
def judge_clip(r, m, T, sel, K):
    st, res = call(clip_tiles, T, sel)
    case = m.case
    if st != "ok":
        r.fail(f"clip_tiles:{K}:raises", f"{case}: clip_tiles({sel}) raised {res}")
        return
    C, roi, new = res
    given, sel = sel, [(int(y), int(x)) for y, x in sel]  # the oracle works on python ints
    a, b = min(s[0] for s in sel), max(s[0] for s in sel) + 1
    c, d = min(s[1] for s in sel), max(s[1] for s in sel) + 1
    if not same_roi(roi, (slice(a, b), slice(c, d))):
        r.fail(f"clip_tiles:{K}:roi", f"{case}: clip_tiles({sel}) roi={roi} want [{a}:{b},{c}:{d}]")
        return
    want_new = [(y - a, x - c) for y, x in sel]
    if [tuple(map(int, v)) for v in new] != want_new:
        dup = ":duplicates" if len(set(sel)) < len(sel) else ""
        r.fail(f"clip_tiles:{K}:new-index{dup}", f"{case}: clip_tiles({rp(given)}) idx={new} want {want_new}")
        return
    F = m.fresh(a, b, c, d)
    if type(C) is not type(T) or not C == F:
        r.fail(f"clip_tiles:{K}:not-fresh-tiling", f"{case}: clip_tiles({sel}) -> {rp(C)} != fresh {rp(F)}")
    if tuple(map(tuple, C.chunks)) != (m.chy[a:b], m.chx[c:d]):
        r.fail(f"clip_tiles:{K}:chunks", f"{case}: clip_tiles({sel}).chunks={C.chunks}")
    org = m.region(a, b, c, d)
    oy0, ox0 = org[0].start, org[1].start
    for (y, x), nidx in zip(sel, want_new):
        st, got = call(C.__getitem__, nidx)
        w = m.region(y, y + 1, x, x + 1)
        w = (slice(w[0].start - oy0, w[0].stop - oy0), slice(w[1].start - ox0, w[1].stop - ox0))
        if st != "ok" or not same_roi(got, w):
            r.fail(f"clip_tiles:{K}:rebase",
                   f"{case}: clip_tiles({sel}): new index {nidx} -> {got}; parent tile {(y, x)} re-based is {w}")


def run_clip(case, thorough=False):
    m = Model(case)
    K = m.K
    T = m.build()
    r = R(outcome=m.size_label(), nontrivial=m.ny * m.nx > 1)
    tiles = [(y, x) for y in range(m.ny) for x in range(m.nx)]
    for t1 in tiles:
        judge_clip(r, m, T, [t1], K)
        for t2 in tiles:
            # quick: every unordered pair (every bounding block of two tiles, incl. anti-diagonal ones);
            # thorough: both listing orders
            if thorough or t1 < t2:
                judge_clip(r, m, T, [t1, t2], K)
    # the four corners and a three-tile selection
    ny, nx = m.ny, m.nx
    judge_clip(r, m, T, [(0, 0), (0, nx - 1), (ny - 1, nx - 1), (ny - 1, 0)], K)
    judge_clip(r, m, T, [(ny - 1, nx // 2), (ny // 2, 0), (ny // 2, nx - 1)], K)
    # duplicates stay duplicates (one new index per given index); the selection may be given in other encodings
    corners = [(ny - 1, nx - 1), (0, 0), (ny - 1, nx - 1), (0, nx - 1), (0, 0)]
    judge_clip(r, m, T, corners, K)
    judge_clip(r, m, T, [tiles[-1], tiles[-1]], K)
    for ename, sel in (("list-of-lists", [list(t) for t in corners]), ("tuple-of-tuples", tuple(corners)),
                       ("numpy-array", np.array(corners)), ("numpy-int-tuples", [tuple(map(np.int64, t)) for t in corners])):
        nf = len(r.fails)
        judge_clip(r, m, T, sel, K)
        for f in r.fails[nf:]:
            f.key = f"{f.key}:selection-as-{ename}"
    st, got = call(clip_tiles, T, [])  # clipping to nothing is not defined by the statement: observation
    r.counts = {f"obs:clip_tiles:empty-selection:{'raises-' + got if st == 'exc' else 'returns'}": 1}
    if not (T == m.build()) or tuple(map(tuple, T.chunks)) != (m.chy, m.chx):
        r.fail(f"clip_tiles:{K}:parent-changed", f"{case}: after clipping the parent is {rp(T)}")
    return r


# ---------------------------------------------------------------------------------------------
# slices: ONE axis with many chunks - size RELATIONS between the chunks of an axis
#
# The square of compositions above stops at N <= 6 (7) per axis; there a chunking cannot be uneven and still share
# prefix sums / mean / first-last sizes with an even tiling (that needs >= 4 chunks and N >= 7).  The axes are
# independent in the code, so the long chunkings are enumerated along one axis at a time (both axis orders)
# against one or two short chunkings on the other axis.
# ---------------------------------------------------------------------------------------------
REL_ALPHABETS = (((1, 2, 3), 5), ((2, 8, 14), 5), ((0, 10, 20), 7))  # ({s-d, s, s+d}, extra ragged last chunk)
PFX_SG = ((2, 1), (2, 2), (3, 1), (3, 2), (3, 3), (8, 1), (8, 7), (8, 8))  # (first size s, deviation g)
PFX_SG_Q8 = ((3, 1), (8, 7))  # quick, 8 chunks


def rel_products(nmin, nmax, alphabets=REL_ALPHABETS):
    """EVERY chunk tuple of length n over a three-letter alphabet {s-d, s, s+d} (last chunk: also one ragged value):
    holds every equal-mean / first==last / first==second / sorted / all-but-one / prefix-on-even-grid pattern."""
    for alpha, extra in alphabets:
        for n in range(nmin, nmax + 1):
            for head in itertools.product(alpha, repeat=n - 1):
                for last in alpha + (extra,):
                    yield head + (last,)


def rel_prefix_subsets(nmin, nmax, sg=PFX_SG):
    """For every subset K of the positions 2..n: a chunking whose prefix sum cum[k] equals k * (first size) exactly
    for k in K (and k = 1), off by -g / +g / alternately +g,-g per run elsewhere; g == s gives zero-length chunks."""
    for n in range(nmin, nmax + 1):
        for s, g in sg:
            for mask in range(1 << (n - 1)):
                on = [True, True] + [bool(mask >> (k - 2) & 1) for k in range(2, n + 1)]  # on[k]: cum[k] == k*s
                for pat in ("-", "+", "alt"):
                    dev, sign, prev_on = [0] * (n + 1), -1, True
                    for k in range(2, n + 1):
                        if on[k]:
                            prev_on = True
                            continue
                        if prev_on and pat == "alt":
                            sign = -sign
                        prev_on = False
                        dev[k] = g * (sign if pat == "alt" else (-1 if pat == "-" else 1))
                    ch = tuple(s + dev[k + 1] - dev[k] for k in range(n))
                    if min(ch) >= 0:
                        yield ch


def rel_shapes(nmin, nmax):
    """all-equal-but-one at each position; strictly increasing / decreasing; first == last around a different
    interior (flat, rising, mountain)."""
    for n in range(nmin, nmax + 1):
        for s in (1, 2, 3, 5, 8, 10):
            for p in range(n):
                for v in sorted({0, 1, s - 1, s + 1, 2 * s, 2 * s + 1, 20} - {s}):
                    yield tuple(v if k == p else s for k in range(n))
        for a in (1, 2, 3, 4):
            for d in (1, 2):
                up = tuple(a + d * k for k in range(n))
                yield up
                yield up[::-1]
                mid = tuple(a + d * min(k, n - 1 - k) for k in range(n))  # mountain: first == last, palindrome
                yield mid
                yield tuple(a + d * (n // 2) - (c - a) for c in mid)  # valley
        for s in (1, 2, 3, 5, 8):
            for t in (1, 2, 3, 5, 8):
                if s != t:
                    yield (s,) + (t,) * (n - 2) + (s,)
            yield (s,) + tuple(s + k for k in range(1, n - 1)) + (s,)


def gen_axis(tier, heavy):
    """heavy: the set given to the crop / clip oracles (quick: reduced lengths), else the set for the index oracle."""
    def gen():
        q = tier == "quick"
        nc = 6 if q else 7  # compositions of N <= nc are in the square above
        nmax = 9 if q else 10
        seen = set()

        def both(ch, others):
            for o in others:
                for case in (("V", ch, o), ("V", o, ch)):
                    if case not in seen:
                        seen.add(case)
                        yield case

        for N in range(nc + 1, nmax + 1):
            for ch in comps(N):
                yield from both(ch, ((1,),) if heavy else ((1,), (2, 1, 3)))
        chain = itertools.chain
        if heavy and q:
            fams = (rel_products(4, 4), rel_prefix_subsets(5, 5), rel_shapes(5, 5))
        elif heavy:
            fams = (rel_products(4, 6), rel_prefix_subsets(5, 8), rel_shapes(5, 8))
        elif q:
            fams = (chain(rel_products(4, 5), rel_products(6, 6, REL_ALPHABETS[:1])),
                    chain(rel_prefix_subsets(5, 7), rel_prefix_subsets(8, 8, PFX_SG_Q8)), rel_shapes(5, 8))
        else:
            fams = (rel_products(4, 7), rel_prefix_subsets(5, 8), rel_shapes(5, 8))
        for fam in fams:
            for ch in fam:
                if sum(ch) > 0:
                    yield from both(ch, ((1,),))

    return gen


def rel_label(ch):
    """relation of a chunk tuple to the even tiling by its first size (pure arithmetic): names the class exercised."""
    n, o, s = len(ch), cum(ch), ch[0]
    if len(set(ch)) == 1:
        return "even"
    if len(set(ch[:-1])) == 1:
        return "even-but-last"
    tags = []
    if o[n - 1] == (n - 1) * s:
        tags.append("last-tile-starts-on-even-grid")
    elif any(o[k] == k * s for k in range(3, n - 1)):
        tags.append("a-prefix-ends-on-even-grid")
    if o[n] == n * s:
        tags.append("mean=first")
    if ch[0] == ch[-1]:
        tags.append("first=last")
    if all(a < b for a, b in zip(ch, ch[1:])) or all(a > b for a, b in zip(ch, ch[1:])):
        tags.append("monotone")
    if 0 in ch:
        tags.append("zero-chunk")
    return "+".join(tags) or "unrelated"


def axis_run(run):
    def f(case):
        r = run(case)
        _, chy, chx = case
        rows = len(chy) >= len(chx)
        r.outcome = f"{r.outcome}:{'rows' if rows else 'cols'}:{rel_label(chy if rows else chx)}"
        return r

    return f


# ---------------------------------------------------------------------------------------------
# slice: GeoboxTiles over dyadic GeoBoxes
# ---------------------------------------------------------------------------------------------
AFFINES = {
    "north-up": Affine(0.5, 0.0, 10.0, 0.0, -0.25, 20.0),
    "rot90": Affine(0.0, -2.0, -4.0, 2.0, 0.0, 6.5),
    "shear": Affine(1.0, 0.5, 100.0, 0.25, -2.0, -8.0),
}
CRSS = {"utm": "EPSG:32633", "none": None}


def gen_gbt(tier):
    def gen():
        nb = 5 if tier == "quick" else 7
        tl = (1, 2, 3, 7) if tier == "quick" else (1, 2, 3, 4, 5, 8)
        cc = all_comps(4 if tier == "quick" else 5)
        for ak in AFFINES:
            for ck in CRSS:
                if ck == "none" and ak != "north-up":
                    continue
                for H in range(1, nb + 1):
                    for W in range(1, nb + 1):
                        for h in tl:
                            for w in tl:
                                yield (ak, ck, ("T", H, W, h, w))
                for chy in cc:
                    for chx in cc:
                        yield (ak, ck, ("V", chy, chx))

    return gen


def run_gbt(case, thorough=False):
    ak, ck, tcase = case
    m = Model(tcase)
    A, crs = AFFINES[ak], CRSS[ck]
    base = GeoBox((m.H, m.W), A, crs)
    K = "GeoboxTiles[regular]" if m.K == "Tiles" else "GeoboxTiles[chunked]"
    gbt = GeoboxTiles(base, m.tile if m.K == "Tiles" else (m.chy, m.chx))
    ny, nx = m.ny, m.nx
    r = R(outcome=f"{ak}:{ck}:{m.size_label()}", nontrivial=ny * nx > 1)

    def want_gbox(a, b, c, d):
        reg = m.region(a, b, c, d)
        y0, x0 = reg[0].start, reg[1].start
        return GeoBox((reg[0].stop - y0, reg[1].stop - x0), A * Affine.translation(x0, y0), crs), reg

    if gbt.base is not base and not gbt.base == base:
        r.fail(f"{K}.base", f"{case}: base changed")
    if yx_of(gbt.shape) != (ny, nx):
        r.fail(f"{K}.shape", f"{case}: shape {gbt.shape} want {(ny, nx)}")
    st, ch = call(lambda: gbt.chunks)
    if st != "ok" or tuple(map(tuple, ch)) != (m.chy, m.chx):
        r.fail(f"{K}.chunks", f"{case}: chunks {ch} want {(m.chy, m.chx)}")
    if type(gbt.roi).__name__ != m.K:
        r.fail(f"{K}.roi:type", f"{case}: roi is {type(gbt.roi).__name__}")
    # same tiling from other encodings of the tile shape / chunks
    if m.K == "Tiles":
        encs = (("list", list(m.tile)), ("numpy-ints", (np.int64(m.tile[0]), np.int32(m.tile[1]))),
                ("Shape2d", wh_(m.tile[1], m.tile[0])))
    else:
        encs = (("lists", (list(m.chy), list(m.chx))), ("list-of-lists", [list(m.chy), list(m.chx)]),
                ("numpy-ints", (tuple(map(np.int64, m.chy)), tuple(map(np.int32, m.chx)))))
    for ename, how in encs:
        st, ge = call(GeoboxTiles, base, how)
        if st != "ok" or not (ge == gbt and gbt == ge) or tuple(map(tuple, ge.chunks)) != (m.chy, m.chx):
            r.fail(f"{K}:encoding:{ename}", f"{case}: GeoboxTiles(base, {rp(how)}) -> {rp(ge)}; differs from {rp(gbt)}")

    tiles = [(y, x) for y in range(ny) for x in range(nx)]
    for y, x in tiles:
        want, reg = want_gbox(y, y + 1, x, x + 1)
        pc = f"{axis_cls(y, ny)}-{axis_cls(x, nx)}"
        for form, idx in (("pos", (y, x)), ("neg", (y - ny, x - nx)), ("Index2d", iyx_(y, x))):
            st, got = call(gbt.__getitem__, idx)
            if st != "ok":
                r.fail(f"{K}[r,c]:raises:{form}", f"{case}: [{idx}] raised {got}")
                continue
            if not (got == want):
                r.fail(f"{K}[r,c]:geobox:{form}:{pc}", f"{case}: [{idx}] -> {rp(got)} want {rp(want)}")
                continue
            # same world location for the tile's corner pixels as seen from the parent
            hh, ww = want.shape
            for px, py in ((0, 0), (ww, 0), (0, hh), (ww, hh), (0.5, 0.5)):
                if got.affine * (px, py) != A * (reg[1].start + px, reg[0].start + py):
                    r.fail(f"{K}[r,c]:pix2wld:{pc}", f"{case}: [{idx}] pixel {(px, py)} maps elsewhere than in parent")
        st, got = call(gbt.chunk_shape, (y, x))
        if st != "ok" or yx_of(got) != (m.chy[y], m.chx[x]):
            r.fail(f"{K}.chunk_shape:pos:{pc}", f"{case}: chunk_shape({(y, x)}) -> {got}")
        st, got = call(gbt.chunk_shape, (y - ny, x - nx))
        if st == "ok":
            if yx_of(got) != (m.chy[y], m.chx[x]):
                r.fail(f"{K}.chunk_shape:negative-index",
                       f"{case}: chunk_shape({(y - ny, x - nx)}) -> {got} want {(m.chy[y], m.chx[x])}")
        elif got != "IndexError":
            r.fail(f"{K}.chunk_shape:negative-index:raises", f"{case}: chunk_shape({(y - ny, x - nx)}) raised {got}")
        # identical request through the other entry points
        if call(gbt.roi.__getitem__, (y, x)) != ("ok", reg) or call(gbt.roi.tile_shape, (y, x))[1] != call(
                gbt.chunk_shape, (y, x))[1]:
            r.fail(f"{K}.roi:entry-point-differs", f"{case}: roi[{(y, x)}] / roi.tile_shape differ from the tile")
        st, got = call(gbt.__getitem__, (np.int64(y), np.int32(x - nx)))
        if st != "ok" or not (got == want):
            r.fail(f"{K}[r,c]:numpy-int-index", f"{case}: [(np.int64({y}), np.int32({x - nx}))] -> {rp(got)} want {rp(want)}")
        st, got = call(gbt.pix_bbox, (y, x))
        wb = (reg[1].start, reg[0].start, reg[1].stop, reg[0].stop)
        if st != "ok" or tuple(got.bbox) != wb or got.crs is not None:
            r.fail(f"{K}.pix_bbox:{pc}", f"{case}: pix_bbox({(y, x)}) -> {got} want {wb}")

    # documented IndexError one step outside
    for side, idx in (("above", (ny, 0)), ("above", (0, nx)), ("below", (-ny - 1, 0)), ("below", (0, -nx - 1))):
        for name, fn in (("[r,c]", gbt.__getitem__), (".chunk_shape", gbt.chunk_shape)):
            st, got = call(fn, idx)
            if not (st == "exc" and got == "IndexError"):
                r.fail(f"{K}{name}:out-of-range:{side}",
                       f"{case}: {name}({idx}) -> {rp(got)}; documented to raise IndexError outside [(0,0),{(ny, nx)})")

    # blocks of tiles: lookup by slices, crop[...]; the spelling of the block is a full dimension:
    # first GeoBox: full product of the per-axis spellings for tilings with <= 2 tiles per axis, beyond that every
    # spelling of every block on one axis x probes {':', '0:1'} on the other; other GeoBoxes: probe ':' only
    # (the spelling logic does not see the affine / CRS).  thorough: product up to 3 tiles per axis, 3 probes, all.
    first_gb = (ak, ck) == ("north-up", "utm")
    full_sp = max(ny, nx) <= 3 if thorough else (first_gb and max(ny, nx) <= 2)
    n_probe = 3 if thorough else (2 if first_gb else 1)
    by, bx = blocks_1d(ny), blocks_1d(nx)
    sp_y = {ab: spellings(*ab, ny) for ab in by}
    sp_x = {cd: spellings(*cd, nx) for cd in bx}
    n_cr = 0
    canon = {}

    def spelled(idx, fy, fx, blk):
        nonlocal n_cr
        a, b, c, d = blk
        want, _ = want_gbox(a, b, c, d)
        sk = f"row({fy})/col({fx})"
        st, got = call(gbt.__getitem__, idx)
        if st != "ok" or not (got == want):
            r.fail(f"{K}[block]:spelling:{sk}:geobox", f"{case}: [{idx}] -> {rp(got)} want {rp(want)}")
        st, C2 = call(lambda: gbt.crop[idx])
        n_cr += 1
        C = canon.get(blk)
        if st != "ok":
            r.fail(f"{K}.crop:spelling:{sk}:raises", f"{case}: crop[{idx}] raised {C2}")
        elif not (C2.base == want):
            r.fail(f"{K}.crop:spelling:{sk}:base",
                   f"{case}: crop[{idx}].base = {rp(C2.base)}; parent cropped to tiles [{a}:{b},{c}:{d}] is {rp(want)}")
        elif yx_of(C2.shape) != (b - a, d - c):
            r.fail(f"{K}.crop:spelling:{sk}:shape", f"{case}: crop[{idx}].shape = {C2.shape}")
        elif tuple(map(tuple, C2.chunks)) != (m.chy[a:b], m.chx[c:d]):
            r.fail(f"{K}.crop:spelling:{sk}:chunks", f"{case}: crop[{idx}].chunks = {C2.chunks}")
        elif C is not None:
            # equal to the crop under the explicit spelling, which went through the full oracle (every tile)
            if not (C2 == C and C == C2):
                r.fail(f"{K}.crop:spelling:{sk}:differs-from-explicit-spelling",
                       f"{case}: crop[{idx}] != crop[{a}:{b},{c}:{d}]")
        else:
            for i, j in {(0, 0), (b - a - 1, d - c - 1)}:
                w2, _ = want_gbox(a + i, a + i + 1, c + j, c + j + 1)
                st, got = call(C2.__getitem__, (i, j))
                if st != "ok" or not (got == w2):
                    r.fail(f"{K}.crop:spelling:{sk}:rebase", f"{case}: crop[{idx}][{i},{j}] -> {rp(got)} want {rp(w2)}")

    for a, b in by:
        for c, d in bx:
            want, reg = want_gbox(a, b, c, d)
            roi = (slice(a, b), slice(c, d))
            st, got = call(gbt.__getitem__, roi)
            if st != "ok" or not (got == want):
                r.fail(f"{K}[slices]:geobox", f"{case}: [{roi}] -> {rp(got)} want {rp(want)}")
            st, C = call(lambda: gbt.crop[roi])  # noqa: B023
            if st != "ok":
                r.fail(f"{K}.crop:raises", f"{case}: crop[{roi}] raised {C}")
            else:
                canon[(a, b, c, d)] = C
                if not (C.base == want):
                    r.fail(f"{K}.crop:base", f"{case}: crop[{roi}].base = {rp(C.base)} want {rp(want)}")
                if yx_of(C.shape) != (b - a, d - c) or tuple(map(tuple, C.chunks)) != (m.chy[a:b], m.chx[c:d]):
                    r.fail(f"{K}.crop:chunks", f"{case}: crop[{roi}]: shape {C.shape} chunks {C.chunks}")
                Fg = GeoboxTiles(want, m.tile if m.K == "Tiles" else (m.chy[a:b], m.chx[c:d]))
                if not (C == Fg):
                    r.fail(f"{K}.crop:not-fresh-tiling", f"{case}: crop[{roi}] != GeoboxTiles of the cropped GeoBox")
                for i in range(b - a):
                    for j in range(d - c):
                        w2, _ = want_gbox(a + i, a + i + 1, c + j, c + j + 1)
                        st, got = call(C.__getitem__, (i, j))
                        if st != "ok" or not (got == w2):
                            r.fail(f"{K}.crop:rebase", f"{case}: crop[{roi}][{i},{j}] -> {rp(got)} want {rp(w2)}")
            if full_sp:
                for iy, (fy, sy) in enumerate(sp_y[(a, b)]):
                    for ix, (fx, sx) in enumerate(sp_x[(c, d)]):
                        if iy or ix:
                            spelled((sy, sx), fy, fx, (a, b, c, d))
    if not full_sp:
        for axis, blocks, sp, n_other in ((0, by, sp_y, nx), (1, bx, sp_x, ny)):
            for ab in blocks:
                for f, sl in sp[ab]:
                    for pf, ps, pblk in probes_1d(n_other)[:n_probe]:
                        idx = (sl, ps) if axis == 0 else (ps, sl)
                        blk = (*ab, *pblk) if axis == 0 else (*pblk, *ab)
                        fy, fx = (f, pf) if axis == 0 else (pf, f)
                        spelled(idx, fy, fx, blk)
    r.counts = {"spelled_crops": n_cr}
    # duplicates and other encodings of the selection
    corners = [(ny - 1, nx - 1), (0, 0), (ny - 1, nx - 1), (0, nx - 1)]
    wantc, _ = want_gbox(0, ny, 0, nx)
    for ename, sel in (("duplicates", corners), ("numpy-array", np.array(corners)),
                       ("list-of-lists", [list(t) for t in corners])):
        st, res = call(gbt.clip, sel)
        if st != "ok" or [tuple(map(int, v)) for v in res[1]] != corners or not (res[0].base == wantc) \
                or tuple(map(tuple, res[0].chunks)) != (m.chy, m.chx):
            r.fail(f"{K}.clip:selection:{ename}", f"{case}: clip({rp(sel)}) -> {rp(res)}; want the whole tiling and {corners}")

    # clip to every ordered pair of tiles
    for t1 in tiles:
        for t2 in tiles:
            if not (thorough or t1 <= t2):
                continue
            sel = [t2, t1]
            st, res = call(gbt.clip, sel)
            if st != "ok":
                r.fail(f"{K}.clip:raises", f"{case}: clip({sel}) raised {res}")
                continue
            C, new = res
            a, b = min(t1[0], t2[0]), max(t1[0], t2[0]) + 1
            c, d = min(t1[1], t2[1]), max(t1[1], t2[1]) + 1
            want, _ = want_gbox(a, b, c, d)
            wn = [(t2[0] - a, t2[1] - c), (t1[0] - a, t1[1] - c)]
            if [tuple(map(int, v)) for v in new] != wn:
                r.fail(f"{K}.clip:new-index", f"{case}: clip({sel}) idx {new} want {wn}")
                continue
            if not (C.base == want):
                r.fail(f"{K}.clip:base", f"{case}: clip({sel}).base = {rp(C.base)} want {rp(want)}")
            if tuple(map(tuple, C.chunks)) != (m.chy[a:b], m.chx[c:d]):
                r.fail(f"{K}.clip:chunks", f"{case}: clip({sel}).chunks = {C.chunks}")
            for (y, x), nidx in zip(sel, wn):
                w2, _ = want_gbox(y, y + 1, x, x + 1)
                st, got = call(C.__getitem__, nidx)
                if st != "ok" or not (got == w2):
                    r.fail(f"{K}.clip:rebase", f"{case}: clip({sel})[{nidx}] -> {rp(got)}; parent tile {(y, x)} is {rp(w2)}")
    # the parent is what it was before all crops and clips
    if not (gbt == GeoboxTiles(GeoBox((m.H, m.W), A, crs), m.tile if m.K == "Tiles" else (m.chy, m.chx))) \
            or tuple(map(tuple, gbt.chunks)) != (m.chy, m.chx):
        r.fail(f"{K}:parent-changed", f"{case}: after crops and clips the parent is {rp(gbt)} on {rp(gbt.base)}")
    return r


# ---------------------------------------------------------------------------------------------
# BlockAssembler: numpy mosaic oracle
# ---------------------------------------------------------------------------------------------
DT = {"u1": "uint8", "i2": "int16", "f4": "float32", "i1": "int8", "u2": "uint16", "i4": "int32", "f8": "float64"}
CFGS = {  # name -> (axis, prefix dims, suffix dims)
    "2d": (0, (), ()),
    "yx+band": (0, (), (2,)),
    "time+yx": (1, (2,), ()),
    "time+yx+band": (1, (2,), (2,)),
}


def mosaic(chy, chx, states, cfg, extremes=False):
    """Build blocks cut from one N-d array of distinct values.

    states: per tile (row-major) None (absent) or a dtype code.
    returns blocks dict, V (float64 full mosaic of block values), P (bool, True where a block is present)
    """
    axis, pre, suf = CFGS[cfg]
    oy, ox = cum(chy), cum(chx)
    full = (*pre, oy[-1], ox[-1], *suf)
    V = (np.arange(int(np.prod(full)), dtype="int64").reshape(full) + 1).astype("float64")
    P = np.zeros(full, dtype=bool)
    blocks = {}
    nx = len(chx)
    ev = tuple(slice(None) for _ in pre)
    for t, stt in enumerate(states):
        if stt is None:
            continue
        iy, ix = divmod(t, nx)
        sel = (*ev, slice(oy[iy], oy[iy + 1]), slice(ox[ix], ox[ix + 1]))
        dt = np.dtype(DT[stt])
        vals = V[sel].copy()
        if dt.kind == "f":
            vals += 0.5
            if extremes and vals.size > 1:
                vals.reshape(-1)[-1] = math.nan  # a nodata-like pixel INSIDE a present block stays what it is
        elif extremes:
            flat = vals.reshape(-1)
            ii = np.iinfo(dt)
            if flat.size:
                flat[0] = ii.max
            if flat.size > 1:
                flat[-1] = ii.min
        elif dt.itemsize == 1:
            vals = vals % 251 + 1
        V[sel] = vals
        P[sel] = True
        blocks[(iy, ix)] = vals.astype(dt)
    return blocks, V, P, axis, full


def expected_full(V, P, fill_f):
    return np.where(P, V, fill_f)


def same_values(got, exp):
    return (
        isinstance(got, np.ndarray)
        and got.shape == exp.shape
        and bool(np.array_equal(got.astype("float64"), exp, equal_nan=True))
    )


def np_index(roi_full, axis, full_shape):
    """numpy index equivalent to the assembler's window: ints on the Y/X axes keep their axis."""
    out = []
    for k, s in enumerate(roi_full):
        if k in (axis, axis + 1) and not isinstance(s, slice):
            i = s + full_shape[k] if s < 0 else s
            s = slice(i, i + 1)
        out.append(s)
    return tuple(out)


def win_cls(s, n):
    if not isinstance(s, slice):
        return "int" if s >= 0 else "negint"
    a, b = s.start, s.stop
    sp = "neg" if (a is not None and a < 0) or (b is not None and b < 0) else (
        "open" if a is None or b is None else "pos")
    k = len(range(n)[s])
    aa = 0 if a is None else (a + n if a < 0 else a)
    bb = n if b is None else (b + n if b < 0 else b)
    size = "reversed" if bb < aa else ("empty" if k == 0 else ("full" if k == n else "part"))
    return f"{sp}-{size}"


def S(t):
    return slice(*t) if isinstance(t, tuple) else t


# ---- slice: geometry - every layout x every subset x every normalised window ------------------
def layouts(tier):
    one = [(a,) for a in (1, 2, 3)]
    two = [(a, b) for a in (1, 2, 3) for b in (1, 2, 3)]
    out = [(cy, cx) for cy in one + two for cx in one + two]
    if tier != "quick":
        three = list(itertools.product((1, 2), repeat=3))
        small = [(1,), (2,), (1, 2), (2, 1), (1, 1), (2, 2)]
        out += [(cy, cx) for cy in three for cx in three]
        out += [(cy, cx) for cy in three for cx in small]
        out += [(cy, cx) for cy in small for cx in three]
    return out


def gen_asm_geom(tier):
    def gen():
        for chy, chx in layouts(tier):
            for mask in range(1 << (len(chy) * len(chx))):
                yield (chy, chx, mask)

    return gen


def run_asm_geom(case):
    chy, chx, mask = case
    nt = len(chy) * len(chx)
    states = tuple("i2" if mask >> t & 1 else None for t in range(nt))
    blocks, V, P, axis, full = mosaic(chy, chx, states, "2d")
    npres = len(blocks)
    r = R(outcome=f"tiles{len(chy)}x{len(chx)}:{'none' if npres == 0 else ('all' if npres == nt else 'some')}",
          nontrivial=npres > 0, counts={})
    asm = BlockAssembler(blocks, (chy, chx))
    H, W = full
    C = np.dtype("int16") if npres else np.dtype("float32")
    if tuple(asm.shape) != full or asm.ndim != 2 or asm.dtype != C:
        r.fail("BlockAssembler:shape-dtype", f"{case}: shape {asm.shape} ndim {asm.ndim} dtype {asm.dtype}")
    E = expected_full(V, P, 0.0 if npres else math.nan)
    Em = expected_full(V, P, -1.0)
    oy, ox = cum(chy), cum(chx)
    nwin = 0
    for a in range(H + 1):
        for b in range(a, H + 1):
            for c in range(W + 1):
                for d in range(c, W + 1):
                    roi = (slice(a, b), slice(c, d))
                    got = asm[roi]
                    nwin += 1
                    if same_values(got, E[roi]) and got.dtype == C:
                        continue
                    # classify the window against the tile grid
                    cy = "empty" if a == b else ("aligned" if a in oy and b in oy else "cuts")
                    cx = "empty" if c == d else ("aligned" if c in ox and d in ox else "cuts")
                    pr = "absent-only" if not P[roi].any() else ("present-only" if P[roi].all() else "mixed")
                    r.fail(f"BlockAssembler[window]:values:y-{cy}:x-{cx}:{pr}",
                           f"{case}: asm[{a}:{b},{c}:{d}] -> {np.asarray(got).tolist()} ({getattr(got, 'dtype', None)})"
                           f" want {E[roi].tolist()} ({C})")
    # explicit fill, one call per layout over the full window and over a cut window
    for roi in (None, (slice(0, H), slice(W // 2, W)), (slice(H // 2, H), slice(0, W))):
        got = asm.extract(-1, roi=roi)
        exp = Em if roi is None else Em[roi]
        nwin += 1
        if not same_values(got, exp):
            r.fail("BlockAssembler.extract:fill-minus-one:values",
                   f"{case}: extract(-1, roi={roi}) -> {np.asarray(got).tolist()} want {exp.tolist()}")
    r.counts["assembler_windows"] = nwin
    return r


# ---- slice: every spelling of the Y/X window (None / negative / int / reversed), 2-d and N-d ---
WIN_LAYOUTS = (((2, 1), (1, 2)), ((1,), (2,)), ((3,), (1, 1)))


def spelled_1d(n):
    vals = [None] + list(range(-n, n + 1))
    out = [(a, b) for a in vals for b in vals]
    out += list(range(-n, n))
    return out


def gen_asm_win(tier):
    def gen():
        lay = WIN_LAYOUTS if tier == "quick" else WIN_LAYOUTS + (((1, 2), (2, 2)),)
        for chy, chx in lay:
            nt = len(chy) * len(chx)
            for cfg in CFGS:
                for mask in range(1 << nt):
                    if mask == 0 and cfg != "2d":
                        continue  # without blocks the assembler cannot know the extra dimensions
                    yield (chy, chx, mask, cfg)

    return gen


def run_asm_win(case):
    chy, chx, mask, cfg = case
    nt = len(chy) * len(chx)
    states = tuple("i2" if mask >> t & 1 else None for t in range(nt))
    blocks, V, P, axis, full = mosaic(chy, chx, states, cfg)
    _, pre, suf = CFGS[cfg]
    npres = len(blocks)
    r = R(outcome=f"{cfg}:{'none' if npres == 0 else ('all' if npres == nt else 'some')}",
          nontrivial=npres > 0, counts={})
    asm = BlockAssembler(blocks, (chy, chx), axis=axis)
    C = np.dtype("int16") if npres else np.dtype("float32")
    if tuple(asm.shape) != full or asm.ndim != len(full) or asm.dtype != C:
        r.fail(f"BlockAssembler:shape-dtype:{cfg}", f"{case}: shape {asm.shape} ndim {asm.ndim} dtype {asm.dtype}")
        return r
    E = expected_full(V, P, 0.0 if npres else math.nan)
    H, W = full[axis], full[axis + 1]
    allp = tuple(slice(None) for _ in pre)
    alls = tuple(slice(None) for _ in suf)
    intp = tuple(0 for _ in pre)
    ints = tuple(1 for _ in suf)
    nwin = 0
    for wy in spelled_1d(H):
        sy = S(wy)
        for wx in spelled_1d(W):
            sx = S(wx)
            forms = [("yx", (sy, sx), (*allp, sy, sx, *alls))]
            if pre or suf:
                forms.append(("full", (*allp, sy, sx, *alls), (*allp, sy, sx, *alls)))
                forms.append(("full-int", (*intp, sy, sx, *ints), (*intp, sy, sx, *ints)))
            for fname, roi, roi_full in forms:
                exp = E[np_index(roi_full, axis, full)]
                st, got = call(asm.__getitem__, roi)
                nwin += 1
                if st == "ok" and same_values(got, exp) and got.dtype == C:
                    continue
                what = f"raised {got}" if st != "ok" else f"-> shape {got.shape} {got.tolist()}"
                r.fail(f"BlockAssembler[window]:{cfg}:{fname}:y({win_cls(sy, H)}):x({win_cls(sx, W)})",
                       f"{case}: asm[{roi}] {what}; numpy mosaic window: shape {exp.shape} {exp.tolist()}")
    r.counts["assembler_windows"] = nwin
    return r


# ---- slice: N-d index forms (short tuples, bare index, ints and slices on the extra axes) ------
EXTRA_IDX = (("all", slice(None)), ("i0", 0), ("i1", 1), ("i-1", -1), ("s01", slice(0, 1)), ("s1", slice(1, None)),
             ("s-1", slice(-1, None)), ("empty", slice(1, 1)))
YX_WINS = (
    ("full", (None, None), (None, None)),
    ("cut", (1, None), (None, -1)),
    ("int-row", 0, (None, None)),
    ("int-col", (None, None), -1),
    ("int-int", -1, 0),
    ("empty", (1, 1), (None, None)),
)


def gen_asm_nd(tier):
    def gen():
        for chy, chx in (((2, 1), (1, 2)), ((1,), (2,))):
            nt = len(chy) * len(chx)
            for cfg in CFGS:
                for mask in range(1, 1 << nt):
                    for w in range(len(YX_WINS)):
                        yield (chy, chx, mask, cfg, w)

    return gen


def run_asm_nd(case):
    chy, chx, mask, cfg, w = case
    nt = len(chy) * len(chx)
    states = tuple("f4" if mask >> t & 1 else None for t in range(nt))
    blocks, V, P, axis, full = mosaic(chy, chx, states, cfg)
    _, pre, suf = CFGS[cfg]
    wname, wy, wx = YX_WINS[w]
    sy, sx = S(wy), S(wx)
    r = R(outcome=f"{cfg}:{wname}", counts={})
    asm = BlockAssembler(blocks, (chy, chx), axis=axis)
    nd = len(full)
    if tuple(asm.shape) != full or asm.ndim != nd or asm.dtype != np.dtype("float32"):
        r.fail(f"BlockAssembler:shape-dtype:{cfg}", f"{case}: shape {asm.shape} ndim {asm.ndim} dtype {asm.dtype}")
        return r
    E = expected_full(V, P, math.nan)
    sl_all = slice(None)
    nwin = 0

    def npify(roi):
        """same index with numpy integers for ints and slice bounds; None when nothing changes"""
        def one(v):
            if isinstance(v, slice):
                return slice(*(None if b is None else np.int64(b) for b in (v.start, v.stop)))
            return np.int32(v)
        out = tuple(one(v) for v in roi)
        has_int = any(not isinstance(v, slice) for v in roi)
        has_bound = any(isinstance(v, slice) and (v.start is not None or v.stop is not None) for v in roi)
        return (out, "numpy-int-index" if has_int else "numpy-int-bounds") if has_int or has_bound else (None, "")

    def judge(tag, roi, roi_full, via_extract=False, key=None):
        nonlocal nwin
        exp = E[np_index(roi_full, axis, full)]
        key = key or f"BlockAssembler[nd-index]:{cfg}:{tag}:{wname}"
        # both entry points: identical arguments must give identical results
        st, got = call(asm.extract, roi=roi)
        if not via_extract:
            st2, got2 = call(asm.__getitem__, roi)
            if st2 != st or (st == "ok" and not _same_array(got, got2)) or (st != "ok" and got != got2):
                r.fail(f"{key}:entry-points-differ", f"{case}: asm[{roi}] and asm.extract(roi={roi}) differ")
        nwin += 1
        if st == "ok" and same_values(got, exp) and got.dtype == np.dtype("float32"):
            return
        what = f"raised {got}" if st != "ok" else f"-> shape {got.shape} {got.tolist()}"
        r.fail(key, f"{case}: asm[{rp(roi)}] {what}; numpy mosaic window: shape {exp.shape} {exp.tolist()}")

    # full-length index: every combination of extra-axis index forms
    for pcomb in itertools.product(EXTRA_IDX, repeat=len(pre)):
        for scomb in itertools.product(EXTRA_IDX, repeat=len(suf)):
            roi = (*(v for _, v in pcomb), sy, sx, *(v for _, v in scomb))
            tag = "full:" + ",".join(k for k, _ in pcomb + scomb) if pcomb + scomb else "full"
            judge(tag, roi, roi)
            nroi, nkey = npify(roi)
            if nroi is not None:
                judge(tag, nroi, roi, key=f"BlockAssembler[nd-index]:{nkey}")
    # short forms, padded on the right like numpy (a 2-tuple is the Y/X window by the class's contract)
    lead = (*(sl_all for _ in pre), sy, sx, *(sl_all for _ in suf))
    for n in range(1, nd):
        if n == 2:
            continue
        for first in ((lead[0],) if not pre else tuple(v for _, v in EXTRA_IDX)):
            roi = (first, *lead[1:n])
            roi_full = (*roi, *(sl_all for _ in range(nd - n)))
            judge(f"short{n}", roi, roi_full)
            if n == 1:
                judge("bare", first, roi_full)
    judge("yx-pair", (sy, sx), lead)
    judge("none", None, tuple(sl_all for _ in range(nd)), via_extract=True)
    judge("empty-tuple", (), tuple(sl_all for _ in range(nd)))  # an explicit () is everything, like numpy's X[()]
    # one index too many is an IndexError
    st, got = call(asm.__getitem__, tuple(sl_all for _ in range(nd + 1)))
    if not (st == "exc" and got == "IndexError"):
        r.fail(f"BlockAssembler[nd-index]:{cfg}:too-many", f"{case}: {nd + 1} indices -> {got}")

    # planes_yx: one index per combination of extra-axis positions, each a 2-d window of the mosaic
    for tag, yx in (("default", _NOTSET), ("window", (sy, sx))):
        if tag == "window" and not (isinstance(sy, slice) and isinstance(sx, slice)):
            continue
        planes = list(asm.planes_yx()) if yx is _NOTSET else list(asm.planes_yx(yx))
        ysl, xsl = (sl_all, sl_all) if yx is _NOTSET else yx
        want = [
            (*ip, ysl, xsl, *isf)
            for ip in np.ndindex(*pre)
            for isf in np.ndindex(*suf)
        ]
        key = lambda t: tuple(v for v in t if not isinstance(v, slice))  # noqa: E731
        if sorted(map(key, planes)) != sorted(map(key, want)) or any(len(p) != nd for p in planes):
            r.fail(f"BlockAssembler.planes_yx:{cfg}:{tag}:indices", f"{case}: planes {planes} want {want}")
            continue
        for p in planes:
            if p[axis] != ysl or p[axis + 1] != xsl:
                r.fail(f"BlockAssembler.planes_yx:{cfg}:{tag}:yx", f"{case}: plane {p} does not carry {ysl},{xsl}")
                continue
            exp = E[np_index(p, axis, full)]
            st, got = call(asm.__getitem__, p)
            nwin += 1
            if st != "ok" or not same_values(got, exp) or got.ndim != 2:
                r.fail(f"BlockAssembler.planes_yx:{cfg}:{tag}:values",
                       f"{case}: asm[{p}] -> {got if st != 'ok' else got.tolist()} want {exp.tolist()}")
    dst = asm.with_yx(asm.shape, (7, 8))
    if tuple(dst) != (*pre, 7, 8, *suf):
        r.fail(f"BlockAssembler.with_yx:{cfg}", f"{case}: with_yx(shape,(7,8)) -> {dst}")
    r.counts["assembler_windows"] = nwin
    return r


# ---- slice: dtypes and fill values ----------------------------------------------------------
FILLS = {
    "None": None, "0": 0, "0.0": 0.0, "-1": -1, "nan": math.nan, "255": 255, "256": 256, "-32769": -32769, "1.5": 1.5,
    "np.float32(nan)": np.float32("nan"), "np.uint8(7)": np.uint8(7), "np.int16(-1)": np.int16(-1),
}
OUT_DT = (None, "float32", "float64", "int32")
DT_LAYOUTS = (((1,), (1,)), ((2,), (1, 2)), ((1, 2), (2, 1)))


def gen_asm_dtype(tier):
    def gen():
        codes = (None, "u1", "i2", "f4")
        for chy, chx in DT_LAYOUTS:
            nt = len(chy) * len(chx)
            for states in itertools.product(codes, repeat=nt):
                for fk in FILLS:
                    for od in OUT_DT:
                        yield (chy, chx, states, fk, od)
        if tier != "quick":
            wide = (None, "i1", "u2", "i4", "f8", "u1", "f4")
            for states in itertools.product(wide, repeat=2):
                for fk in FILLS:
                    for od in OUT_DT:
                        yield ((2,), (1, 2), states, fk, od)

    return gen


def fill_fits(fill, C):
    """the documented promotion: the fill value widens the dtype only when its own minimal numpy type cannot be
    cast safely to C (numpy's type-level notion of "fits"); expressed with numpy primitives only."""
    if fill is None:
        return True
    return bool(np.can_cast(np.min_scalar_type(fill), C, "safe"))


def run_asm_dtype(case):
    chy, chx, states, fk, od = case
    fill = FILLS[fk]
    blocks, V, P, axis, full = mosaic(chy, chx, states, "2d", extremes=True)
    bdt = [b.dtype for b in blocks.values()]
    C = np.result_type(*bdt) if bdt else np.dtype("float32")
    kinds = "+".join(sorted({d.name for d in bdt})) or "no-blocks"
    # domain: an explicit output dtype must hold every block dtype and the fill value
    if od is not None:
        D = np.dtype(od)
        okd = all(np.can_cast(d, D, "safe") for d in bdt)
        if fill is not None:
            f = float(fill)
            if D.kind != "f":
                okd = okd and f == f and f == int(f) and np.iinfo(D).min <= int(f) <= np.iinfo(D).max
        if not okd:
            return R(outcome=f"outside-domain:dtype={od}", nontrivial=False)
    asm = BlockAssembler(blocks, (chy, chx))
    r = R(outcome=f"{kinds}:fill={fk}:dtype={od}", nontrivial=bool(bdt))
    if asm.dtype != C:
        r.fail(f"BlockAssembler.dtype:{kinds}", f"{case}: dtype {asm.dtype}, numpy promotes the blocks to {C}")
    R_dt = np.dtype(od) if od is not None else C
    if fill is None:
        fexp = math.nan if (R_dt.kind == "f") else 0.0
    else:
        fexp = float(fill)
    E = expected_full(V, P, fexp)
    H, W = full
    must = np.dtype(od) if od is not None else (C if fill_fits(fill, C) else None)
    for wname, roi in (("all", None), ("cut", (slice(0, H), slice(W - 1, W))), ("row", (0, slice(None)))):
        kw = {} if od is None else {"dtype": od}
        if roi is not None:
            kw["roi"] = roi
        st, got = call(asm.extract, fill, **kw) if (fill is not None or kw) else call(asm.extract)
        exp = E if roi is None else E[np_index(roi, 0, full)]
        fc = "fits" if must is not None else "needs-wider"
        if st != "ok":
            r.fail(f"BlockAssembler.extract:raises:{kinds}:fill={fk}:dtype={od}",
                   f"{case}: extract({fk}, {kw}) raised {got}")
            break
        if not same_values(got, exp):
            r.fail(f"BlockAssembler.extract:values:{kinds}:fill={fk}:dtype={od}",
                   f"{case}: extract({fk}, {kw}) -> {got.dtype} {got.tolist()} want {exp.tolist()}")
            break
        if must is not None and got.dtype != must:
            r.fail(f"BlockAssembler.extract:dtype:{kinds}:fill={fk}:dtype={od}:{fc}",
                   f"{case}: extract({fk}, {kw}).dtype = {got.dtype}, blocks+fill are held by {must}")
            break
    return r


# ---- slice: call histories on ONE assembler instance (per-call state must not leak) ------------
HREQ = ("default", "getitem", "fill-nan", "fill--1", "fill-100000", "fill0-f4", "dtype", "planes",
        "scribble-default", "scribble-window")  # scribble: overwrite the returned array in place afterwards
HREQ_FILL = {"fill-nan": math.nan, "fill--1": -1, "fill-100000": 100000}
HREQ_CORE = ("default", "getitem", "fill-nan", "fill-100000", "dtype", "scribble-default")  # triples (quick)
H_STATES2 = (  # 2 tiles: chunks ((2,), (1, 2))
    ("i2", None), ("i2", "i2"), (None, "i2"), ("u1", None), ("u1", "u1"), ("f4", None), ("f4", "f4"),
    ("u1", "i2"), ("i2", "f4"), ("u1", "f4"),
)
H_STATES4 = (  # 4 tiles: chunks ((1, 2), (2, 1))
    ("i2", None, None, "i2"), ("u1", "i2", None, "f4"), ("u1", None, "i2", None),
)
H_CFGS = ("2d", "time+yx")


def gen_asm_hist(tier):
    def gen():
        hist = [(a,) for a in HREQ]
        hist += [(a, b) for a in HREQ for b in HREQ]
        menu3 = HREQ_CORE if tier == "quick" else HREQ
        hist += [(a, b, c) for a in menu3 for b in menu3 for c in menu3]
        scenes = [(((2,), (1, 2)), st) for st in H_STATES2] + [(((1, 2), (2, 1)), st) for st in H_STATES4]
        # one block covering the whole mosaic (the case where handing out the block itself is tempting)
        scenes += [(((2,), (3,)), (st,)) for st in ("i2", "f4")]
        for (chy, chx), states in scenes:
            for cfg in H_CFGS:
                for h in hist:
                    yield (chy, chx, states, cfg, h)

    return gen


def _do_request(name, ba, win):
    if name == "default":
        return ba.extract()
    if name == "getitem":
        return ba[win]
    if name in ("scribble-default", "scribble-window"):
        x = ba.extract() if name == "scribble-default" else ba[win]
        ans = x.copy()
        if x.flags.writeable:
            x[...] = 77  # the caller owns the result: writing into it must not reach the assembler or the blocks
        return ans
    if name in HREQ_FILL:
        return ba.extract(HREQ_FILL[name])
    if name == "fill0-f4":
        return ba.extract(0, dtype="float32")
    if name == "dtype":
        return np.dtype(ba.dtype)
    if name == "planes":
        return [(p, ba[p]) for p in ba.planes_yx()]
    raise ValueError(name)


def _same_array(a, b):
    return (
        isinstance(a, np.ndarray) and isinstance(b, np.ndarray) and a.dtype == b.dtype and a.shape == b.shape
        and bool(np.array_equal(a.astype("float64"), b.astype("float64"), equal_nan=True))
    )


def _same_answer(a, b):
    if isinstance(a, np.ndarray) or isinstance(b, np.ndarray):
        return _same_array(a, b)
    if isinstance(a, list) and isinstance(b, list):
        return len(a) == len(b) and all(pa == pb and _same_array(xa, xb) for (pa, xa), (pb, xb) in zip(a, b))
    return a == b


def _show(ans):
    if isinstance(ans, np.ndarray):
        return f"{ans.dtype} {ans.tolist()}"
    if isinstance(ans, list):
        return "[" + "; ".join(f"{p}: {_show(x)}" for p, x in ans) + "]"
    return repr(ans)


def run_asm_hist(case):
    chy, chx, states, cfg, hist = case
    blocks, V, P, axis, full = mosaic(chy, chx, states, cfg, extremes=True)
    _, pre, suf = CFGS[cfg]
    bdt = [b.dtype for b in blocks.values()]
    C = np.result_type(*bdt)
    nd = len(full)
    allp = tuple(slice(None) for _ in pre)
    win = (*allp, slice(None), slice(1, None))
    Edef = expected_full(V, P, math.nan if C.kind == "f" else 0.0)
    widen = [n in HREQ_FILL and not fill_fits(HREQ_FILL[n], C) for n in hist]
    hcls = "widening-request-then-more" if any(widen[:-1]) else ("widening-last" if widen[-1] else "no-widening")
    r = R(outcome=f"{C.name}:{cfg}:len{len(hist)}:{hcls}", nontrivial=len(hist) > 1)

    def per_request(name, ans):
        """the single-request oracle (numpy mosaic), independent of any other assembler instance"""
        if name == "dtype":
            return None if ans == C else f"dtype {ans}, blocks promote to {C}"
        if name == "planes":
            want_idx = sorted(tuple(ip) for ip in np.ndindex(*pre))
            got_idx = sorted(tuple(v for v in p if not isinstance(v, slice)) for p, _ in ans)
            if got_idx != want_idx or any(len(p) != nd for p, _ in ans):
                return f"planes {[p for p, _ in ans]}"
            for p, x in ans:
                if not (same_values(x, Edef[np_index(p, axis, full)]) and x.dtype == C):
                    return f"plane {p}: {_show(x)}"
            return None
        if name in ("default", "scribble-default"):
            exp, must = Edef, C
        elif name in ("getitem", "scribble-window"):
            exp, must = Edef[np_index(win, axis, full)], C
        elif name == "fill0-f4":
            exp, must = expected_full(V, P, 0.0), np.dtype("float32")
        else:
            fill = HREQ_FILL[name]
            exp, must = expected_full(V, P, float(fill)), (C if fill_fits(fill, C) else None)
        if not same_values(ans, exp):
            return f"{_show(ans)}; numpy mosaic {exp.tolist()}"
        if must is not None and ans.dtype != must:
            return f"dtype {ans.dtype}, want {must}"
        return None

    ba = BlockAssembler(blocks, (chy, chx), axis=axis)
    before = []
    changed = False
    blocks0 = {k: v.copy() for k, v in blocks.items()}
    for name in hist:
        prev = "+".join(before) if before else "nothing"
        # history class for the finding key: the first earlier request whose fill does not fit the block dtype
        # (the only kind that computes a wider per-call dtype), else the immediately preceding request
        wide = [n for n in before if n in HREQ_FILL and not fill_fits(HREQ_FILL[n], C)]
        hk = f"after-widening({wide[0]})" if wide else (f"after({before[-1]})" if before else "first-request")
        st, ans = call(_do_request, name, ba, win)
        fresh = _do_request(name, BlockAssembler(blocks, (chy, chx), axis=axis), win)
        if st != "ok":
            r.fail(f"BlockAssembler:history:{hk}:{name}:raises:{C.name}",
                   f"{case}: request '{name}' after [{prev}] on one instance raised {ans}")
            break
        if not _same_answer(ans, fresh):
            r.fail(f"BlockAssembler:history:{hk}:{name}:differs-from-fresh-instance:{C.name}",
                   f"{case}: request '{name}' after [{prev}] on one instance -> {_show(ans)}; "
                   f"a fresh assembler answers {_show(fresh)}")
        why = per_request(name, ans)
        if why is not None and _same_answer(ans, fresh):  # a divergence from the fresh instance is already reported
            r.fail(f"BlockAssembler:history:{hk}:{name}:wrong-answer:{C.name}",
                   f"{case}: request '{name}' after [{prev}]: {why}")
        # the answer is the caller's own array: never a view of a block (or of anything inside the assembler)
        if name not in ("dtype", "planes", "scribble-default", "scribble-window"):
            if any(np.shares_memory(ans, b) for b in blocks.values()) or not ans.flags.writeable:
                r.fail(f"BlockAssembler:history:{name}:result-aliases-a-block:{C.name}",
                       f"{case}: the array returned by '{name}' shares memory with a caller's block "
                       f"(writeable={ans.flags.writeable})")
        before.append(name)
        if np.dtype(ba.dtype) != C and not changed:
            changed = True  # reported once; later requests are still compared with a fresh instance
            r.fail(f"BlockAssembler:history:ba.dtype-changed-by({name}):{C.name}",
                   f"{case}: after [{'+'.join(before)}] ba.dtype is {ba.dtype}, was {C}")
    # the caller's blocks hold what they held before the history
    for k, v in blocks.items():
        if not np.array_equal(v, blocks0[k], equal_nan=True):
            wr = [n for n in hist if n.startswith("scribble")]
            r.fail(f"BlockAssembler:history:callers-block-modified:{'after-writing-into-a-result' if wr else 'by-reading'}"
                   f":{C.name}", f"{case}: block {k} was {blocks0[k].tolist()} and is {v.tolist()} after [{'+'.join(hist)}]")
            break
    return r


# ---- slice: blocks of DIFFERENT dtypes in one assembler (incl. incomparable pairs) ----------------
MIX_DT = ("bool", "int8", "uint8", "int16", "uint16", "int32", "uint32", "int64", "uint64", "float32", "float64")
MIX_DT3 = ("int8", "uint8", "int32", "float32")  # alphabet of the triples (quick); thorough: + uint16, int64, float64
_FILL = "<fill>"


def extreme_values(dt):
    """four values at the extremes of the block's own dtype, as exact python numbers."""
    dt = np.dtype(dt)
    if dt.kind == "b":
        return [False, True, True, False]
    if dt.kind == "i":
        ii = np.iinfo(dt)
        return [int(ii.min), int(ii.max), -1, 1]
    if dt.kind == "u":
        ii = np.iinfo(dt)
        return [0, int(ii.max), int(ii.max) - 1, 1]
    fi = np.finfo(dt)
    return [float(fi.min), float(fi.max), -1.0, float(2 ** (fi.nmant + 1))]  # last: max precise integer


def gen_asm_mixed(tier):
    def gen():
        # ordered pair (dtype of tile 0, dtype of tile 1) x insertion order of the mapping
        for a in MIX_DT:
            for b in MIX_DT:
                for order in ((0, 1), (1, 0)):
                    yield ((a, b), order)
        d3 = MIX_DT3 if tier == "quick" else MIX_DT3 + ("uint16", "int64", "float64")
        for a in d3:
            for b in d3:
                for c in d3:
                    for order in itertools.permutations(range(3)):
                        yield ((a, b, c), order)

    return gen


def run_asm_mixed(case):
    dts, order = case
    k = len(dts)
    chy, chx = (2,), (2,) * k + (1,)  # k blocks of 2x2 and one absent 2x1 tile (fill cells)
    H, W = 2, 2 * k + 1
    # exact mosaic (python numbers in an object array) and numpy's own promotion of every value as reference
    bdt = [np.dtype(d) for d in dts]
    Rdt = np.result_type(*bdt)
    exact = np.full((H, W), _FILL, dtype=object)
    ref = np.full((H, W), _FILL, dtype=object)
    arrays = []
    for t, dt in enumerate(bdt):
        vals = extreme_values(dt)
        blk = np.array(vals, dtype=dt).reshape(2, 2)
        assert blk.reshape(-1).tolist() == vals  # harness sanity: the block holds the exact values
        arrays.append(blk)
        ex = np.empty((2, 2), dtype=object)
        ex.reshape(-1)[:] = vals
        exact[:, 2 * t:2 * t + 2] = ex
        rf = np.empty((2, 2), dtype=object)
        rf.reshape(-1)[:] = blk.astype(Rdt).reshape(-1).tolist()
        ref[:, 2 * t:2 * t + 2] = rf
    blocks = {(0, t): arrays[t] for t in order}  # insertion order of the mapping
    names = [d.name for d in bdt]
    pair = "+".join(sorted(set(names), key=MIX_DT.index))
    ocls = "single-dtype" if len(set(names)) == 1 else "inserted:" + ">".join(names[t] for t in order)
    nested = all(np.can_cast(d, Rdt, "safe") for d in bdt) and Rdt in bdt
    lossy = bool((exact != ref).any())
    r = R(outcome=f"{'nested' if nested else 'incomparable'}:{Rdt.name}:{'numpy-promotion-lossy' if lossy else 'exact'}"
                  f":{k}blocks", nontrivial=len(set(names)) > 1, counts={})
    key = f"BlockAssembler:mixed-dtype:{pair}:{ocls}"

    st, asm = call(BlockAssembler, blocks, (chy, chx))
    if st != "ok":
        return r.fail(f"{key}:raises:constructor", f"{case}: BlockAssembler(...) raised {asm}")
    D = np.dtype(asm.dtype)
    # (a) the advertised dtype holds every block dtype (numpy's 'safe' cast) and is numpy's promotion of them
    bad = [d.name for d in bdt if not np.can_cast(d, D, "safe")]
    if bad:
        r.fail(f"{key}:dtype-cannot-hold-block-dtype",
               f"{case}: asm.dtype = {D} cannot hold {bad} safely; numpy promotes {names} to {Rdt}")
    elif D != Rdt:
        r.fail(f"{key}:dtype-not-numpy-promotion", f"{case}: asm.dtype = {D}; np.result_type of {names} is {Rdt}")

    def cell_ok(g, e, f):
        if isinstance(e, str):  # absent tile: default fill
            return (g != g) if D.kind == "f" else (g == 0)
        if g == e:  # python compares int/float/bool exactly
            return True
        return e != f and g == f  # value that numpy's promotion itself cannot hold: numpy's rounding is the reference

    nwin = 0

    def judge(tag, fn, roi):
        nonlocal nwin
        nwin += 1
        st, got = call(fn)
        if st != "ok":
            r.fail(f"{key}:raises:{tag}", f"{case}: {tag}({roi}) raised {got}")
            return False
        ew, fw = (exact, ref) if roi is None else (exact[roi], ref[roi])
        if not isinstance(got, np.ndarray) or got.shape != ew.shape:
            r.fail(f"{key}:shape", f"{case}: {tag}({roi}) -> shape {getattr(got, 'shape', None)} want {ew.shape}")
            return False
        if got.dtype != D:
            r.fail(f"{key}:extract-dtype", f"{case}: {tag}({roi}).dtype = {got.dtype}, asm.dtype = {D}")
            return False
        gl = got.reshape(-1).tolist()
        for i, (g, e, f) in enumerate(zip(gl, ew.reshape(-1).tolist(), fw.reshape(-1).tolist())):
            if not cell_ok(g, e, f):
                what = "fill" if isinstance(e, str) else "values"
                r.fail(f"{key}:{what}",
                       f"{case}: {tag}({roi}) ({got.dtype}) cell {i}: got {rp(g)}, exact mosaic value {rp(e)}"
                       + (f" (numpy's promotion to {Rdt} gives {rp(f)})" if e != f else ""))
                return False
        return True

    ok = judge("extract", asm.extract, None)
    # every normalised window
    for a in range(H + 1):
        for b in range(a, H + 1):
            for c in range(W + 1):
                for d in range(c, W + 1):
                    roi = (slice(a, b), slice(c, d))
                    if not judge("asm[window]", lambda roi=roi: asm[roi], roi) and not ok:
                        break
    r.counts["assembler_windows"] = nwin
    if lossy:
        r.counts["obs:mixed-dtype:numpy-promotion-cannot-hold-64-bit-extremes:" + pair] = 1
    return r


# ---- slice: the same blocks in another memory layout / container encoding ------------------------
ENCODINGS = ("plain", "padded-view", "fortran", "neg-stride-view", "read-only", "list-chunks", "reversed-dict",
             "numpy-int-keys")
ENC_LAYOUTS = (((2,), (3,)), ((2, 1), (1, 2)), ((1, 2), (2,)), ((2, 0), (1, 2)))


def encode_block(b, enc):
    if enc == "padded-view":  # non-contiguous window of a larger buffer
        big = np.full(tuple(n + 2 for n in b.shape), 99, dtype=b.dtype)
        sel = tuple(slice(1, -1) for _ in b.shape)
        big[sel] = b
        return big[sel]
    if enc == "fortran":
        return np.asfortranarray(b)
    if enc == "neg-stride-view":
        rev = tuple(slice(None, None, -1) for _ in b.shape)
        return b[rev].copy()[rev]
    if enc == "read-only":
        b = b.copy()
        b.flags.writeable = False
        return b
    return b


def gen_asm_enc(tier):
    def gen():
        for chy, chx in ENC_LAYOUTS:
            nt = len(chy) * len(chx)
            for mask in range(1, 1 << nt):
                for cfg in CFGS:
                    for dt in ("i2", "f4"):
                        for enc in ENCODINGS:
                            yield (chy, chx, mask, cfg, dt, enc)

    return gen


def run_asm_enc(case):
    chy, chx, mask, cfg, dt, enc = case
    nt = len(chy) * len(chx)
    states = tuple(dt if mask >> t & 1 else None for t in range(nt))
    plain, V, P, axis, full = mosaic(chy, chx, states, cfg, extremes=True)
    _, pre, suf = CFGS[cfg]
    C = np.dtype(DT[dt])
    keys = list(plain)
    if enc == "reversed-dict":
        keys = keys[::-1]
    blocks = {}
    for k in keys:
        kk = (np.int64(k[0]), np.int32(k[1])) if enc == "numpy-int-keys" else k
        blocks[kk] = encode_block(plain[k], enc)
    chunks = ([*chy], [*chx]) if enc == "list-chunks" else (chy, chx)
    blocks0 = {k: v.copy() for k, v in blocks.items()}
    ids0 = [(k, id(v)) for k, v in blocks.items()]
    r = R(outcome=f"{enc}:{cfg}:{dt}", nontrivial=enc != "plain")
    key = f"BlockAssembler:block-encoding:{enc}:{cfg}"
    st, asm = call(BlockAssembler, blocks, chunks, axis=axis)
    if st != "ok":
        return r.fail(f"{key}:raises:constructor", f"{case}: BlockAssembler(...) raised {asm}")
    ref = BlockAssembler(plain, (chy, chx), axis=axis)
    allp = tuple(slice(None) for _ in pre)
    alls = tuple(slice(None) for _ in suf)
    H, W = full[axis], full[axis + 1]
    Edef = expected_full(V, P, math.nan if C.kind == "f" else 0.0)
    reqs = [
        ("extract", lambda a: a.extract(), Edef, C),
        ("window", lambda a: a[(*allp, slice(0, H), slice(1, W), *alls)], Edef[(*allp, slice(0, H), slice(1, W))], C),
        ("row", lambda a: a[(*allp, H - 1, slice(None), *alls)],
         Edef[np_index((*allp, H - 1, slice(None), *alls), axis, full)], C),
        ("fill--1", lambda a: a.extract(-1), expected_full(V, P, -1.0), C),
        ("f8", lambda a: a.extract(dtype="float64"), expected_full(V, P, math.nan), np.dtype("float64")),
        ("planes", lambda a: np.stack([a[p] for p in a.planes_yx()]),
         np.stack([Edef[np_index(p, axis, full)] for p in ref.planes_yx()]), C),
    ]
    if tuple(asm.shape) != full or np.dtype(asm.dtype) != C:
        r.fail(f"{key}:shape-dtype", f"{case}: shape {asm.shape} dtype {asm.dtype}; want {full} {C}")
    for rname, fn, exp, must in reqs + reqs[:2]:  # the first two again after results were overwritten
        st, got = call(fn, asm)
        if st != "ok":
            r.fail(f"{key}:{rname}:raises", f"{case}: {rname} raised {got}")
            continue
        want = fn(ref)
        if not same_values(got, exp) or got.dtype != must:
            r.fail(f"{key}:{rname}:values", f"{case}: {rname} -> {got.dtype} {got.tolist()}; numpy mosaic {exp.tolist()}")
        elif not _same_array(got, want):
            r.fail(f"{key}:{rname}:differs-from-plain-blocks", f"{case}: {rname} differs from the same blocks given plain")
        if rname != "planes" and (any(np.shares_memory(got, b) for b in blocks.values()) or not got.flags.writeable):
            r.fail(f"{key}:{rname}:result-aliases-a-block", f"{case}: result of {rname} shares memory with a block "
                                                            f"or is read-only (writeable={got.flags.writeable})")
        elif got.flags.writeable:
            got[...] = 55  # caller's own array
    # inputs are the caller's: same dict entries, same values, same chunk lists
    if [(k, id(v)) for k, v in blocks.items()] != ids0:
        r.fail(f"{key}:callers-dict-modified", f"{case}: the blocks mapping was changed")
    for k, v in blocks.items():
        if not np.array_equal(v, blocks0[k], equal_nan=True):
            r.fail(f"{key}:callers-block-modified", f"{case}: block {k} was {blocks0[k].tolist()} is {v.tolist()}")
            break
    if enc == "list-chunks" and (chunks[0] != [*chy] or chunks[1] != [*chx]):
        r.fail(f"{key}:callers-chunks-modified", f"{case}: chunk lists became {chunks}")
    if enc == "numpy-int-keys":  # one input class, one key (the numpy integer reaches the tile lookup)
        for f in r.fails:
            f.key = "BlockAssembler:block-encoding:numpy-int-index-as-block-key"
    return r


# ---- slice: degenerate rectangles (outside the stated domain): observations only ----------------
def gen_degenerate(tier):
    def gen():
        for base in ((0, 5), (5, 0), (0, 0)):
            yield ("T", base, (2, 2))
        for ch in (((), (2, 3)), ((2, 3), ()), ((0,), (2,)), ((0, 0), (0,))):
            yield ("V", ch)

    return gen


def run_degenerate(case):
    kind = case[0]
    r = R(outcome=f"degenerate:{kind}", nontrivial=False, counts={})
    st, T = call(lambda: Tiles(case[1], case[2]) if kind == "T" else VariableSizedTiles(case[1]))
    name = "Tiles" if kind == "T" else "VariableSizedTiles"
    if st != "ok":
        r.counts[f"obs:{name}:empty-rectangle:constructor:raises-{T}"] = 1
        return r
    for op, fn in (("shape", lambda: yx_of(T.shape)), ("chunks", lambda: T.chunks), ("[:, :]", lambda: T[:, :]),
                   ("crop[:, :]", lambda: T.crop((slice(None), slice(None))))):
        st, got = call(fn)
        r.counts[f"obs:{name}:empty-rectangle:{op}:{'raises-' + str(got) if st != 'ok' else 'returns'}"] = 1
    return r


# ---------------------------------------------------------------------------------------------
def slices(tier):
    tl = gen_tilings(tier)
    th = tier != "quick"

    def crop_(case):
        return run_crop(case, th)

    def clip_(case):
        return run_clip(case, th)

    def gbt_(case):
        return run_gbt(case, th)

    return [
        e1.Slice("tiling-index", tl, run_index,
                 "Tiles base x tile and VariableSizedTiles compositions: every tile index (pos/neg/Index2d/out of "
                 "range), painted partition, tile_shape, chunks, locate for every pixel"),
        e1.Slice("tiling-large", gen_large(tier), run_index,
                 "1800-chunk / 3077-tile / 60x50-chunk tilings (70 200 px axes): every tile, every pixel located",
                 shards=8),
        e1.Slice("tiling-degenerate", gen_degenerate(tier), run_degenerate,
                 "empty rectangles (base 0 on an axis, empty chunk tuples): observations only", shards=1),
        e1.Slice("tiling-crop", tl, crop_,
                 "same tilings: every non-empty block of tiles under every slice spelling; crop vs fresh tiling"),
        e1.Slice("tiling-clip", tl, clip_,
                 "same tilings: clip_tiles over every pair of tile indices (thorough: both listing orders)"),
        e1.Slice("tiling-axis-index", gen_axis(tier, False), axis_run(run_index),
                 "VariableSizedTiles with a long chunking on ONE axis (both axis orders): every composition of "
                 "nc < N <= 9 (10); every tuple of length 4..6 (7) over {s-d, s, s+d}; 5..8 chunks whose prefix sums "
                 "meet the even grid exactly on each subset of positions; all-but-one / monotone / first==last "
                 "shapes: every tile, painted partition, tile_shape, chunks, locate for every pixel"),
        e1.Slice("tiling-axis-crop", gen_axis(tier, True), axis_run(crop_),
                 "same one-axis chunkings (quick: shorter families): every block under every spelling, crop vs fresh"),
        e1.Slice("tiling-axis-clip", gen_axis(tier, True), axis_run(clip_),
                 "same one-axis chunkings (quick: shorter families): clip_tiles over every pair of tile indices"),
        e1.Slice("geobox-tiles", gen_gbt(tier), gbt_,
                 "GeoboxTiles over dyadic GeoBoxes: tile geoboxes, chunk_shape, crop[...], clip(pairs)"),
        e1.Slice("asm-geometry", gen_asm_geom(tier), run_asm_geom,
                 "BlockAssembler 2-d: every layout x every subset of blocks x every normalised window"),
        e1.Slice("asm-window-spelling", gen_asm_win(tier), run_asm_win,
                 "every spelling of the Y/X window (None, negative, int, empty, reversed) x subsets x axis configs"),
        e1.Slice("asm-nd-index", gen_asm_nd(tier), run_asm_nd,
                 "N-d index forms: ints/slices on leading/trailing axes, short tuples, planes_yx"),
        e1.Slice("asm-dtype-fill", gen_asm_dtype(tier), run_asm_dtype,
                 "per-block dtype (incl. mixed, absent) x fill value x explicit dtype"),
        e1.Slice("asm-mixed-dtype", gen_asm_mixed(tier), run_asm_mixed,
                 "blocks of different dtypes in one assembler: every ordered pair of 11 dtypes (and triples) x every "
                 "insertion order of the mapping, values at each dtype's extremes, every window; exact python mosaic"),
        e1.Slice("asm-block-encoding", gen_asm_enc(tier), run_asm_enc,
                 "same blocks as padded / Fortran / negative-stride views, read-only, list chunks, reversed dict, "
                 "numpy-int keys x 4 layouts (incl. single covering block, zero-length chunk) x subsets x 4 axis configs; "
                 "numpy oracle + differential vs plain blocks + no aliasing + inputs unchanged"),
        e1.Slice("asm-history", gen_asm_hist(tier), run_asm_hist,
                 "call histories on ONE assembler: every single request, ordered pair and triples from a menu of 8 "
                 "requests x block-dtype/presence scenes x {2-d, time+yx}; each answer vs a fresh instance and vs numpy"),
    ]


def main(ctx):
    ctx.rule = (
        "complete Cartesian products (or unions of them) of small integer domains; one evaluation = one tiling / "
        "one (layout, subset of blocks, configuration) with every index/window enumerated inside; non-trivial when "
        "the tiling has more than one tile / at least one block is present; distinct by (slice, case) hash"
    )
    q = ctx.tier == "quick"
    ctx.bounds = {
        "Tiles": "base (H,W) in {1..9}^2, tile (h,w) in {1..10}^2" if q else "base {1..11}^2, tile {1..12}^2",
        "VariableSizedTiles": f"every composition of N <= {6 if q else 7} per axis",
        "VariableSizedTiles_one_axis": (
            f"long chunking on one axis, (1,) on the other, both axis orders: every composition of "
            f"{7 if q else 8} <= N <= {9 if q else 10} (index oracle: also against (2,1,3)); every tuple of length "
            f"{'4..5 over each of' if q else '4..7 over each of'} {[a for a, _ in REL_ALPHABETS]} with the last chunk "
            f"also {[e for _, e in REL_ALPHABETS]}" + (" (length 6 over (1,2,3))" if q else "") +
            f"; for (first size s, deviation g) in {list(PFX_SG)} and every subset K of positions 2..n, n = 5..{7 if q else 8}"
            + (f" (n = 8: {list(PFX_SG_Q8)})" if q else "") + ": the chunking whose prefix sums equal k*s exactly on K, "
            "off by -g / +g / alternating elsewhere (g == s: zero-length chunks); 5..8 chunks all-equal-but-one "
            "(each position, sizes 0..20), arithmetic increasing / decreasing / mountain / valley, first == last. "
            "crop / clip oracles: the compositions, tuples of length 4" + ("" if q else "..6") + ", prefix subsets n = 5"
            + ("" if q else "..8") + ", shapes n = 5" + ("" if q else "..8")),
        "tile_index": "every (r,c), negative spellings, Index2d, one step out of range",
        "tile_blocks": "every non-empty a:b x c:d; every equivalent spelling per axis (a:b, :b, a:, :, negative "
                       "bounds, ints a / a-n for single tiles) for region lookup AND crop: full product on both axes "
                       + ("for tilings with <= 2 tiles per axis (Tiles: tile <= base+1); all other tilings: every "
                          "spelling of every block on one axis x probes {':', '0:1'} on the other axis" if q else
                          "(lookups always; crops for tilings with <= 4 tiles per axis, probes {':', '0:1', -1} "
                          "beyond)")
                       + "; GeoboxTiles[...] / crop[...]: same scheme on the first GeoBox "
                       + ("(other GeoBoxes: probe ':' only)" if q else "and all others (product up to 3 tiles/axis)"),
        "clip": "every " + ("unordered" if q else "ordered") + " pair of tile indices, singletons, corners, a triple",
        "GeoboxTiles": "3 dyadic affines x {EPSG:32633, None}; base {1..5}^2 x tile {1,2,3,7}^2; compositions N<=4"
        if q else "3 dyadic affines; base {1..7}^2 x tile {1,2,3,4,5,8}^2; compositions N<=5",
        "assembler_layouts": "<=2 tiles per axis of sizes 1..3" + ("" if q else " + 3 tiles per axis of sizes 1..2"),
        "assembler_subsets": "every subset of blocks",
        "assembler_windows": "every 0<=a<=b<=N per axis; every spelling in {None}+[-N,N] and ints on 3 layouts",
        "assembler_axes": list(CFGS),
        "dtypes": list(DT.values()), "fills": list(FILLS), "explicit_dtype": [str(d) for d in OUT_DT],
        "tilings_extra": f"layouts {list(EXTRA_LAYOUTS)} and transposes; zero-length chunks: every tuple over {{0,1,2}} of "
                         "length 2..3 holding a zero x each other and 3 plain layouts; large: 1800 chunks / 70 200 px, "
                         "3077 regular tiles, 60x50 chunks (every tile, every pixel)",
        "index_encodings": "tile index / pixel as tuple, Index2d, numpy ints; slice bounds as numpy ints; tilings built "
                           "from tuples, lists, list of lists, numpy arrays, numpy ints; selections as list of tuples / "
                           "lists, tuple of tuples, numpy array, with duplicates",
        "assembler_block_encodings": f"{list(ENCODINGS)} x layouts {list(ENC_LAYOUTS)} x every non-empty subset x "
                                     f"{list(CFGS)} x {{int16, float32 with a NaN inside}}",
        "assembler_mixed_dtypes": f"ordered pairs of {list(MIX_DT)} x both insertion orders; ordered triples of "
                                  f"{list(MIX_DT3) if q else list(MIX_DT3) + ['uint16', 'int64', 'float64']} x all 6 "
                                  "insertion orders; block values: min, max, -1 (max-1 if unsigned), 1 / for floats "
                                  "min, max, -1, 2^(mantissa bits); every window 0<=a<=b<=N",
        "assembler_histories": f"requests {list(HREQ)}: all singles, all ordered pairs, all triples over "
                               f"{list(HREQ_CORE) if q else list(HREQ)}; {len(H_STATES2) + len(H_STATES4)} block scenes x "
                               f"{list(H_CFGS)}",
    }
    ctx.assumptions = [
        "tile rectangles and tile sizes are >= 1; chunk tuples have positive parts",
        "empty or reversed tile-index selections and out-of-range lookups on VariableSizedTiles.__getitem__ are "
        "outside the property's domain: what happens is recorded under 'observations', never judged",
        "IndexError one step outside [-n, n) is demanded only where it is documented or explicitly implemented: "
        "Tiles.__getitem__/tile_shape, VariableSizedTiles.tile_shape, GeoboxTiles.__getitem__/chunk_shape, locate",
        "VariableSizedTiles.tile_shape with a negative in-range index may either raise IndexError (its docstring) or "
        "return the shape of tile n+i (numpy style, as Tiles documents); any other value is a violation",
        "BlockAssembler: an int index on the Y or X axis keeps that axis with length 1 (code comment: only non-Y/X "
        "axes are squeezed); a 2-tuple index is the Y/X window whatever the axis position (explicit branch)",
        "BlockAssembler without blocks is 2-d float32 (repo test); N-d configurations need at least one block",
        "window indices lie in [-N, N]; steps are not used",
        "a numpy integer (np.int64 / np.int32) used as tile index, pixel, slice bound, selection entry, window index "
        "or block key means the same as the python int of that value (numpy's own indexing semantics)",
        "the array returned by extract / [] belongs to the caller: it never shares memory with a block and writing "
        "into it changes neither later answers nor the caller's blocks; blocks, the blocks mapping and chunk lists "
        "passed in are left as they were",
        "empty rectangles (base 0 on an axis, empty chunk tuples) and clipping to an empty selection are outside "
        "the stated domain: recorded under observations only; negative pixel coordinates in locate raise IndexError "
        "(repo test), they do not wrap",
        "result dtype: equals the explicit dtype; else equals numpy's promotion of the block dtypes (np.result_type) "
        "when no fill is given or np.can_cast(np.min_scalar_type(fill), that dtype, 'safe'); otherwise only the "
        "values are judged (every block value and the fill value must come back exactly, so the dtype holds them)",
        "explicit dtype cases are restricted to dtypes that safely hold every block dtype and the fill value",
        "mixed block dtypes: the reference dtype is np.result_type of the block dtypes (the code's documented "
        "promotion); every pixel must equal the block's value exactly, except where numpy's promotion itself cannot "
        "hold the value (64-bit integer extremes promoted to float64, e.g. int64+uint64, int64+float32): there "
        "numpy's correctly rounded conversion is the reference and the pair is listed under observations",
    ]
    sl = slices(ctx.tier)
    if ctx.only:
        sl = [s for s in sl if any(s.name.startswith(o) for o in ctx.only)]
    e1.run_slices(ctx, sl)
    ctx.extra["observations"] = {k: int(v) for k, v in sorted(ctx.counters.items()) if k.startswith("obs:")}
    ctx.extra["inner_evaluations"] = {k: int(v) for k, v in sorted(ctx.counters.items()) if not k.startswith("obs:")}


def replay(slice_name, case, tier):
    return e1.replay(slices(tier), slice_name, case).fails
