"""C05 - parallel COG writer produces a correct, overview-first GeoTIFF.

E1: complete products per slice (shapes x layouts, dtypes x compression x predictor x nodata,
blocksize lists x source chunkings, spill x writes-per-chunk x parts dir); every file is decoded with
rasterio/GDAL and its structure is walked with tifffile.
E3b: for small graphs every task order within a deviation bound must give a byte-identical file
content (up to tile order inside the data section) that passes the same oracle.
"""
from __future__ import annotations

import itertools
import os
import shutil
import tempfile
from pathlib import Path

import numpy as np
from affine import Affine

from vf import core, e1, taskgraph
from vf.core import R

PROPERTY = "C05"
LEVEL = "model_checking"

import dask  # noqa: E402
import dask.array as da  # noqa: E402
import logging  # noqa: E402

import rasterio  # noqa: E402
import tifffile  # noqa: E402

from odc.geo.cog import save_cog_with_dask  # noqa: E402
from odc.geo.cog._shared import compute_cog_spec  # noqa: E402  (used only to report, never as oracle)
from odc.geo.geobox import GeoBox  # noqa: E402
from odc.geo.xr import wrap_xr  # noqa: E402

logging.getLogger("tifffile").setLevel(logging.CRITICAL)

A0 = Affine(10.0, 0.0, 500000.0, 0.0, -10.0, 6000000.0)
CRS_ = "EPSG:32633"


def nodata_for(dtype, kind):
    dt = np.dtype(dtype)
    if kind == "none":
        return None
    if kind == "zero":
        return 0
    if dt.kind == "u":
        return int(np.iinfo(dt).max)
    if dt.kind == "i":
        return -9999 if dt.itemsize > 1 else -128
    return -9999.0


def make_data(full_shape, dtype, noisy=False):
    if noisy == "extreme":
        # the ramp with the extreme values of the type written over a few pixels (first, second row, middle, last):
        # statistics, predictors and header fields sized from "typical" values meet the largest ones
        a = make_data(full_shape, dtype, False)
        dt = np.dtype(dtype)
        if dt.kind == "f":
            fi = np.finfo(dt)
            ext = [fi.max, -fi.max, fi.tiny, -0.0, 1e20 if dt.itemsize > 4 else 1e20, 9.97e36, -1e17, 1e-30]
        else:
            ii = np.iinfo(dt)
            ext = [ii.max, ii.min, ii.max - 1, ii.min + 1, 0, 1]
        flat = a.reshape(-1)
        pos = [0, 1, min(len(flat) - 1, full_shape[-1] + 1), len(flat) // 2, len(flat) // 2 + 1, len(flat) - 2, len(flat) - 1]
        for i, ps in enumerate(pos):
            if 0 <= ps < len(flat):
                flat[ps] = np.array(ext[i % len(ext)]).astype(dt)
        return flat.reshape(full_shape)
    n = int(np.prod(full_shape))
    dt = np.dtype(dtype)
    if noisy:
        # deterministic, incompressible: splitmix64 finaliser of the pixel index (no RNG)
        x = np.arange(1, n + 1, dtype="uint64")
        with np.errstate(over="ignore"):
            x ^= x >> np.uint64(30)
            x *= np.uint64(0xBF58476D1CE4E5B9)
            x ^= x >> np.uint64(27)
            x *= np.uint64(0x94D049BB133111EB)
            x ^= x >> np.uint64(31)
        return ((x % np.uint64(250 if dt.itemsize == 1 else 65000)).astype("int64") + 1).astype(dt).reshape(full_shape)
    mod = 120 if dt.itemsize == 1 else 251
    a = (np.arange(n, dtype="int64") * 7 % mod + 1).reshape(full_shape)
    if dt.kind == "f":
        return (a + 0.25).astype(dt)
    return a.astype(dt)


def layout_shape(yx, layout):
    """layout: 'YX' | ('YXS', n) | ('SYX', n)"""
    if layout == "YX":
        return tuple(yx), None
    kind, n = layout
    return ((*yx, n) if kind == "YXS" else (n, *yx)), n


def ambiguous(yx, layout):
    """Layouts the writer cannot tell apart from the shape alone (band-last assumed for 3/4 last dim,
    or a band-first stack whose first two sizes equal the image shape). Outside the domain."""
    if layout == "YX":
        return False
    kind, n = layout
    if kind == "SYX":
        return yx[1] in (3, 4) or (n, yx[0]) == tuple(yx)
    return False


def _irregular(n, tile, variant):
    """chunk tuple along one axis whose largest chunk equals `tile` but which is not the regular tiling"""
    out, left, k = [], n, 0
    pattern = (tile, 5, tile, 3) if variant == "irregular" else (10, tile, 14)
    while left > 0:
        c = min(pattern[k % len(pattern)], left)
        out.append(c)
        left -= c
        k += 1
    return tuple(out)


MEMORY = ("C", "F-source", "F-blocks", "copied-blocks", "lazy-transpose", "reversed-view")


class _AsFortran:
    """map_blocks callables as objects (picklable, deterministic dask names)"""

    def __call__(self, b):
        return np.asfortranarray(b)


class _Copy:
    def __call__(self, b):
        return np.array(b, order="K", copy=True)


def _with_memory(arr, data, memory, chunks):
    """The same pixels delivered in another memory layout: Fortran-ordered source, Fortran-contiguous blocks (a loader
    that returns order='F'), freshly copied blocks, a lazily transposed array, a negative-stride view."""
    if memory == "C":
        return arr
    if memory == "F-source":
        return da.from_array(np.asfortranarray(data), chunks=chunks)
    if memory == "F-blocks":
        return arr.map_blocks(_AsFortran(), dtype=arr.dtype)
    if memory == "copied-blocks":
        return arr.map_blocks(_Copy(), dtype=arr.dtype)
    if memory == "lazy-transpose":
        axes = tuple(reversed(range(data.ndim)))
        tch = tuple(reversed(chunks)) if isinstance(chunks, tuple) else chunks
        return da.from_array(np.ascontiguousarray(data.transpose(axes)), chunks=tch).transpose(axes)
    if memory == "reversed-view":
        return da.from_array(data[::-1].copy()[::-1], chunks=chunks)
    raise ValueError(memory)


def build_xx(yx, layout, dtype, nodata, src_chunks, tile=(16, 16), noisy=False, memory="C"):
    shape, n = layout_shape(yx, layout)
    data = make_data(shape, dtype, noisy)
    gbox = GeoBox(yx, A0, CRS_)
    band_chunk = None
    if isinstance(src_chunks, str):
        if src_chunks.startswith("irregular"):
            cy, cx = (_irregular(yx[0], tile[0], src_chunks), _irregular(yx[1], tile[1], src_chunks))
        else:
            cy, cx = (8, 8) if src_chunks.endswith("-8") else tile
            band_chunk = 1
    else:
        cy, cx = src_chunks
    kw = {} if nodata is None else dict(nodata=nodata)
    if layout == "YX":
        ch = (cy, cx)
        xx = wrap_xr(_with_memory(da.from_array(data, chunks=ch), data, memory, ch), gbox, **kw)
    elif layout[0] == "YXS":
        ch = (cy, cx, band_chunk or n)
        xx = wrap_xr(_with_memory(da.from_array(data, chunks=ch), data, memory, ch), gbox, **kw)
    else:
        ch = (n if band_chunk is None and isinstance(src_chunks, str) else 1, cy, cx)
        xx = wrap_xr(_with_memory(da.from_array(data, chunks=ch), data, memory, ch), gbox,
                     time=[f"2020-01-{i + 1:02d}" for i in range(n)], **kw)
    return xx, data, gbox


def bands_of(data, layout):
    if layout == "YX":
        return data[np.newaxis]
    return np.moveaxis(data, -1, 0) if layout[0] == "YXS" else data


def expected_layout(yx, tile_last, tile_first):
    """Layout rule written from the property statement: tile sizes rounded up to multiples of 16 (shrunk to
    the image when the image is smaller); overview count = number of halvings until the image fits one tile of
    the last block size on both axes; padded size = next multiple of 2^levels."""
    def adj(b, dim):
        b = min(b, dim) if 0 < dim < b else b
        return -(-b // 16) * 16

    tl = tuple(adj(b, 0) for b in tile_last)
    n = 0
    for dim, b in zip(yx, tl):
        c = 0
        while b < dim:
            dim //= 2
            c += 1
        n = max(n, c)
    pad = 2 ** n
    padded = tuple(-(-d // pad) * pad for d in yx)
    return padded, n


def inspect(path, data, layout, gbox, nodata, blocksize, r: R, what: str, cls: str):
    """All oracle clauses on one written file."""
    yx = gbox.shape.yx
    want_bands = bands_of(data, layout)
    bl = [b if isinstance(b, tuple) else (b, b) for b in blocksize]
    padded, nlev = expected_layout(yx, bl[-1], bl[0])
    # --- independent decode ---------------------------------------------------------------------------
    with rasterio.open(path) as src:
        got = src.read()
        if got.dtype != want_bands.dtype:
            r.fail(f"decode:dtype:{cls}", f"{what}: file dtype {got.dtype}, data {want_bands.dtype}")
        if got.shape[0] != want_bands.shape[0]:
            r.fail(f"decode:band-count:{cls}", f"{what}: {got.shape[0]} bands, expected {want_bands.shape[0]}")
            return
        H, W = yx
        if got.shape[1] < H or got.shape[2] < W:
            r.fail(f"decode:too-small:{cls}", f"{what}: decoded {got.shape}, original {(H, W)}")
            return
        if not np.array_equal(got[:, :H, :W], want_bands):
            bad = np.argwhere(got[:, :H, :W] != want_bands)
            r.fail(f"decode:pixels:{cls}", f"{what}: {len(bad)} pixels differ, first at band,y,x={tuple(bad[0])}: "
                                           f"{got[tuple(bad[0])]!r} vs {want_bands[tuple(bad[0])]!r}")
        if got.shape[1:] != padded:
            r.fail(f"layout:padded-size:{cls}", f"{what}: file is {got.shape[1:]}, layout rule prescribes {padded} "
                                                f"(2^{nlev} multiple of {yx})")
        fillv = 0 if nodata is None else nodata
        padarea = np.ones(got.shape[1:], dtype=bool)
        padarea[:H, :W] = False
        if padarea.any() and not (got[:, padarea] == np.dtype(got.dtype).type(fillv)).all():
            r.fail(f"layout:padding-value:{cls}", f"{what}: right/bottom padding is not the fill value {fillv!r}")
        t = src.transform
        if tuple(t)[:6] != tuple(gbox.transform)[:6]:
            r.fail(f"georef:transform:{cls}", f"{what}: {tuple(t)[:6]} vs {tuple(gbox.transform)[:6]}")
        if src.crs is None or src.crs.to_epsg() != 32633:
            r.fail(f"georef:crs:{cls}", f"{what}: {src.crs}")
        if nodata is None:
            if src.nodata is not None:
                r.fail(f"georef:nodata:{cls}", f"{what}: file nodata {src.nodata}, none requested")
        elif src.nodata is None or float(src.nodata) != float(nodata):
            r.fail(f"georef:nodata:{cls}", f"{what}: file nodata {src.nodata}, requested {nodata}")
        ovr = src.overviews(1)
    # --- structure ---------------------------------------------------------------------------------------
    fsize = os.path.getsize(path)
    with tifffile.TiffFile(path) as tf:
        pages = list(tf.pages)
        if len(pages) != nlev + 1:
            r.fail(f"layout:levels:{cls}", f"{what}: {len(pages)} IFDs, layout rule prescribes {nlev + 1}; gdal overviews {ovr}")
        extents = []
        prev = None
        first_full = None
        last_ovr = None
        for pi, p in enumerate(pages):
            if not p.is_tiled:
                r.fail(f"layout:not-tiled:{cls}", f"{what}: page {pi}")
                continue
            th, tw = p.tilelength, p.tilewidth
            if th % 16 or tw % 16:
                r.fail(f"layout:tile-not-multiple-of-16:{cls}", f"{what}: page {pi} tile {(th, tw)}")
            ih, iw = p.imagelength, p.imagewidth
            if prev is not None and (ih * 2, iw * 2) != prev:
                r.fail(f"layout:overview-not-half:{cls}", f"{what}: page {pi} is {(ih, iw)}, previous level {prev}")
            prev = (ih, iw)
            nplanes = p.samplesperpixel if p.planarconfig == 2 else 1
            ntiles = nplanes * (-(-ih // th)) * (-(-iw // tw))
            offs, cnts = list(p.dataoffsets), list(p.databytecounts)
            if len(offs) != ntiles or len(cnts) != ntiles:
                r.fail(f"index:entry-count:{cls}", f"{what}: page {pi} has {len(offs)} offsets for {ntiles} tiles")
            for o, c in zip(offs, cnts):
                if c == 0:
                    continue  # sparse tile
                extents.append((o, o + c, pi))
                if pi == 0:
                    first_full = o if first_full is None else min(first_full, o)
                else:
                    last_ovr = o if last_ovr is None else max(last_ovr, o)
            # every tile decodes to the right pixels: page-level decode through tifffile as second reader
        if first_full is not None and last_ovr is not None and not last_ovr < first_full:
            r.fail(f"order:overview-after-full-res:{cls}", f"{what}: an overview tile at offset {last_ovr} follows "
                                                           f"full-resolution data starting at {first_full}")
        extents.sort()
        for (a0, a1, pa), (b0, b1, pb) in zip(extents, extents[1:]):
            if b0 < a1:
                r.fail(f"index:overlap:{cls}", f"{what}: tile byte ranges [{a0},{a1}) page {pa} and [{b0},{b1}) page {pb} overlap")
                break
            if b0 > a1:
                r.fail(f"index:gap:{cls}", f"{what}: {b0 - a1} unaddressed bytes between [{a0},{a1}) and [{b0},{b1})")
                break
        if extents:
            if extents[-1][1] != fsize:
                r.fail(f"index:eof:{cls}", f"{what}: last tile ends at {extents[-1][1]}, file size {fsize}")
            hdr_end = max(_ifd_end(tf), 0)
            if extents[0][0] < hdr_end:
                r.fail(f"index:tile-inside-header:{cls}", f"{what}: first tile at {extents[0][0]} < header end {hdr_end}")
        # second independent reader for the pixels of the full-resolution image
        try:
            arr = pages[0].asarray()
        except Exception as e:  # pylint: disable=broad-except
            r.fail(f"decode:tifffile-raised:{cls}", f"{what}: {type(e).__name__}: {e}")
            return
        arr_b = arr[np.newaxis] if arr.ndim == 2 else (np.moveaxis(arr, -1, 0) if pages[0].planarconfig == 1 else arr)
        H, W = yx
        if arr_b.shape[0] != want_bands.shape[0] or not np.array_equal(arr_b[:, :H, :W], want_bands):
            r.fail(f"decode:tifffile-pixels:{cls}", f"{what}: tifffile decode differs from the original")


def _ifd_end(tf):
    """Largest byte offset used by IFD structures/tag values that precede tile data (best effort: the
    first tile must not start before the end of the last IFD entry table)."""
    end = 0
    for p in tf.pages:
        end = max(end, p.offset)
    return end


def write_and_inspect(case_desc, yx, layout, dtype, ndkind, blocksize, src_chunks, r: R, cls: str, **kw):
    nodata = nodata_for(dtype, ndkind)
    xx, data, gbox = build_xx(yx, layout, dtype, nodata, src_chunks, tile=kw.pop("_tile", (16, 16)), noisy=kw.pop("_noisy", False),
                              memory=kw.pop("_memory", "C"))
    td = tempfile.mkdtemp(prefix="vf-c05-")
    try:
        path = os.path.join(td, "out.tif")
        pb = kw.pop("parts_base_other", False)
        if pb:
            kw["parts_base"] = os.path.join(td, "parts")
            os.mkdir(kw["parts_base"])
        fut = save_cog_with_dask(xx, path, blocksize=list(blocksize), **kw)
        with dask.config.set(scheduler="sync"):
            out = fut.compute()
        if str(out) != path or not os.path.exists(path):
            r.fail(f"write:no-file:{cls}", f"{case_desc}: returned {out}")
            return
        leftovers = [p for p in os.listdir(td) if p != "out.tif" and not (pb and p == "parts")]
        if pb:
            leftovers += os.listdir(kw["parts_base"])
        if leftovers:
            r.fail(f"write:leftovers:{cls}", f"{case_desc}: {leftovers}")
        try:
            inspect(path, data, layout, gbox, nodata, blocksize, r, case_desc, cls)
        except Exception as e:  # pylint: disable=broad-except
            # a file the independent readers refuse to open or decode is a violation of "produces a valid GeoTIFF", not
            # a harness error; anything else raised by the oracle code itself still is one
            mod = type(e).__module__ or ""
            if not (mod.split(".")[0] in ("rasterio", "tifffile", "imagecodecs", "zlib", "struct", "zstd", "lzma") or isinstance(e, OSError)):
                raise
            r.fail(f"decode:reader-raised:{type(e).__name__}:{cls}", f"{case_desc}: {type(e).__name__}: {str(e)[:300]}")
    finally:
        shutil.rmtree(td, ignore_errors=True)


# -- slices ----------------------------------------------------------------------------------------------
SHAPES = ((1, 1), (1, 33), (33, 1), (16, 16), (17, 31), (64, 48), (70, 50), (100, 130), (2, 40),
          # sizes whose smallest overview is exactly one tile (tile x 2^n on both axes), and tile-sized on one axis only
          (64, 64), (32, 32), (32, 128), (16, 50),
          # elongated: padding to 2^levels adds whole tiles
          (1, 300), (300, 1), (3, 200))
LAYOUTS = ("YX", ("YXS", 2), ("YXS", 3), ("YXS", 4), ("SYX", 1), ("SYX", 2), ("SYX", 3), ("SYX", 4), ("SYX", 5), ("SYX", 6))


def gen_s1(tier):
    def g():
        for yx in SHAPES:
            for layout in LAYOUTS:
                if ambiguous(yx, layout):
                    continue
                for dtype in ("uint8", "float32") if tier == "quick" else ("uint8", "int16", "float32"):
                    yield ("s1", yx, layout, dtype)
                # the same shapes and layouts without compression (page layout decisions of the TIFF writer depend on it)
                yield ("s1", yx, layout, "int16", "none")

    return g


def run_s1(case):
    _, yx, layout, dtype = case[:4]
    comp = case[4] if len(case) > 4 else "deflate"
    lk = layout if layout == "YX" else f"{layout[0]}{layout[1]}"
    shp = ("1px" if yx == (1, 1) else "row" if yx[0] == 1 else "col" if yx[1] == 1 else "lt-tile" if max(yx) <= 16
           else "elongated" if max(yx) >= 16 * min(yx) else "multi")
    if max(yx) >= 200 and yx[0] == 1:
        shp = "long-row"
    if max(yx) >= 200 and yx[1] == 1:
        shp = "long-col"
    if all(n % 16 == 0 and (n // 16) & (n // 16 - 1) == 0 for n in yx) and shp == "multi":
        shp = "tile-times-2^n"
    r = R(outcome=f"s1:{lk}:{shp}:{comp}")
    write_and_inspect(str(case), yx, layout, dtype, "nodata", [16], (16, 16), r, f"{lk}:{shp}" + ("" if comp == "deflate" else f":{comp}"), compression=comp)
    return r


def gen_s2(tier):
    def g():
        for dtype in ("uint8", "int8", "int16", "uint16", "int32", "float32", "float64"):
            # every lossless codec that both tifffile and this GDAL build handle, two of them in another spelling
            for comp in ("deflate", "zstd", "lzw", "none", "packbits", "lzma", "adobe_deflate", "lerc", "lerc_deflate", "lerc_zstd",
                         "DEFLATE", "Zstd"):
                for pred in ("auto", "off"):
                    for ndk in ("none", "zero", "nodata"):
                        yield ("s2", dtype, comp, pred, ndk)
        # extreme pixel values (type limits, huge/tiny floats) with statistics on (the default) and off
        for dtype in ("uint8", "int8", "int16", "uint16", "int32", "float32", "float64"):
            for comp in ("deflate", "zstd", "none"):
                for stats in ("default", "off"):
                    yield ("s2x", dtype, comp, stats, "none" if stats == "default" else "nodata")

    return g


def run_s2(case):
    if case[0] == "s2x":
        _, dtype, comp, stats, ndk = case
        r = R(outcome=f"s2x:{comp}:stats-{stats}:{np.dtype(dtype).kind}{np.dtype(dtype).itemsize}")
        kw = dict(compression=comp, _noisy="extreme")
        if stats == "off":
            kw["stats"] = False
        write_and_inspect(str(case), (37, 50), "YX", dtype, ndk, [16], (16, 16), r, f"{dtype}:{comp}:extreme-values:stats-{stats}", **kw)
        if dtype in ("int16", "float32"):
            write_and_inspect(str(case) + "+SYX2", (20, 37), ("SYX", 2), dtype, ndk, [16], (16, 16), r,
                              f"{dtype}:{comp}:extreme-values:stats-{stats}:syx", **kw)
        return r
    _, dtype, comp, pred, ndk = case
    r = R(outcome=f"s2:{comp}:{pred}:{np.dtype(dtype).kind}{np.dtype(dtype).itemsize}")
    kw = dict(compression=comp)
    if pred == "off":
        kw["predictor"] = False
    write_and_inspect(str(case), (37, 50), "YX", dtype, ndk, [16], (16, 16), r, f"{dtype}:{comp}:{pred}:{ndk}", **kw)
    if dtype in ("uint8", "float32"):
        write_and_inspect(str(case) + "+YXS3", (20, 37), ("YXS", 3), dtype, ndk, [16], (16, 16), r, f"{dtype}:{comp}:{pred}:{ndk}:yxs", **kw)
    return r


BLOCKS = ([16], [32, 16], [16, 32], [(16, 32)], [20], [48], [256],
          # lists with more entries than the pyramid has levels (a fixed "house" list used on small images)
          [32, 16, 16, 16], [64, 32, 16, 16, 16, 16], [16] * 8, [1024, 512, 512], [48, 32, 16])
SRC_CHUNKS = {"tile": None, "smaller": (8, 8), "larger": (64, 64), "non-dividing": (23, 17),
              # irregular chunks whose largest chunk equals the tile size / band axis split over several chunks
              "irregular": "irregular", "irregular-first-small": "irregular2", "band-split": "band-split",
              "band-split-smaller": "band-split-8"}


def gen_s3(tier):
    def g():
        for bi, _ in enumerate(BLOCKS):
            for sc in SRC_CHUNKS:
                for yx, layout in (((70, 50), "YX"), ((33, 100), ("SYX", 2)), ((40, 37), ("YXS", 3)), ((50, 70), ("YXS", 5)),
                                   ((37, 53), ("SYX", 3)), ((301, 517), "YX")):
                    if yx == (301, 517) and not (len(BLOCKS[bi]) >= 3 and sc in ("tile", "larger")):
                        continue  # the large odd-sized image only with the long lists
                    if sc.startswith("band-split") and layout == "YX":
                        continue
                    yield ("s3", bi, sc, yx, layout)

    return g


def run_s3(case):
    _, bi, sc, yx, layout = case
    bs = BLOCKS[bi]
    first = bs[0] if isinstance(bs[0], tuple) else (bs[0], bs[0])
    tile = tuple(-(-b // 16) * 16 for b in first)
    chunks = SRC_CHUNKS[sc] or tile
    r = R(outcome=f"s3:b{bi}:{sc}")
    lk = layout if layout == "YX" else layout[0]
    write_and_inspect(str(case), yx, layout, "int16", "nodata", bs, chunks, r, f"blocks{bs}:{sc}:{lk}", compression="deflate",
                      _tile=tile)
    return r


def gen_s4(tier):
    def g():
        for spill in (1, 4096, 20000, 20 * (1 << 20)):
            for wpc in (1, 2, 3, 5):
                for pb in (False, True):
                    for yx, layout, bs in (((260, 390), "YX", [128]), ((130, 200), ("SYX", 2), [64, 32]), ((70, 50), "YX", [16])):
                        yield ("s4", spill, wpc, pb, yx, layout, tuple(bs))

    return g


def run_s4(case):
    _, spill, wpc, pb, yx, layout, bs = case
    r = R(outcome=f"s4:spill{spill}:wpc{wpc}:pb{int(pb)}:b{bs[0]}")
    lk = layout if layout == "YX" else layout[0]
    tile = (bs[0], bs[0])
    # poorly compressible pixels and 64 px tiles: partitions are large enough to spill several parts each
    write_and_inspect(str(case), yx, layout, "uint16", "nodata", list(bs), tile, r, f"spill{spill}:wpc{wpc}:{lk}:b{bs[0]}",
                      compression="zstd", spill_sz=spill, writes_per_chunk=wpc, parts_base_other=pb, _noisy=True, _tile=tile)
    return r


def gen_s8(tier):
    def g():
        for memory in MEMORY:
            for comp in ("none", "deflate", "zstd", "lzw"):
                for layout in ("YX", ("YXS", 3), ("SYX", 2)):
                    for yx, sc in (((37, 50), (16, 16)), ((64, 96), (16, 16)), ((33, 40), (32, 32)), ((20, 37), (8, 8))):
                        yield ("s8", memory, comp, layout, yx, sc)

    return g


def run_s8(case):
    _, memory, comp, layout, yx, sc = case
    lk = layout if layout == "YX" else f"{layout[0]}{layout[1]}"
    r = R(outcome=f"s8:{memory}:{comp}:{lk}")
    write_and_inspect(str(case), yx, layout, "int16", "nodata", [16], sc, r, f"memory-{memory}:{comp}:{lk}", compression=comp, _memory=memory)
    return r


def gen_s6(tier):
    def g():
        shapes = ((40, 37), (70, 50), (17, 31))
        for first in shapes:
            for second in shapes:
                for layout in ("YX", ("SYX", 2)):
                    for pb in (False, True):
                        yield ("s6", first, second, layout, pb)

    return g


def run_s6(case):
    """History: two saves to the SAME destination path, one after the other; the file must decode to the second
    image (the destination of an earlier write is replaced, never appended to or mixed in)."""
    _, first, second, layout, pb = case
    lk = layout if layout == "YX" else layout[0]
    rel = "same-shape" if first == second else ("smaller" if second[0] * second[1] < first[0] * first[1] else "larger")
    r = R(outcome=f"s6:{lk}:{rel}:pb{int(pb)}")
    td = tempfile.mkdtemp(prefix="vf-c05r-")
    try:
        path = os.path.join(td, "out.tif")
        kw = {}
        if pb:
            kw["parts_base"] = os.path.join(td, "parts")
            os.mkdir(kw["parts_base"])
        for n, yx in enumerate((first, second)):
            xx, data, gbox = build_xx(yx, layout, "int16", -9999 - n, (16, 16))
            if n == 1:
                data = data + 1000  # different pixels as well as (possibly) a different shape
                xx = xx + 1000
                xx.attrs["nodata"] = -9999 - n
            with dask.config.set(scheduler="sync"):
                save_cog_with_dask(xx, path, blocksize=[16], compression="deflate", **kw).compute()
            inspect(path, data, layout, gbox, -9999 - n, [16], r, f"{case} after save #{n + 1}", f"rewrite:{lk}:{rel}:save{n + 1}")
    finally:
        shutil.rmtree(td, ignore_errors=True)
    return r


def gen_s7(tier):
    def g():
        for k in (2, 3):
            for pixels in ("same-pixels", "different-pixels"):
                for stats in (True, False):
                    for vary in ("nothing", "level", "nodata", "shape"):
                        for layout in ("YX", ("SYX", 2)):
                            if tier == "quick" and k == 3 and layout != "YX":
                                continue
                            yield ("s7", k, pixels, stats, vary, layout)

    return g


def run_s7(case):
    """Several saves to DIFFERENT destinations computed together in one dask.compute call (one merged graph): every
    destination must exist afterwards and decode to its own source, and every future must return its own path."""
    _, k, pixels, stats, vary, layout = case
    lk = layout if layout == "YX" else layout[0]
    r = R(outcome=f"s7:k{k}:{pixels}:stats{int(bool(stats))}:{vary}:{lk}")
    td = tempfile.mkdtemp(prefix="vf-c05j-")
    try:
        futs, want = [], []
        for n in range(k):
            yx = (33, 20) if not (vary == "shape" and n == 1) else (20, 33)
            nd = -9999 - (n if vary == "nodata" else 0)
            xx, data, gbox = build_xx(yx, layout, "int16", nd, (16, 16))
            if pixels == "different-pixels" and n:
                data = data + 100 * n
                xx = xx + 100 * n
                xx.attrs["nodata"] = nd
            path = os.path.join(td, f"out{n}.tif")
            kw = dict(level=1 + n) if vary == "level" else {}
            futs.append(save_cog_with_dask(xx, path, blocksize=[16], compression="deflate", stats=stats, **kw))
            want.append((path, data, gbox, nd))
        with dask.config.set(scheduler="sync"):
            got = dask.compute(*futs)
        cls = f"joint-saves:{pixels}:stats{int(bool(stats))}:vary-{vary}"
        for n, ((path, data, gbox, nd), ret) in enumerate(zip(want, got)):
            what = f"{case} destination #{n}"
            if str(ret) != str(path):
                r.fail(f"{cls}:returned-path", f"{what}: future returned {ret!r}, destination was {path!r}")
            if not os.path.exists(path):
                r.fail(f"{cls}:destination-missing", f"{what}: {path} was never created (returned {ret!r})")
                continue
            inspect(path, data, layout, gbox, nd, [16], r, what, cls)
    finally:
        shutil.rmtree(td, ignore_errors=True)
    return r


# -- E3b --------------------------------------------------------------------------------------------------------
class _Ctx:
    pass


NPART = 8


def gen_s5(tier):
    def g():
        for part in range(NPART):
            yield ("s5", (20, 17), "YX", 4096, 1, 1, part)
            yield ("s5", (17, 20), ("SYX", 2), 1, 2, 1, part)
            if tier == "thorough":
                yield ("s5", (33, 20), ("YXS", 3), 1, 1, 1, part)
                # two deviations only on a graph small enough for the quadratic blow-up (about 25 tasks)
                yield ("s5", (17, 16), "YX", 1, 2, 2, part)

    return g


def run_s5(case):
    _, yx, layout, spill, wpc, bound, part = case
    nodata = -9999
    xx, data, gbox = build_xx(yx, layout, "int16", nodata, (16, 16))
    td = tempfile.mkdtemp(prefix="vf-c05o-")
    r = R(outcome=f"s5:{layout if layout == 'YX' else layout[0]}")
    try:
        path = os.path.join(td, "out.tif")
        fut = save_cog_with_dask(xx, path, blocksize=[16], compression="deflate", spill_sz=spill, writes_per_chunk=wpc)
        g = taskgraph.converted(fut, [fut.key])
        bad = {}
        sizes = set()
        lk = layout if layout == "YX" else layout[0]

        def check(x):
            dev = [(i, c) for i, c in enumerate(x.choices) if c]
            if x.error is not None:
                if not core.in_repo_tb(x.error):
                    raise x.error
                bad.setdefault(f"orders:exception:{type(x.error).__name__}@{core.raise_site(x.error)}",
                               f"{type(x.error).__name__}: {x.error}; deviations {dev}")
                return
            rr = R()
            inspect(path, data, layout, gbox, nodata, [16], rr, f"{case} deviations {dev}", f"orders:{lk}")
            for f in rr.fails:
                bad.setdefault(f.key, f.msg)
            sizes.add(os.path.getsize(path))
            os.remove(path)
            left = os.listdir(td)
            if left:
                bad.setdefault("orders:leftovers", f"{left}; deviations {dev}")
                for p in left:
                    shutil.rmtree(os.path.join(td, p), ignore_errors=True)

        st = taskgraph.explore(g, None, check, bound, part=(part, NPART))
        r.outcome += f":tasks{len(g) // 10 * 10}"
        r.counts = dict(schedules=st.executions, transitions=st.tasks_run, states=st.distinct_orders)
        if len(sizes) > 1:
            bad.setdefault("orders:file-size-depends-on-order", f"sizes {sorted(sizes)}")
        for k, m in bad.items():
            r.fail(k, m)
    finally:
        shutil.rmtree(td, ignore_errors=True)
    return r


def slices(tier):
    return [
        e1.Slice("s1-shapes-layouts", gen_s1(tier), run_s1, "image shapes x band layouts"),
        e1.Slice("s2-dtype-compression", gen_s2(tier), run_s2, "dtypes x compression x predictor x nodata"),
        e1.Slice("s3-blocksize-chunking", gen_s3(tier), run_s3, "blocksize lists x source chunkings"),
        e1.Slice("s4-spill", gen_s4(tier), run_s4, "spill size x writes per chunk x parts dir"),
        e1.Slice("s8-source-memory-layout", gen_s8(tier), run_s8,
                 "memory layout of the source blocks (C, Fortran source, Fortran-contiguous blocks, copies, lazy transpose, reversed view) x codec x band layout x chunking"),
        e1.Slice("s6-rewrite-destination", gen_s6(tier), run_s6, "two saves to the same destination path in sequence"),
        e1.Slice("s7-joint-saves", gen_s7(tier), run_s7, "2-3 saves to different destinations computed in one dask.compute call"),
        e1.Slice("s5-task-orders", gen_s5(tier), run_s5, "E3b: all task orders within the deviation bound (8 partitions "
                 "of the schedule tree per graph)", shards=32),
    ]


def main(ctx):
    ctx.rule = (
        "each slice is a complete product; every case writes a file through save_cog_with_dask (sync scheduler) and "
        "judges it with rasterio/GDAL decoding + tifffile structure walk; s5 executes the real graph in every task order "
        "within the deviation bound; non-trivial = every case (each writes and decodes a file)"
    )
    ctx.bounds = dict(shapes=SHAPES, layouts=[str(x) for x in LAYOUTS], blocksizes=[str(b) for b in BLOCKS],
                      src_chunks=SRC_CHUNKS, spill=[1, 4096, 20000, 20 << 20], writes_per_chunk=[1, 2, 3, 5],
                      deviation_bound="1 (thorough: 2 on the smallest graph)")
    ctx.assumptions = [
        "rasterio/GDAL and tifffile are independent, trusted decoders",
        "band-first stacks whose shape is ambiguous (x size 3 or 4, or (bands, rows) == image shape) are outside the domain: "
        "the writer documents shape-based layout detection",
        "tasks are executed one at a time (task granularity); intra-task threads (zlib/zstd) are not schedulable",
        "overview pixel content is not compared (the property constrains overview size and placement)",
    ]
    sl = slices(ctx.tier)
    if ctx.only:
        sl = [s for s in sl if any(s.name.startswith(o) for o in ctx.only)]
    e1.run_slices(ctx, sl)
    c = ctx.counters
    ctx.extra.update(states=max(1, int(c["states"])), transitions=max(1, int(c["transitions"])),
                     schedules=int(c["schedules"]), traces_validated_against_impl=int(c["schedules"]),
                     explanation="states = distinct task orders executed on the real save_cog_with_dask graph; transitions = "
                                 "tasks run by the harness executor")


def replay(slice_name, case, tier):
    return e1.replay(slices(tier), slice_name, case).fails
