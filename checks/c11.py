"""C11 - the output grid computed for another CRS encloses the source.

E1: complete Cartesian products over source GeoBoxes (north-up / rotated 20 deg, degree- and
metre-based, tile / regional / continental extents at locations inside the CRS areas of use) x
target CRSs (geographic, Mercator, equal-area, UTM, "utm" / "utm-n" / "utm-s", the source's own)
x resolution mode x anchor x tight x tol x shape request, executed on the real
``compute_output_geobox`` / ``GeoBox.to_crs`` / ``.odc.output_geobox``.

Oracle (independent of the code under test): the source raster is the six binary64 affine
coefficients the check itself hands to ``GeoBox``; pixel corners (all of them for rasters up to
64x64, plus extra points along every outer pixel side) are mapped with numpy and projected with a
``pyproj.Transformer.from_crs(src, dst, always_xy=True)`` built by the check; the result is read back
as (shape, affine) and judged in exact rationals (``fractions.Fraction``) with the DESIGN section 3
"R" tolerance ``1e-9*(|value| + pixel)`` for the implementation's own binary64 rounding.
"""
from __future__ import annotations

import itertools
import math
from fractions import Fraction as Fr

import numpy as np
import pyproj
from affine import Affine

from vf import e1
from vf.core import R

PROPERTY = "C11"
LEVEL = "exploration"

from odc.geo.geobox import GeoBox  # noqa: E402
from odc.geo.overlap import compute_output_geobox  # noqa: E402
from odc.geo.types import resxy_, xy_  # noqa: E402

E9 = Fr(1, 10**9)
BUF = 0.9  # documented: footprint is buffered by 0.9 source pixels before it is projected
ROT = 20.0


def eps(v, p):
    """Room for the implementation's own binary64 rounding of a coordinate v on a grid of pixel size p: 16 ulp of the
    coordinate plus 1e-9 pixel (NOT 1e-9*|v|, which at 5e6 m is 5 mm - whole pixels of a sub-metre grid)."""
    return 16 * Fr(math.ulp(float(abs(v)))) + E9 * p


# ---------------------------------------------------------------------------------------------
# alphabets: locations, CRSs, extents
# ---------------------------------------------------------------------------------------------
# centre lon/lat, the UTM zone the centre lies in, the equal-area CRS whose area of use contains it
LOCS = {
    "eu": (15.0, 45.0, 32633, 3035),  # Italy/Slovenia: zone 33N, LAEA Europe
    "au": (147.0, -35.0, 32755, 3577),  # SE Australia: zone 55S, Australian Albers
    "eq": (15.0, 3.0, 32633, 6933),  # equatorial Africa, just north of the equator; EASE-2 (cylindrical EA)
    "no": (15.0, 68.0, 32633, 3035),  # northern Scandinavia (high latitude)
    "sa": (-69.0, -33.0, 32719, 6933),  # Chile/Argentina: western + southern hemisphere
    "s9": (15.0, -8.0, 32733, 6933),  # Angola, 8S: UTM northing 9.1e6 (slice far-origin only)
    # continental families (UTM code only used to have one; never a target there)
    "EU": (10.0, 52.0, 32632, 3035),
    "AU": (133.27, -26.78, 32753, 3577),
    "SA": (-60.0, -15.0, 32721, 6933),
}
# extent name -> (degrees, metres) spanned by the longest raster side
EXTENT = {"tile": (0.1, 1.0e4), "district": (0.2, 2.0e4), "regional": (4.0, 4.0e5), "continental": (40.0, 3.0e6)}
SRC_KINDS = ("deg", "merc", "ea", "utmz")
UTM_ARGS = ("utm", "utm-n", "utm-s")


# a second geographic CRS (other datum) whose area of use contains the location
DEG2 = {"eu": 4258, "no": 4258, "au": 4283, "sa": 4674}  # ETRS89, GDA94, SIRGAS 2000


# CRSs WITHOUT an EPSG code (kind names end in '*'): PROJ strings no registry entry matches
# (pyproj's to_epsg() is None for each of them; asserted in slices()); all metre based
NOEPSG = {
    "sinu*": "+proj=sinu +lon_0=0 +x_0=0 +y_0=0 +R=6371007.181 +units=m +no_defs",  # MODIS sinusoidal
    "laea*": "+proj=laea +lat_0=50 +lon_0=12 +x_0=1000000 +y_0=1000000 +ellps=GRS80 +units=m +no_defs",
    "tmerc*": "+proj=tmerc +lat_0=0 +lon_0=12 +k=0.9996 +x_0=500000 +y_0=0 +ellps=GRS80 +units=m +no_defs",
    "aea*": "+proj=aea +lat_0=30 +lon_0=10 +lat_1=43 +lat_2=62 +x_0=0 +y_0=0 +ellps=GRS80 +units=m +no_defs",
}


def kind_epsg(kind, loc):
    """-> CRS id: an EPSG code (int) or, for the kinds without one, the PROJ string"""
    if kind in NOEPSG:
        return NOEPSG[kind]
    if kind.startswith("stale:"):
        return stale_wkt(kind_epsg(kind[6:], loc))
    _, _, utm, ea = LOCS[loc]
    # utmn: the UTM zone east of the location's own (a raster at the location lies outside its area of use)
    return {"deg": 4326, "merc": 3857, "ea": ea, "utmz": utm, "utmn": utm + 1, "cea": 6933, "deg2": DEG2.get(loc)}[kind]


_STALE = {}


def stale_wkt(code):
    """WKT2 of EPSG:code with its false easting moved by 250 km while the trailing ID["EPSG",code] is left in place: a
    DIFFERENT CRS carrying a stale identifier (pyproj's own to_epsg() is None for it)"""
    w = _STALE.get(code)
    if w is None:
        import re  # pylint: disable=import-outside-toplevel

        base = pyproj.CRS.from_epsg(code)
        txt = base.to_wkt()
        w, n = re.subn(r'(PARAMETER\["(?:False easting|Easting at false origin)",)(-?[0-9.]+)', lambda m: m.group(1) + repr(float(m.group(2)) + 250000.0),
                       txt, count=1)
        c = pyproj.CRS.from_wkt(w)
        if n != 1 or f'ID["EPSG",{code}]]' not in w[-40:] or c.to_epsg() is not None or c == base:
            raise RuntimeError(f"alphabet error: cannot build a stale-id WKT from EPSG:{code}")
        _STALE[code] = w
    return w


def crs_spec(cid):
    """what is handed to the library for a CRS id"""
    return f"epsg:{cid}" if isinstance(cid, int) else cid


def _new_pcrs(cid):
    return pyproj.CRS.from_epsg(cid) if isinstance(cid, int) else pyproj.CRS.from_user_input(cid)


_T = {}
_PCRS = {}


def pcrs(epsg):
    c = _PCRS.get(epsg)
    if c is None:
        c = _PCRS[epsg] = _new_pcrs(epsg)
    return c


def fresh(src, dst):
    """pyproj transformer built by the check from fresh pyproj CRS objects made from the EPSG code / the same PROJ
    string (one per process and pair)."""
    k = (src, dst)
    t = _T.get(k)
    if t is None:
        t = _T[k] = pyproj.Transformer.from_crs(_new_pcrs(src), _new_pcrs(dst), always_xy=True)
    return t


def unit_class(epsg):
    u = pcrs(epsg).axis_info[0].unit_name.lower()
    if u.startswith("degree"):
        return "degree"
    if u in ("metre", "meter"):
        return "metre"
    return u


def area_of_use(epsg):
    a = pcrs(epsg).area_of_use
    if a is None:
        return None  # custom PROJ strings: no registered area of use
    return (a.west, a.south, a.east, a.north)


# ---------------------------------------------------------------------------------------------
# the source raster: six affine coefficients made here, pixel sample sets, projected extents
# ---------------------------------------------------------------------------------------------
class Src:
    # buf: footprint buffer in pixels along (u, v); unset = (BUF, BUF) (square pixels)
    __slots__ = ("key", "epsg", "kind", "orient", "extent", "shape", "p", "coef", "gbox", "_memo", "buf")


def fresh_instance(t: "Src") -> "Src":
    """the same raster as a NEW GeoBox object (no lazily filled state from earlier cases); oracle facts are shared"""
    s = Src()
    s.key, s.epsg, s.kind, s.orient, s.extent, s.shape, s.p, s.coef, s._memo = (
        t.key, t.epsg, t.kind, t.orient, t.extent, t.shape, t.p, t.coef, t._memo)
    if hasattr(t, "buf"):
        s.buf = t.buf
    s.gbox = GeoBox(s.shape, Affine(*s.coef), crs_spec(s.epsg))
    return s


_SRC = {}


def make_src(kind, loc, extent, shape, orient):
    key = (kind, loc, extent, shape, orient)
    s = _SRC.get(key)
    if s is not None:
        return fresh_instance(s)
    lon, lat, _, _ = LOCS[loc]
    epsg = kind_epsg(kind, loc)
    ny, nx = shape
    geographic = unit_class(epsg) == "degree"
    ext = EXTENT[extent][0 if geographic else 1]
    p = ext / max(nx, ny)
    if geographic:
        cx, cy = lon, lat  # (the centre need not be the same point to the metre in another datum)
    else:
        cx, cy = fresh(4326, epsg).transform(lon, lat)
        cx, cy = float(round(cx)), float(round(cy))
    if orient == "nu":
        A = Affine(p, 0.0, cx - nx * p / 2, 0.0, -p, cy + ny * p / 2)
    elif orient == "mx":  # columns run east to west
        A = Affine(-p, 0.0, cx + nx * p / 2, 0.0, -p, cy + ny * p / 2)
    elif orient == "su":  # rows run south to north (ascending y labels)
        A = Affine(p, 0.0, cx - nx * p / 2, 0.0, p, cy - ny * p / 2)
    elif orient == "r180":
        A = Affine(-p, 0.0, cx + nx * p / 2, 0.0, p, cy - ny * p / 2)
    else:
        A = (Affine.translation(cx, cy) * Affine.rotation(ROT) * Affine.translation(-nx * p / 2, ny * p / 2)
             * Affine.scale(p, -p))
    s = Src()
    s.key, s.epsg, s.kind, s.orient, s.extent, s.shape, s.p = key, epsg, kind, orient, extent, shape, p
    s.coef = tuple(float(v) for v in tuple(A)[:6])
    s.gbox = GeoBox(shape, Affine(*s.coef), crs_spec(epsg))
    s._memo = {}
    if len(_SRC) > 64:
        _SRC.clear()
    _SRC[key] = s
    return fresh_instance(s)


_PX = {}


def px_samples(ny, nx):
    """pixel coordinates of the oracle's sample points: every pixel corner when the raster is at
    most 64x64 (else the corners on the outer boundary), plus extra points along every outer pixel
    side (10, more for very small rasters, 2 for rasters larger than 64 pixels)."""
    k = (ny, nx)
    got = _PX.get(k)
    if got is not None:
        return got
    n = max(nx, ny)
    if n <= 64:
        extra = max(10, -(-256 // n))
        uu, vv = np.meshgrid(np.arange(nx + 1, dtype="float64"), np.arange(ny + 1, dtype="float64"))
        U, V = [uu.ravel()], [vv.ravel()]
    else:
        extra = 2
        U, V = [], []
    m = extra + 1
    su = np.arange(nx * m + 1, dtype="float64") / m  # includes the corners
    sv = np.arange(ny * m + 1, dtype="float64") / m
    for v in (0.0, float(ny)):
        U.append(su)
        V.append(np.full_like(su, v))
    for u in (0.0, float(nx)):
        U.append(np.full_like(sv, u))
        V.append(sv)
    nb = 2 * (su.size + sv.size)
    got = (np.concatenate(U), np.concatenate(V), nb, extra)
    _PX[k] = got
    return got


def px_buffered(ny, nx, bu=BUF, bv=BUF):
    """pixel coordinates of points on the outline of the raster grown by the footprint buffer: a distance in world units,
    i.e. (bu, bv) pixels along the two pixel axes (straight offset sides, ellipses about the four corners)."""
    m = min(max(64, 4 * max(nx, ny)), 8192)
    su = np.linspace(0.0, nx, m + 1)
    sv = np.linspace(0.0, ny, m + 1)
    ang = np.linspace(0.0, 2 * math.pi, 96, endpoint=False)
    U = [su, su, np.full_like(sv, -bu), np.full_like(sv, nx + bu)]
    V = [np.full_like(su, -bv), np.full_like(su, ny + bv), sv, sv]
    for cu, cv in ((0, 0), (nx, 0), (0, ny), (nx, ny)):
        U.append(cu + bu * np.cos(ang))
        V.append(cv + bv * np.sin(ang))
    return np.concatenate(U), np.concatenate(V)


def to_world(coef, U, V):
    a, b, c, d, e, f = coef
    return a * U + b * V + c, d * U + e * V + f


def _bbox(X, Y):
    return (float(X.min()), float(Y.min()), float(X.max()), float(Y.max()))


def facts(S: Src, dst):
    """Everything the oracle needs about (source, destination EPSG), from fresh pyproj objects."""
    got = S._memo.get(dst)
    if got is not None:
        return got
    ny, nx = S.shape
    U, V, nb, extra = px_samples(ny, nx)
    X, Y = to_world(S.coef, U, V)
    t = fresh(S.epsg, dst)
    PX, PY = t.transform(X, Y)
    PX, PY = np.asarray(PX), np.asarray(PY)
    out = {"finite": bool(np.isfinite(PX).all() and np.isfinite(PY).all()), "npts": int(U.size), "extra": extra}
    # lon/lat of the outer boundary: is the raster inside the areas of use of both CRSs?
    bX, bY = X[-nb:], Y[-nb:]
    if S.epsg == 4326:
        lo, la = bX, bY
    else:
        lo, la = fresh(S.epsg, 4326).transform(bX, bY)
        lo, la = np.asarray(lo), np.asarray(la)
    if np.isfinite(lo).all() and np.isfinite(la).all():
        ll = _bbox(lo, la)
    else:
        ll = None
    out["lonlat"] = ll
    inside = ll is not None and out["finite"]
    if inside:
        for code in (S.epsg, dst):
            aou = area_of_use(code)
            if aou is None:
                continue
            w, s_, e_, n_ = aou
            if w > e_ or not (w <= ll[0] and ll[2] <= e_ and s_ <= ll[1] and ll[3] <= n_):
                inside = False
    out["inside"] = inside
    if out["finite"]:
        out["F"] = _bbox(PX, PY)
        bu, bv = px_buffered(ny, nx, *getattr(S, "buf", (BUF, BUF)))
        wX, wY = to_world(S.coef, bu, bv)
        BX, BY = t.transform(wX, wY)
        BX, BY = np.asarray(BX), np.asarray(BY)
        ok = np.isfinite(BX) & np.isfinite(BY)
        fb = _bbox(BX[ok], BY[ok]) if ok.all() else None
        if unit_class(S.epsg) == "degree" and ((np.abs(wX) > 180).any() or (np.abs(wY) > 90).any()):
            # the buffer leaves the lon/lat domain (wraps at the antimeridian / passes a pole): where its image lies depends
            # on how the outline is sampled - no buffered reference; containment of the raster itself is still judged
            fb = None
        if fb is not None:
            f_ = out["F"]
            fb = (min(fb[0], f_[0]), min(fb[1], f_[1]), max(fb[2], f_[2]), max(fb[3], f_[3]))
        out["Fb"] = fb
        # local stretch of one source pixel at the centre pixel (singular values of the Jacobian)
        uc, vc = nx // 2 + 0.5, ny // 2 + 0.5
        sig = []
        for h in (0.5, 2.0):
            pu = np.array([uc + h, uc - h, uc, uc])
            pv = np.array([vc, vc, vc + h, vc - h])
            jx, jy = t.transform(*to_world(S.coef, pu, pv))
            J = np.array([[jx[0] - jx[1], jx[2] - jx[3]], [jy[0] - jy[1], jy[2] - jy[3]]]) / (2 * h)
            if np.isfinite(J).all():
                sig.extend(np.linalg.svd(J, compute_uv=False).tolist())
        out["sigma"] = (min(sig), max(sig)) if len(sig) == 4 and min(sig) > 0 else None
    if len(S._memo) > 8:
        S._memo.clear()
    S._memo[dst] = out
    return out


# ---------------------------------------------------------------------------------------------
# request encodings
# ---------------------------------------------------------------------------------------------
def nominal_px(S: Src, dst_units):
    """a round pixel size in destination units comparable to the source pixel"""
    su = unit_class(S.epsg)
    v = S.p
    if su == "degree" and dst_units == "metre":
        v = S.p * 111320.0
    elif su == "metre" and dst_units == "degree":
        v = S.p / 111320.0
    return float(f"{v:.3g}")


def anchor_arg(enc):
    """-> (value for anchor=, (ax, ay) pixel fractions or None when snapping is off, class)"""
    if isinstance(enc, tuple):
        _, ax, ay = enc
        return xy_(ax, ay), (ax, ay), "xy"
    if enc == "default":
        return "default", (0.0, 0.0), "default"
    if enc == "edge":
        return "edge", (0.0, 0.0), "edge"
    if enc == "center":
        return "center", (0.5, 0.5), "center"
    if enc == "floating":
        return "floating", None, "floating"
    f = float(enc)
    return enc, (f, f), "frac"


def dst_arg_of(enc, S: Src, loc):
    """-> (value for crs=, expected EPSG or None for the utm spellings, class)"""
    if enc in UTM_ARGS:
        return enc, None, enc
    if isinstance(enc, int):
        return f"epsg:{enc}", enc, f"epsg{enc}"
    kind, _, form = enc.partition("@")
    code = kind_epsg(kind, loc)
    if form == "wkt":  # another spelling of the same CRS: its WKT2 text
        return _new_pcrs(code).to_wkt(), code, enc
    if form == "pyproj":  # ... a pyproj.CRS object of it
        return _new_pcrs(code), code, enc
    return crs_spec(code), code, enc


# ---------------------------------------------------------------------------------------------
# clauses
# ---------------------------------------------------------------------------------------------
def _edges(C, n, ro):
    far = C + n * ro
    return (C, far) if ro > 0 else (far, C)


def clause_alignment(r, kk, ax, a, C, P, what):
    """pixel edges are (k + a) * pixel from the CRS origin"""
    q = C / P - Fr(a)
    d = abs(q - round(q)) * P
    tol_al = eps(C, P)
    if d > tol_al:
        r.fail(f"alignment:{ax}:{kk}",
               f"{what}: {ax} pixel edges sit at fraction {float((C / P) % 1):.9g} of a pixel from the CRS origin, "
               f"requested {float(a)!r} (origin {float(C)!r}, pixel {float(P)!r})")
        return "misaligned"
    if 4 * tol_al >= P:
        return "unresolvable"  # |origin| / pixel > 2.5e8: the R tolerance exceeds a quarter pixel
    return "aligned"


def clause_utm(r, kk, dst_enc, dst, ll_of, what):
    """'utm' / 'utm-n' / 'utm-s' resolved to EPSG:dst: a WGS84 UTM zone, in the requested hemisphere, whose area of use
    overlaps the raster's lon/lat box ``ll_of()``.  -> 'N' / 'S', or None when it is not a UTM zone at all."""
    north, south = 32601 <= dst <= 32660, 32701 <= dst <= 32760
    if not (north or south) or pcrs(dst).utm_zone is None:
        r.fail(f"utm:not-a-utm-zone:{kk}", f"{what}: resolved to EPSG:{dst} which is not a WGS84 UTM zone")
        return None
    if dst_enc == "utm-n" and not north:
        r.fail(f"utm:hemisphere:{kk}", f"{what}: resolved to EPSG:{dst} (southern) for 'utm-n'")
    if dst_enc == "utm-s" and not south:
        r.fail(f"utm:hemisphere:{kk}", f"{what}: resolved to EPSG:{dst} (northern) for 'utm-s'")
    ll = ll_of()
    w, s_, e_, n_ = area_of_use(dst)
    if ll is not None:
        # overlap = a common part of positive size (touching along a zone edge is not overlap) unless the raster itself
        # has no extent in that direction
        lon_ok = (ll[0] < e_ and w < ll[2]) or (ll[0] == ll[2] and w <= ll[0] <= e_)
        lat_ok = (ll[1] < n_ and s_ < ll[3]) or (ll[1] == ll[3] and s_ <= ll[1] <= n_)
        if not lon_ok:
            r.fail(f"utm:zone-misses-raster:{kk}",
                   f"{what}: resolved to EPSG:{dst} (lon {w}..{e_}) but the raster spans lon {ll[0]:.6g}..{ll[2]:.6g}")
        elif dst_enc == "utm" and not lat_ok:
            r.fail(f"utm:zone-misses-raster:{kk}",
                   f"{what}: resolved to EPSG:{dst} (lat {s_}..{n_}) but the raster spans lat {ll[1]:.6g}..{ll[3]:.6g}")
    return "N" if north else "S"


def judge(r, S: Src, loc, dst_enc, req, aenc, tight, tol, g, what):
    """Judge one result; sets r.outcome, r.nontrivial."""
    ny, nx = S.shape
    src_u = unit_class(S.epsg)
    _, want_epsg, dclass = dst_arg_of(dst_enc, S, loc)
    mode = req[0] if req[0] == "shape" else (req[1] if isinstance(req[1], str) else "explicit")
    if mode == "shape":
        mode = "shape-int" if isinstance(req[1], int) else "shape-tuple"
    kk = f"{S.kind}->{dclass}:{S.orient}:{S.extent}:{mode}"
    r.nontrivial = False

    if not isinstance(g, GeoBox) or g.crs is None:
        r.fail(f"result-type:{kk}", f"{what}: returned {g!r}")
        r.outcome = "bad-type"
        return
    # -- which CRS ------------------------------------------------------------------------------
    labels = []
    if want_epsg is not None:
        if isinstance(want_epsg, int):
            crs_ok = g.crs.epsg == want_epsg
        else:
            # no EPSG code: the result's CRS, read back through its WKT by pyproj, equals pyproj's reading of the
            # requested PROJ string
            crs_ok = pyproj.CRS.from_user_input(g.crs.to_wkt()) == pcrs(want_epsg)
        if not crs_ok:
            r.fail(f"crs:{kk}", f"{what}: result CRS is {str(g.crs)[:120]!r}, requested {crs_spec(want_epsg)!r}"
                   + ("; the source GeoBox itself came back" if g is S.gbox else ""))
            r.outcome = "wrong-crs"
            return
        dst = want_epsg
    else:
        dst = g.crs.epsg
        if dst is None:
            r.fail(f"crs:not-epsg:{kk}", f"{what}: result CRS {g.crs} has no EPSG code")
            r.outcome = "bad-crs"
            return
        lab = clause_utm(r, kk, dst_enc, dst, lambda: facts(S, dst)["lonlat"], what)
        if lab is None:
            r.outcome = "utm:not-utm"
            return
        labels.append(lab)
        r.nontrivial = True
    own = dst == S.epsg
    dst_u = unit_class(dst)

    # -- the source's own CRS -------------------------------------------------------------------
    if own:
        all_default = req == ("res", "auto") and aenc == "default" and not tight and tol == 0.01
        if all_default:
            r.nontrivial = True
            if g is S.gbox:
                r.outcome = "own:default:same-object"
                return
            if g == S.gbox:
                r.outcome = "own:default:equal"
                return
            r.fail(f"own-crs:changed:{S.kind}:{S.orient}:{dclass}",
                   f"{what}: own CRS with default options returned {g!r}, not the source {S.gbox!r}")
            r.outcome = "own:default:changed"
            return
        if g is S.gbox and mode in ("auto", "same") and aenc == "default":
            # only tol / tight / 'same' differ from the defaults and the source itself came back: the property's
            # first sentence is about another CRS, the second about default options; recorded, nothing demanded.
            # With any other anchor, resolution or shape request every general clause below applies.
            r.outcome = f"own:returned-source:{mode}:{'tight' if tight else 'snap'}"
            return
        labels.append("own")

    A = g.affine
    gy, gx = g.shape
    if A.b != 0 or A.d != 0:
        r.fail(f"axis-aligned:{kk}", f"{what}: affine {tuple(A)[:6]} is not axis aligned")
        r.outcome = "rotated-result"
        return
    if A.a == 0 or A.e == 0 or gx < 1 or gy < 1:
        r.fail(f"degenerate:{kk}", f"{what}: shape {g.shape} affine {tuple(A)[:6]}")
        r.outcome = "degenerate"
        return

    fx = facts(S, dst)
    _, axy, aclass = anchor_arg(aenc)
    if tight:
        axy, aclass = None, "tight"
    Px, Py = abs(Fr(A.a)), abs(Fr(A.e))
    Cx, Cy = Fr(A.c), Fr(A.f)
    xlo, xhi = _edges(Cx, gx, Fr(A.a))
    ylo, yhi = _edges(Cy, gy, Fr(A.e))
    T = Fr(tol)

    # -- pixel size -----------------------------------------------------------------------------
    same_units = src_u == dst_u and src_u in ("metre", "degree")
    res_label = mode
    if mode in ("same", "auto") and (mode == "same" or same_units):
        # source resolution: exact for a north-up raster, |column| of the affine for a rotated one
        a, b, _, d, e, _ = S.coef
        if b == 0 and d == 0:
            okx, oky = A.a == a, A.e == e
        else:
            ex, ey = math.hypot(a, d), -math.hypot(b, e)
            okx = abs(A.a - ex) <= 1e-9 * ex
            oky = abs(A.e - ey) <= 1e-9 * abs(ey)
        if not (okx and oky):
            why = "resolution='same'" if mode == "same" else f"auto with both CRSs in {src_u}s"
            r.fail(f"resolution:not-source:{kk}",
                   f"{what}: pixel size ({A.a!r}, {A.e!r}) but {why} means the source's pixel size ({S.p!r})")
        res_label = "same" if mode == "same" else "auto=same"
    elif mode in ("fit", "auto"):
        res_label = "fit" if mode == "fit" else "auto=fit"
        if not (A.a > 0 and A.e == -A.a):
            r.fail(f"resolution:fit-not-square:{kk}", f"{what}: fitted pixel size ({A.a!r}, {A.e!r}) is not square/Y-inverted")
        sg = fx.get("sigma")
        if sg is not None and not (0.9 * sg[0] <= A.a <= 1.1 * sg[1]):
            r.fail(f"resolution:fit-outside-local-scale:{kk}",
                   f"{what}: fitted pixel size {A.a!r}, but one source pixel at the centre maps to between "
                   f"{sg[0]!r} and {sg[1]!r} destination units (fresh pyproj, central differences)")
    elif mode == "explicit":
        want = res_value(req[1], S, dst_u)[1]
        if (A.a, A.e) != want:
            r.fail(f"resolution:not-as-requested:{kk}", f"{what}: pixel size ({A.a!r}, {A.e!r}), requested {want!r}")

    if not fx["finite"]:
        r.outcome = f"{res_label}:oracle-nonfinite"
        return
    F, Fb = fx["F"], fx.get("Fb")
    sg = fx.get("sigma")
    s_px = Fr(sg[1]) if sg is not None else Fr(0)

    def slack(P):
        # discretisation of the oracle's own outline sampling (see assumptions): 1e-3 of the larger of the
        # output pixel and the projected source pixel
        return max(P, s_px) / 1000

    # -- shape-driven requests ------------------------------------------------------------------
    if mode in ("shape-tuple", "shape-int") and Fb is None:
        r.outcome = ":".join(labels + [mode, "no-buffered-reference"])
        return
    if mode in ("shape-tuple", "shape-int"):
        r.nontrivial = True
        spanF = (Fr(F[2]) - Fr(F[0]), Fr(F[3]) - Fr(F[1]))
        spanB = (Fr(Fb[2]) - Fr(Fb[0]), Fr(Fb[3]) - Fr(Fb[1]))
        snapped = axy is not None
        if not (A.a > 0 and A.e < 0):
            r.fail(f"shape:orientation:{kk}", f"{what}: pixel size ({A.a!r}, {A.e!r}) should be (+, -)")
        if mode == "shape-tuple":
            qy, qx = req[1]
            if (gy, gx) != (qy, qx):
                r.fail(f"shape:not-as-requested:{kk}:{aclass}", f"{what}: shape {(gy, gx)}, requested {(qy, qx)}")
                r.outcome = "shape:wrong"
                return
            for ax, P, n, i in (("x", Px, gx, 0), ("y", Py, gy, 1)):
                sl = slack(P)
                if not (spanF[i] / n - sl / n - eps(spanF[i], P) <= P <= spanB[i] / n + sl / n + eps(spanB[i], P)):
                    r.fail(f"shape:pixel-size:{ax}:{kk}",
                           f"{what}: {ax} pixel {float(P)!r}; projected footprint / {n} = {float(spanF[i] / n)!r} "
                           f"(with the {BUF} px buffer {float(spanB[i] / n)!r})")
            lab = "tuple"
        else:
            N = req[1]
            if Px != Py:
                r.fail(f"shape:int-not-square:{kk}", f"{what}: pixel size ({A.a!r}, {A.e!r}) not square")
            P = Px
            sl = slack(P)
            lo_, hi_ = max(spanF) / N, max(spanB) / N
            if not (lo_ - sl / N - eps(lo_, P) <= P <= hi_ + sl / N + eps(hi_, P)):
                r.fail(f"shape:pixel-size:{kk}",
                       f"{what}: pixel {float(P)!r}; longest side of the projected footprint / {N} = {float(lo_)!r} "
                       f"(with the {BUF} px buffer {float(hi_)!r})")
            nl = max(gx, gy)
            # without snapping the longest side has exactly N pixels; on a snapped grid a span of N pixels that does
            # not start on a grid line needs N+1 pixels to stay covered
            if not (nl == N or (snapped and nl == N + 1)):
                r.fail(f"shape:longest-side:{kk}:{aclass}", f"{what}: shape {(gy, gx)}, requested longest side {N}")
            lab = f"int:long={'N' if nl == N else 'N+1' if nl == N + 1 else '?'}"
        # displaced by less than one pixel from the projected footprint (taken with anything between no and
        # the documented 0.9 px buffer); not displaced at all on the origin sides when snapping is off
        moved = False
        for ax, lo, hi, P, j in (("x", xlo, xhi, Px, 0), ("y", ylo, yhi, Py, 1)):
            sl = slack(P)
            f_lo, f_hi, b_lo, b_hi = Fr(F[j]), Fr(F[j + 2]), Fr(Fb[j]), Fr(Fb[j + 2])
            # origin side: x -> low edge (rx > 0); y -> high edge (ry < 0); the far side of an int request may
            # run over by less than one pixel even without snapping (pixel count is rounded up)
            org_lo = (ax == "x")
            d_lo = 1 if (snapped or (mode == "shape-int" and not org_lo)) else 0
            d_hi = 1 if (snapped or (mode == "shape-int" and org_lo)) else 0
            e_lo, e_hi = eps(f_lo, P), eps(f_hi, P)
            if not (b_lo - d_lo * P - sl - e_lo < lo < f_lo + d_lo * P + sl + e_lo + T * P):
                r.fail(f"shape:displacement:{ax}-low:{kk}:{aclass}",
                       f"{what}: {ax} low edge {float(lo)!r}; projected footprint starts at {float(f_lo)!r} "
                       f"({float(b_lo)!r} with buffer); pixel {float(P)!r}")
            if not (f_hi - d_hi * P - sl - e_hi - T * P < hi < b_hi + d_hi * P + sl + e_hi):
                r.fail(f"shape:displacement:{ax}-high:{kk}:{aclass}",
                       f"{what}: {ax} high edge {float(hi)!r}; projected footprint ends at {float(f_hi)!r} "
                       f"({float(b_hi)!r} with buffer); pixel {float(P)!r}")
            if lo < b_lo - sl - e_lo or hi > b_hi + sl + e_hi:
                moved = True
        al = "floating"
        if snapped:
            a1 = clause_alignment(r, f"{kk}:{aclass}", "x", axy[0], Cx, Px, what)
            a2 = clause_alignment(r, f"{kk}:{aclass}", "y", axy[1], Cy, Py, what)
            al = a1 if a1 == a2 else f"{a1}/{a2}"
        r.outcome = ":".join(labels + [f"shape:{lab}", aclass, al, "moved" if moved else "inplace",
                                       "in" if fx["inside"] else "outside-area"])
        return

    # -- resolution-driven requests: enclosure --------------------------------------------------
    if fx["inside"]:
        r.nontrivial = True
        worst = Fr(-10**9)
        for ax, side, unc, ref, P in (
            ("x", "low", xlo - Fr(F[0]), Fr(F[0]), Px), ("x", "high", Fr(F[2]) - xhi, Fr(F[2]), Px),
            ("y", "low", ylo - Fr(F[1]), Fr(F[1]), Py), ("y", "high", Fr(F[3]) - yhi, Fr(F[3]), Py),
        ):
            worst = max(worst, unc / P)
            if unc > T * P + eps(ref, P):
                r.fail(f"enclosure:{ax}-{side}:{kk}",
                       f"{what}: result spans {ax} [{float(xlo if ax == 'x' else ylo)!r}, "
                       f"{float(xhi if ax == 'x' else yhi)!r}] but projected source pixel corners reach {float(ref)!r}: "
                       f"{float(unc / P):.6g} px outside (tol={tol}; {fx['npts']} points, fresh pyproj)")
        if worst <= 0:
            # how much room is left on the tightest side (vacuity detector for the enclosure clause)
            enc = "enclosed" + ("<.5px" if -worst < Fr(1, 2) else "<1px" if -worst < 1 else "<2px" if -worst < 2 else ">=2px")
        elif any(f.key.startswith("enclosure") for f in r.fails):
            enc = "NOT-ENCLOSED"
        else:
            enc = "within-tol"
    else:
        enc = "outside-area"

    # -- alignment ------------------------------------------------------------------------------
    if axy is not None:
        a1 = clause_alignment(r, f"{kk}:{aclass}", "x", axy[0], Cx, Px, what)
        a2 = clause_alignment(r, f"{kk}:{aclass}", "y", axy[1], Cy, Py, what)
        al = a1 if a1 == a2 else f"{a1}/{a2}"
    else:
        # snapping off: the grid starts on the edge of the (buffered) projected footprint, it is not moved
        al = "tight" if Fb is not None else "tight:no-buffered-reference"
        for ax, org, low_side, P, j in ((("x", Cx, A.a > 0, Px, 0), ("y", Cy, A.e > 0, Py, 1)) if Fb is not None else ()):
            sl = slack(P)
            if low_side:
                f_, b_ = Fr(F[j]), Fr(Fb[j])
                bad = org < b_ - sl - eps(b_, P) or org > f_ + T * P + sl + eps(f_, P)
            else:
                f_, b_ = Fr(F[j + 2]), Fr(Fb[j + 2])
                bad = org > b_ + sl + eps(b_, P) or org < f_ - T * P - sl - eps(f_, P)
            if bad:
                al = "tight-moved"
                r.fail(f"tight:origin-moved:{ax}:{kk}",
                       f"{what}: snapping is off but the {ax} origin {float(org)!r} is not on the projected footprint's "
                       f"edge ({float(f_)!r}; {float(b_)!r} with the {BUF} px buffer); pixel {float(P)!r}")
    r.outcome = ":".join(labels + [res_label, f"{src_u[:3]}->{dst_u[:3]}", aclass, enc, al])


def res_value(enc, S: Src, dst_units):
    """explicit resolution: -> (value for resolution=, expected (rx, ry))"""
    if enc[0] == "abs":
        return enc[1], (enc[1], -enc[1])
    nom = nominal_px(S, dst_units)
    if enc[0] == "s":
        v = enc[1] * nom
        return v, (v, -v)
    _, fx_, fy_ = enc
    rx, ry = fx_ * nom, fy_ * nom
    return resxy_(rx, ry), (rx, ry)


# ---------------------------------------------------------------------------------------------
# one case
# ---------------------------------------------------------------------------------------------
def run_case(case):
    api, orient, kind, loc, extent, sshape, dst_enc, req, aenc, tight, tol = case
    S = make_src(kind, loc, extent, sshape, orient)
    crs_arg, want_epsg, _ = dst_arg_of(dst_enc, S, loc)
    aarg, _, _ = anchor_arg(aenc)
    kw = dict(tight=tight, tol=tol)
    if aenc != "default" or api == "cog-explicit":
        kw["anchor"] = aarg
    if req[0] == "shape":
        kw["shape"] = req[1]
    elif isinstance(req[1], str):
        if req[1] != "auto" or api == "cog-explicit":
            kw["resolution"] = req[1]
    else:
        if want_epsg is None:
            raise ValueError("explicit resolution needs an explicit destination")
        kw["resolution"] = res_value(req[1], S, unit_class(want_epsg))[0]
    if tol == 0.01 and not tight and api != "cog-explicit":
        # all-default request: leave the arguments out altogether
        kw.pop("tol")
        kw.pop("tight")
    crs_txt = repr(crs_arg) if isinstance(crs_arg, (str, int)) else f"pyproj.CRS({crs_spec(want_epsg)!r})"
    if len(crs_txt) > 200:
        crs_txt = f"<WKT2 of {crs_spec(want_epsg)!r}>"
    what = (f"{api}(GeoBox({sshape}, Affine{S.coef}, {crs_spec(S.epsg)!r}), {crs_txt}, "
            + ", ".join(f"{k}={v!r}" for k, v in kw.items()) + ")")
    r = R()
    if api in ("cog", "cog-explicit"):
        g = compute_output_geobox(S.gbox, crs_arg, **kw)
    elif api == "to_crs":
        g = S.gbox.to_crs(crs_arg, **kw)
    elif api == "crs-object":
        from odc.geo.crs import CRS  # pylint: disable=import-outside-toplevel

        g = compute_output_geobox(S.gbox, CRS(crs_arg) if want_epsg is not None else crs_arg, **kw)
    elif api == "crs-int":
        g = compute_output_geobox(S.gbox, want_epsg if want_epsg is not None else crs_arg, **kw)
    else:
        raise ValueError(api)
    judge(r, S, loc, dst_enc, req, aenc, tight, tol, g, what)
    mode = "shape" if req[0] == "shape" else (req[1] if isinstance(req[1], str) else "explicit")
    kk = f"{S.kind}->{dst_enc}:{S.orient}:{S.extent}:{mode}"
    if dst_enc in UTM_ARGS and isinstance(g, GeoBox) and g.crs is not None and g.crs.epsg is not None:
        # a keyword names a CRS: the grid must be the one computed for that CRS given by its EPSG code
        code = f"epsg:{g.crs.epsg}"
        g2 = S.gbox.to_crs(code, **kw) if api == "to_crs" else compute_output_geobox(S.gbox, code, **kw)
        if not same_grid(g, g2):
            r.fail(f"utm:keyword-differs-from-epsg:{kk}",
                   f"{what} -> {g!r}, but with {code!r} in place of {crs_arg!r} -> {g2!r}")
    if api == "to_crs" and want_epsg is not None:
        # the method is the function: identical options, identical grid
        g2 = compute_output_geobox(S.gbox, crs_arg, **kw)
        if not same_grid(g, g2):
            r.fail(f"entry-points-differ:to_crs:{kk}:tol={tol!r}",
                   f"{what} -> {g!r}, but compute_output_geobox with the same arguments -> {g2!r}")
    return r


def same_grid(g1, g2):
    if g1 is g2:
        return True
    return (isinstance(g1, GeoBox) and isinstance(g2, GeoBox) and g1.crs == g2.crs and tuple(g1.shape) == tuple(g2.shape)
            and tuple(g1.affine)[:6] == tuple(g2.affine)[:6])


# ---------------------------------------------------------------------------------------------
# xarray accessor: the raster is what xarray hands back as .odc.geobox
# ---------------------------------------------------------------------------------------------
def run_xr(case):
    orient, kind, loc, extent, sshape, dst_enc, req, aenc, tight, tol = case
    from odc.geo.xr import xr_zeros  # pylint: disable=import-outside-toplevel

    S0 = make_src(kind, loc, extent, sshape, orient)
    xx = xr_zeros(S0.gbox, dtype="uint8")
    gb = xx.odc.geobox
    r = R()
    if not isinstance(gb, GeoBox) or gb.crs is None or gb.crs.epsg != S0.epsg or tuple(gb.shape) != tuple(sshape):
        # geo-registration round trip is C09's subject; nothing to judge here
        r.outcome, r.nontrivial = "xr:no-geobox", False
        return r
    S = Src()
    S.key, S.epsg, S.kind, S.orient, S.extent, S.shape, S.p = S0.key, S0.epsg, kind, orient, extent, sshape, S0.p
    S.coef = tuple(float(v) for v in tuple(gb.affine)[:6])
    S.gbox = gb
    S._memo = {}
    crs_arg, want_epsg, _ = dst_arg_of(dst_enc, S, loc)
    aarg, _, _ = anchor_arg(aenc)
    kw = dict(tight=tight, tol=tol, anchor=aarg)
    if req[0] == "shape":
        kw["shape"] = req[1]
    elif isinstance(req[1], str):
        kw["resolution"] = req[1]
    else:
        kw["resolution"] = res_value(req[1], S, unit_class(want_epsg))[0]
    what = (f"xr_zeros(GeoBox({sshape}, Affine{S0.coef}, 'epsg:{S.epsg}')).odc.output_geobox({crs_arg!r}, "
            + ", ".join(f"{k}={v!r}" for k, v in kw.items()) + ")")
    g = xx.odc.output_geobox(crs_arg, **kw)
    judge(r, S, loc, dst_enc, req, aenc, tight, tol, g, what)
    gf = compute_output_geobox(gb, crs_arg, **kw)
    if not same_answer(g, gb, gf, gb):
        r.fail(f"entry-points-differ:xr:{S.kind}->{dst_enc}:{S.orient}:{S.extent}:tol={tol!r}",
               f"{what} -> {g!r}, but compute_output_geobox with the same arguments -> {gf!r}")
    r.outcome = "xr:" + r.outcome
    return r


# ---------------------------------------------------------------------------------------------
# spaces
# ---------------------------------------------------------------------------------------------
LOC5 = ("eu", "au", "eq", "no", "sa")
ORIENT = ("nu", "rot")
EXT2 = ("tile", "regional")
DST4 = ("deg", "merc", "ea", "utmz")
RES3 = (("res", "auto"), ("res", "fit"), ("res", "same"))
ANCHOR3 = ("default", "center", 0.25)
TIGHT = (False, True)
TOL2 = (0.01, 0.1)
EXPL_Q = (("res", ("s", 1.0)), ("res", ("s", 2.5)), ("res", ("s", 1 / 3)), ("res", ("xy", 1.0, -2.0)),
          ("res", ("xy", -1.0, 1.0)))
EXPL_T = EXPL_Q + (("res", ("s", 10.0)), ("res", ("xy", 0.7, 0.7)), ("res", ("xy", -3.0, -1.0)))
SHAPE_REQ_Q = (("shape", (32, 32)), ("shape", 50), ("shape", (7, 40)))
SHAPE_REQ_T = SHAPE_REQ_Q + (("shape", (1, 1)), ("shape", 1), ("shape", 333), ("shape", (100, 3)))
ANCHOR_T = ANCHOR3 + (("xy", 0.1, 0.7), 0.9, "floating")
TOL_T = (0.0, 0.01, 0.1)

# continental families: (location, source kinds, targets)
CONT = (
    ("EU", ("deg", "merc", "ea"), ("deg", "merc", "ea", "cea")),
    ("AU", ("deg", "merc", "ea"), ("deg", "merc", "ea", "cea")),
    ("SA", ("deg", "merc", "ea"), ("deg", "merc", "ea")),
)


def gen_grid(tier):
    t = tier == "thorough"
    shapes = ((48, 64),) + (((32, 32), (64, 64), (7, 5)) if t else ())
    return itertools.product(("cog",), ORIENT, SRC_KINDS, LOC5, EXT2, shapes, DST4, RES3,
                             ANCHOR_T if t else ANCHOR3, TIGHT, TOL_T if t else TOL2)


def gen_explicit(tier):
    t = tier == "thorough"
    shapes = ((32, 32),)
    return itertools.product(("cog",), ORIENT, SRC_KINDS, LOC5, EXT2, shapes, DST4, EXPL_T if t else EXPL_Q,
                             ANCHOR_T if t else ("default", 0.25), TIGHT, TOL_T if t else (0.01,))


def gen_shape(tier):
    t = tier == "thorough"
    shapes = ((32, 32), (5, 7)) + (((48, 64),) if t else ())
    return itertools.product(("cog",), ORIENT, SRC_KINDS, LOC5, EXT2, shapes, DST4, SHAPE_REQ_T if t else SHAPE_REQ_Q,
                             ANCHOR_T if t else ("default", 0.25), TIGHT, TOL2 if t else (0.01,))


def gen_small(tier):
    t = tier == "thorough"
    shapes = ((1, 1), (1, 64)) + (((3, 2), (64, 1), (2, 2)) if t else ())
    reqs = RES3 + (("shape", (32, 32)), ("shape", 50)) + ((("res", ("s", 1.0)),) if t else ())
    return itertools.product(("cog",), ORIENT, SRC_KINDS, LOC5, EXT2, shapes, DST4, reqs,
                             ("default", "center") if t else ("default",), TIGHT, (0.01,))


UTM_OPTS = (
    (("res", "auto"), "default", False, 0.01),
    (("res", "fit"), "default", True, 0.01),
    (("res", "same"), "center", False, 0.1),
    (("shape", 50), "default", False, 0.01),
)
UTM_OPTS_T = UTM_OPTS + (
    (("res", "auto"), 0.25, False, 0.01),
    (("res", "fit"), "default", False, 0.0),
    (("shape", (32, 32)), "center", False, 0.01),
    (("shape", (32, 32)), "default", True, 0.01),
)


def gen_utm(tier):
    t = tier == "thorough"
    opts = UTM_OPTS_T if t else UTM_OPTS
    shapes = ((32, 32),) + (((48, 64),) if t else ())
    for orient, kind, loc, extent, shp, dst, (req, aenc, tight, tol) in itertools.product(
            ORIENT, SRC_KINDS, LOC5, EXT2, shapes, UTM_ARGS, opts):
        yield ("cog", orient, kind, loc, extent, shp, dst, req, aenc, tight, tol)
    # rasters much wider than a zone: only the zone clauses can be judged
    for (loc, kinds, _), orient, dst in itertools.product(CONT, ORIENT, UTM_ARGS):
        for kind in kinds:
            yield ("cog", orient, kind, loc, "continental", (48, 64), dst, ("res", "auto"), "default", False, 0.01)


def gen_cont(tier):
    t = tier == "thorough"
    shapes = ((48, 64), (64, 64)) + (((64, 40),) if t else ())
    reqs = RES3 + (("res", ("s", 1.0)),) + ((("res", ("s", 1 / 3)),) if t else ())
    for loc, kinds, dsts in CONT:
        yield from itertools.product(("cog",), ORIENT, kinds, (loc,), ("continental",), shapes, dsts, reqs,
                                     ANCHOR3 if t else ("default", "center"), TIGHT, TOL_T if t else TOL2)
        if t:
            yield from itertools.product(("cog",), ORIENT, kinds, (loc,), ("continental",), shapes, dsts,
                                         (("shape", (32, 32)), ("shape", 50)), ANCHOR3, TIGHT, TOL2)


def gen_large(tier):
    """rasters too large for the all-pixels oracle: outer boundary only (3 points per pixel side)"""
    t = tier == "thorough"
    shapes = ((256, 256), (600, 1000)) + (((2000, 1500),) if t else ())
    reqs = (("res", "auto"), ("res", "fit")) + ((("res", "same"), ("res", ("s", 1.0))) if t else ())
    yield from itertools.product(("cog",), ORIENT, SRC_KINDS, ("eu", "au", "sa") + (("eq", "no") if t else ()),
                                 ("regional",), shapes, DST4, reqs, ("default",), TIGHT, TOL2)
    for loc, kinds, dsts in CONT:
        yield from itertools.product(("cog",), ORIENT, kinds, (loc,), ("continental",), ((768, 1024),) + shapes[1:],
                                     dsts, reqs, ("default",), TIGHT, TOL2)


def gen_mirrored(tier):
    t = tier == "thorough"
    reqs = RES3 + (("res", ("s", 1.0)), ("shape", (32, 32)), ("shape", 50))
    return itertools.product(("cog",), ("mx", "su", "r180"), SRC_KINDS, LOC5 if t else ("eu", "au"), EXT2, ((32, 32),),
                             DST4, reqs, ANCHOR3 if t else ("default",), TIGHT, (0.01,))


def gen_geographic(tier):
    """degree -> degree between different geographic CRSs (same units, another CRS)"""
    t = tier == "thorough"
    reqs = RES3 + ((("res", ("s", 2.5)), ("shape", 50)) if t else ())
    return itertools.product(("cog",), ORIENT, ("deg", "deg2"), ("eu", "au", "no", "sa"), EXT2, ((48, 64),),
                             ("deg", "deg2"), reqs, ANCHOR3 if t else ("default", "center"), TIGHT, (0.01,))


# ---------------------------------------------------------------------------------------------
# request histories: the answer to a 'utm*' request must not depend on earlier requests
# ---------------------------------------------------------------------------------------------
# boundaries between UTM zones (a meridian, crossed at the given latitude) and between the hemispheres (the equator,
# crossed at the given longitude)
HIST_B = (("lon", 6.0, 45.2), ("lon", 12.0, 45.2), ("lon", -72.0, -33.3), ("lon", 150.0, -35.3),
          ("lat0", 21.0), ("lat0", -69.0),
          ("lon", 18.0, 60.2), ("lon", 0.0, 51.2), ("lon", -66.0, 10.3), ("lat0", 15.0), ("lat0", 102.0))
# (distance of the raster's near edge from the boundary, raster size) in degrees
HIST_DW_Q = ((0.05, 0.1), (0.1, 0.25), (0.45, 0.1))
HIST_DW_T = HIST_DW_Q + ((0.3, 0.15), (0.05, 0.4), (0.25, 0.5))
HIST_ORDER = ("-+", "+-", "++")
HIST_HOW = (("cog", "deg"), ("to_crs", "deg"), ("CRS.utm", "deg"), ("cog", "merc"))
HIST_KEEP = ("_make_crs", "_make_crs_transform")  # CRS construction / transformer caches: not the utm path


def clear_caches(mods=("crs",)):
    """Empty every memoising wrapper (functools / cachetools: ``cache_clear`` or ``.cache``) and every cachetools.Cache
    object found at module level (and on classes defined there) in the named odc.geo modules, except the CRS-construction
    and transformer caches.  On a tree without such a cache: a no-op."""
    import importlib  # pylint: disable=import-outside-toplevel

    import cachetools  # pylint: disable=import-outside-toplevel

    n = 0
    for mn in mods:
        M = importlib.import_module(f"odc.geo.{mn}")
        spaces = [vars(M)] + [vars(c) for c in vars(M).values() if isinstance(c, type) and c.__module__ == M.__name__]
        for ns in spaces:
            for name, obj in list(ns.items()):
                if name in HIST_KEEP or name.startswith("__"):
                    continue
                if isinstance(obj, cachetools.Cache):
                    obj.clear()
                    n += 1
                    continue
                f = getattr(obj, "__func__", obj)
                cc = getattr(f, "cache_clear", None)
                if callable(cc):
                    cc()
                    n += 1
                    continue
                c = getattr(f, "cache", None)
                if c is not None and callable(f) and not isinstance(f, type):
                    c = c() if callable(c) else c
                    if hasattr(c, "clear"):
                        c.clear()
                        n += 1
    return n


def clear_utm_caches():
    return clear_caches(("crs",))


LAZY_MODS = ("crs", "geom", "geobox", "overlap", "math", "gcp", "types")


def hist_src(kind, bd, d, w, side, relation):
    """small raster whose lon/lat box lies wholly on one side of the boundary"""
    if bd[0] == "lon":
        _, B, lat = bd
        lo0, lo1 = (B + d, B + d + w) if side > 0 else (B - d - w, B - d)
        la0, la1 = lat - w / 2, lat + w / 2
    else:
        _, lon = bd
        la0, la1 = (d, d + w) if side > 0 else (-d - w, -d)
        lo0, lo1 = lon - w / 2, lon + w / 2
    n = 16
    S = Src()
    S.kind, S.orient, S.extent, S.shape = kind, "nu", f"history:{relation}", (n, n)
    if kind == "deg":
        S.epsg, S.p = 4326, w / n
        A = Affine(S.p, 0.0, lo0, 0.0, -S.p, la1)
    else:  # tile-sized (10 km) metre raster centred in that box
        S.epsg = kind_epsg(kind, "eu")
        S.p = EXTENT["tile"][1] / n
        cx, cy = fresh(4326, S.epsg).transform((lo0 + lo1) / 2, (la0 + la1) / 2)
        cx, cy = float(round(cx)), float(round(cy))
        A = Affine(S.p, 0.0, cx - n * S.p / 2, 0.0, -S.p, cy + n * S.p / 2)
    S.coef = tuple(float(v) for v in tuple(A)[:6])
    S.key = ("hist", kind, bd, d, w, side)
    S.gbox = GeoBox(S.shape, Affine(*S.coef), crs_spec(S.epsg))
    S._memo = {}
    ll = facts(S, 4326)["lonlat"]
    if bd[0] == "lon":
        one_side = (ll[0] > bd[1]) if side > 0 else (ll[2] < bd[1])
    else:
        one_side = (ll[1] > 0) if side > 0 else (ll[3] < 0)
    if not one_side:
        raise ValueError(f"alphabet error: raster {ll} straddles the boundary {bd}")
    return S, ll


def hist_request(api, S, arg):
    """-> (result, comparable answer)"""
    if api == "cog":
        g = compute_output_geobox(S.gbox, arg)
    elif api == "to_crs":
        g = S.gbox.to_crs(arg)
    else:
        from odc.geo.crs import CRS, norm_crs  # pylint: disable=import-outside-toplevel

        c = CRS.utm(S.gbox.extent) if arg == "utm" else norm_crs(arg, ctx=S.gbox.extent)
        return c, ("crs", c.epsg)
    return g, ("geobox", g.crs.epsg if g.crs is not None else None, tuple(g.shape), tuple(g.affine)[:6])


def gen_hist(tier):
    t = tier == "thorough"
    nb = len(HIST_B) if t else 6
    for bi in range(nb):
        eq = HIST_B[bi][0] == "lat0"
        if t:
            args = tuple(itertools.product(UTM_ARGS, UTM_ARGS))
        elif eq:
            args = (("utm", "utm"), ("utm-n", "utm"), ("utm", "utm-s"))
        else:
            args = (("utm", "utm"), ("utm-n", "utm-s"))
        yield from itertools.product(HIST_HOW, (bi,), HIST_DW_T if t else HIST_DW_Q, HIST_ORDER, args)


def run_hist(case):
    (api, kind), bi, (d, w), order, (arg1, arg2) = case
    bd = HIST_B[bi]
    s1, s2 = {"-+": (-1, 1), "+-": (1, -1), "++": (1, 1)}[order]
    relation = "same-place" if s1 == s2 else ("other-side-of-equator" if bd[0] == "lat0" else "other-side-of-zone-boundary")
    S1, ll1 = hist_src(kind, bd, d, w, s1, relation)
    S2, ll2 = hist_src(kind, bd, d, w, s2, relation)
    r = R()

    def txt(S, arg):
        src = f"GeoBox({S.shape}, Affine{S.coef}, {crs_spec(S.epsg)!r})"
        return {"cog": f"compute_output_geobox({src}, {arg!r})", "to_crs": f"{src}.to_crs({arg!r})",
                "CRS.utm": f"CRS.utm / norm_crs({arg!r}, ctx={src}.extent)"}[api]

    # reference: the second request issued FIRST, in a state without any utm history
    clear_utm_caches()
    _, ref = hist_request(api, S2, arg2)
    # the history: first request, then the second one
    clear_utm_caches()
    g1, _ = hist_request(api, S1, arg1)
    g2, got = hist_request(api, S2, arg2)
    labs = []
    for S, ll, arg, g, pos in ((S1, ll1, arg1, g1, "first"), (S2, ll2, arg2, g2, "second")):
        what = f"[{pos} of: {txt(S1, arg1)} ; then {txt(S2, arg2)}] {txt(S, arg)}"
        if api == "CRS.utm":
            kk = f"{kind}->{arg}:CRS.utm:history:{relation}:{pos}"
            if g.epsg is None:
                r.fail(f"utm:not-a-utm-zone:{kk}", f"{what}: {g} has no EPSG code")
                labs.append("?")
            else:
                labs.append(str(clause_utm(r, kk, arg, g.epsg, lambda ll=ll: ll, what)))
        else:
            r1 = R()
            judge(r1, S, "eu", arg, ("res", "auto"), "default", False, 0.01, g, what)
            r.fails.extend(r1.fails)
            labs.append(r1.outcome.split(":")[0])
    if got != ref:
        r.fail(f"utm:history-dependent:{kind}->{arg2}:{api}:after-{arg1}:{relation}",
               f"{txt(S2, arg2)} (raster lon {ll2[0]:.4g}..{ll2[2]:.4g}, lat {ll2[1]:.4g}..{ll2[3]:.4g}) gives {ref} when it "
               f"is the first utm request, but {got} after {txt(S1, arg1)} (raster lon {ll1[0]:.4g}..{ll1[2]:.4g}, "
               f"lat {ll1[1]:.4g}..{ll1[3]:.4g}) in the same process")
    agree = tuple(round(v) for v in ll1) == tuple(round(v) for v in ll2)
    r.outcome = f"history:{relation}:{api}:{arg1},{arg2}:{'/'.join(labs)}:{'boxes-agree-to-1deg' if agree else 'boxes-differ'}"
    r.nontrivial = True
    return r


# ---------------------------------------------------------------------------------------------
# large metre-based rasters across a zone's central meridian -> utm keywords
# ---------------------------------------------------------------------------------------------
def gen_utm_large(tier):
    t = tier == "thorough"
    kinds = ("merc", "ea", "cea", "utmn")
    opts = ((("res", "auto"), "default", False, 0.01), (("res", "fit"), "default", True, 0.01))
    if t:
        opts += ((("res", "same"), "center", False, 0.0), (("shape", 50), "default", False, 0.01))
    for orient, kind, loc, dst, (req, aenc, tight, tol) in itertools.product(
            ORIENT, kinds, LOC5 if t else ("eu", "au", "sa"), UTM_ARGS, opts):
        yield ("cog", orient, kind, loc, "regional", (600, 1000), dst, req, aenc, tight, tol)
    # 20 km at 10 m pixels; the method entry point
    for api, orient, kind, loc, dst in itertools.product(("to_crs",) + (("cog",) if t else ()), ORIENT, kinds,
                                                        ("eu", "au", "sa") if t else ("eu",), UTM_ARGS if t else ("utm",)):
        yield (api, orient, kind, loc, "district", (2000, 2000), dst, ("res", "auto"), "default", False, 0.01)


# ---------------------------------------------------------------------------------------------
# tol on every entry point, source origin slid over one (coarse) output pixel
# ---------------------------------------------------------------------------------------------
TOL5 = (0.0, 1e-3, 0.01, 0.05, 0.3)
# (source kind, location, source pixel, source shape, target kind, output pixel / source pixel)
SWEEP = (
    ("utmz", "eu", 10.0, (48, 64), "ea", 500.0),  # EPSG:32633, 10 m -> EPSG:3035 at 5000 m
    ("merc", "au", 10.0, (64, 48), "utmz", 300.0),  # EPSG:3857, 10 m -> EPSG:32755 at 3000 m
    ("ea", "sa", 30.0, (40, 40), "merc", 200.0),  # EPSG:6933, 30 m -> EPSG:3857 at 6000 m
)


def gen_sweep(tier):
    t = tier == "thorough"
    # slide by k source pixels: quick every 2nd position over one output pixel, thorough every position (+20)
    yield from itertools.product(("cog", "to_crs"), (0,), ("x", "y"), range(0, 500, 2), TOL5)
    yield from itertools.product(("xr",), (0,), ("x", "y"), range(0, 500, 10), TOL5)
    if t:
        yield from itertools.product(("cog", "to_crs"), (0,), ("x", "y"), range(1, 521, 2), TOL5)
        yield from itertools.product(("cog", "to_crs", "xr"), (1,), ("x", "y"), range(0, 310), TOL5)
        yield from itertools.product(("cog", "to_crs", "xr"), (2,), ("x", "y"), range(0, 210), TOL5)


def run_sweep(case):
    api, si, axis, k, tol = case
    kind, loc, p, shape, dkind, factor = SWEEP[si]
    lon, lat, _, _ = LOCS[loc]
    epsg = kind_epsg(kind, loc)
    ny, nx = shape
    cx, cy = fresh(4326, epsg).transform(lon, lat)
    out_px = p * factor
    x0 = math.floor(cx / out_px) * out_px + (k * p if axis == "x" else 0.37 * out_px)
    y1 = math.floor(cy / out_px) * out_px + (k * p if axis == "y" else 0.61 * out_px)
    coef = (p, 0.0, float(x0), 0.0, -p, float(y1))
    gbox = GeoBox(shape, Affine(*coef), crs_spec(epsg))
    r = R()
    src_txt = f"GeoBox({shape}, Affine{coef}, {crs_spec(epsg)!r})"
    if api == "xr":
        from odc.geo.xr import xr_zeros  # pylint: disable=import-outside-toplevel

        xx = xr_zeros(gbox, dtype="uint8")
        gbox = xx.odc.geobox
        if not isinstance(gbox, GeoBox) or gbox.crs is None or gbox.crs.epsg != epsg or tuple(gbox.shape) != shape:
            r.outcome, r.nontrivial = "sweep:xr:no-geobox", False  # registration round trip is C09's subject
            return r
        coef = tuple(float(v) for v in tuple(gbox.affine)[:6])
        src_txt = f"xr_zeros({src_txt})"
    S = Src()
    S.key, S.epsg, S.kind, S.orient, S.shape, S.p = ("sweep",) + tuple(case), epsg, kind, "nu", shape, p
    S.extent = f"sweep:{api}:tol={tol!r}"
    S.coef, S.gbox, S._memo = coef, gbox, {}
    crs_arg, want, _ = dst_arg_of(dkind, S, loc)
    req = ("res", ("s", factor))
    res = res_value(req[1], S, unit_class(want))[0]
    kw = dict(resolution=res, tol=tol)
    call = {"cog": f"compute_output_geobox({src_txt}, {crs_arg!r}, ", "to_crs": f"{src_txt}.to_crs({crs_arg!r}, ",
            "xr": f"{src_txt}.odc.output_geobox({crs_arg!r}, "}[api]
    what = call + ", ".join(f"{k_}={v!r}" for k_, v in kw.items()) + ")"
    gf = compute_output_geobox(gbox, crs_arg, **kw)
    if api == "cog":
        g = gf
    elif api == "to_crs":
        g = gbox.to_crs(crs_arg, **kw)
    else:
        g = xx.odc.output_geobox(crs_arg, **kw)
    judge(r, S, loc, dkind, req, "default", False, tol, g, what)
    lab = r.outcome
    if api != "cog" and not same_grid(g, gf):
        r.fail(f"entry-points-differ:{api}:{kind}->{dkind}:sweep:tol={tol!r}",
               f"{what} -> {g!r}, but compute_output_geobox with the same arguments -> {gf!r}")
        lab += ":DIFFERS"
    r.outcome = f"sweep:{api}:tol={tol!r}:{tuple(g.shape) if isinstance(g, GeoBox) else '?'}:" + lab.split(":")[-2]
    return r


# ---------------------------------------------------------------------------------------------
# generic request helper for the slices below
# ---------------------------------------------------------------------------------------------
def make_kw(S, loc, dst_enc, req, aenc, tight, tol):
    """-> (crs argument, expected CRS id or None, keyword arguments in their plain spelling)"""
    crs_arg, want, _ = dst_arg_of(dst_enc, S, loc)
    kw = {}
    if aenc != "default":
        kw["anchor"] = anchor_arg(aenc)[0]
    if tight:
        kw["tight"] = True
    if tol != 0.01:
        kw["tol"] = tol
    if req[0] == "shape":
        kw["shape"] = req[1]
    elif isinstance(req[1], str):
        if req[1] != "auto":
            kw["resolution"] = req[1]
    else:
        kw["resolution"] = res_value(req[1], S, unit_class(want))[0]
    return crs_arg, want, kw


def call_txt(api, S, crs_arg, kw, src_txt=None):
    src = src_txt or f"GeoBox({S.shape}, Affine{S.coef}, {crs_spec(S.epsg) if len(str(S.epsg)) < 90 else '<stale-id WKT>'!r})"
    c = repr(crs_arg) if isinstance(crs_arg, (str, int)) and len(str(crs_arg)) < 90 else f"<{type(crs_arg).__name__}>"
    a = ", ".join(f"{k}={v!r}" for k, v in kw.items())
    return {"cog": f"compute_output_geobox({src}, {c}, {a})", "to_crs": f"{src}.to_crs({c}, {a})",
            "xr": f"xr_zeros({src}).odc.output_geobox({c}, {a})"}[api]


def call_api(api, gbox, crs_arg, kw):
    if api == "cog":
        return compute_output_geobox(gbox, crs_arg, **kw)
    if api == "to_crs":
        return gbox.to_crs(crs_arg, **kw)
    raise ValueError(api)


def same_answer(g1, src1, g0, src0):
    """identical grids; 'the source itself came back' on one side must be 'the source itself came back' on the other"""
    if (g1 is src1) != (g0 is src0):
        return False
    return same_grid(g1, g0) if g1 is not src1 else True


# ---------------------------------------------------------------------------------------------
# unusual rasters: tiny / huge / non-square pixels, portrait and very long thin rasters, origin phases
# ---------------------------------------------------------------------------------------------
# name -> ((rx, ry) in degrees, (rx, ry) in metres, shape)
ODD = {
    "tiny": ((4.5e-6, 4.5e-6), (0.5, 0.5), (48, 64)),
    "huge": ((1.0, 1.0), (1.0e5, 1.0e5), (6, 8)),
    "wide-px": ((3e-4, 1e-4), (30.0, 10.0), (64, 48)),
    "tall-px": ((1e-4, 3e-4), (10.0, 30.0), (48, 64)),
    "thin-row": ((1e-4, 1e-4), (10.0, 10.0), (2, 20000)),
    "thin-col": ((1e-4, 1e-4), (10.0, 10.0), (20000, 2)),
    "portrait": ((1e-4, 1e-4), (10.0, 10.0), (200, 3)),
}
# origin = a whole number of CRS units + phase: exactly whole, a millimetre (1e-3 unit) either side, half a pixel, odd fraction
PHASES = ("whole", "+1e-3", "-1e-3", "half", "frac")


def odd_src(odd, kind, loc, orient, phase):
    epsg = kind_epsg(kind, loc)
    lon, lat = LOCS[loc][:2]
    geographic = unit_class(epsg) == "degree"
    (rx, ry), shape = ODD[odd][0 if geographic else 1], ODD[odd][2]
    ny, nx = shape
    cx, cy = (lon, lat) if geographic else fresh(4326, epsg).transform(lon, lat)
    dx, dy = {"whole": (0.0, 0.0), "+1e-3": (1e-3, -1e-3), "-1e-3": (-1e-3, 1e-3), "half": (rx / 2, ry / 2),
              "frac": (0.37 * rx, 0.61 * ry)}[phase]
    x0, y1 = float(round(cx)) + dx, float(round(cy)) + dy
    if orient == "nu":
        A = Affine(rx, 0.0, x0, 0.0, -ry, y1)
    elif orient == "mx":
        A = Affine(-rx, 0.0, x0 + nx * rx, 0.0, -ry, y1)
    elif orient == "su":
        A = Affine(rx, 0.0, x0, 0.0, ry, y1 - ny * ry)
    elif orient == "r180":
        A = Affine(-rx, 0.0, x0 + nx * rx, 0.0, ry, y1 - ny * ry)
    elif orient == "r005":  # a rotation too small to see on one pixel: 17 pixels at the far end of 20000
        A = Affine.translation(x0, y1) * Affine.rotation(0.05) * Affine.scale(rx, -ry)
    else:
        A = Affine.translation(x0, y1) * Affine.rotation(ROT) * Affine.scale(rx, -ry)
    S = Src()
    S.key, S.epsg, S.kind, S.orient, S.extent, S.shape, S.p = (odd, kind, loc, orient, phase), epsg, kind, orient, odd, shape, rx
    S.coef = tuple(float(v) for v in tuple(A)[:6])
    B = BUF * max(rx, ry)  # the buffer is a distance: 0.9 of the LARGER pixel side
    S.buf = (B / rx, B / ry)
    S._memo = _ODD_MEMO.setdefault(S.key, {})
    if len(_ODD_MEMO) > 32:
        _ODD_MEMO.clear()
    S.gbox = GeoBox(shape, Affine(*S.coef), crs_spec(epsg))
    return S


_ODD_MEMO = {}


def gen_odd(tier):
    t = tier == "thorough"
    reqs = (("res", "auto"), ("res", "fit"), ("shape", 50))
    yield from itertools.product(tuple(ODD), ("nu", "rot"), SRC_KINDS, ("eu",) + (("au",) if t else ()), ("whole",), DST4,
                                 reqs + ((("res", "same"), ("shape", (7, 40))) if t else ()), ("default",), TIGHT if t else (False,),
                                 (0.01,))
    yield from itertools.product(("thin-row", "thin-col") + (("tiny", "portrait") if t else ()), ("r005",), SRC_KINDS, ("eu",), ("whole",),
                                 DST4, (("res", "auto"), ("res", "fit")) + ((("res", "same"), ("shape", 50)) if t else ()),
                                 ("default",), (False,) + ((True,) if t else ()), (0.01,))
    yield from itertools.product(("tiny", "wide-px") + (("tall-px", "portrait", "huge") if t else ()),
                                 ("nu", "mx", "su", "r180") + (("rot",) if t else ()), ("deg", "utmz") + (("merc",) if t else ()),
                                 ("eu",), PHASES, DST4, (("res", "auto"), ("res", "same"), ("res", ("s", 1.0))),
                                 ("default", "center"), (False,), (0.01,) + ((0.0,) if t else ()))


def run_odd(case):
    odd, orient, kind, loc, phase, dst_enc, req, aenc, tight, tol = case
    S = odd_src(odd, kind, loc, orient, phase)
    crs_arg, _, kw = make_kw(S, loc, dst_enc, req, aenc, tight, tol)
    r = R()
    g = compute_output_geobox(S.gbox, crs_arg, **kw)
    judge(r, S, loc, dst_enc, req, aenc, tight, tol, g, call_txt("cog", S, crs_arg, kw))
    r.outcome = f"{odd}:{phase}:" + r.outcome
    return r


# ---------------------------------------------------------------------------------------------
# rasters touching the limits of a CRS's area of use
# ---------------------------------------------------------------------------------------------
# name -> (lon0, lat0, lon1, lat1, shape, targets)
LIMITS = {
    "zone-east-edge": (17.0, 45.0, 18.0, 46.0, (32, 32), (32633, "utm", 3857, 3035)),
    "zone-west-edge": (12.0, 45.0, 13.0, 46.0, (32, 32), (32633, "utm", 3857, 3035)),
    "zone-full-width": (12.0, 40.0, 18.0, 44.0, (32, 48), (32633, "utm", "utm-n", 3857)),
    "lat-84": (13.0, 83.0, 17.0, 84.0, (16, 64), (32633, "utm", 3857, 3035)),
    "equator-from-north": (14.0, 0.0, 16.0, 2.0, (32, 32), (32633, "utm", "utm-n", "utm-s", 6933)),
    "equator-from-south": (14.0, -2.0, 16.0, 0.0, (32, 32), (32733, "utm", "utm-n", "utm-s", 6933)),
    "lat-minus-80": (14.0, -80.0, 16.0, -79.0, (16, 32), (32733, "utm", 3857)),
    "antimeridian-from-west": (174.0, 10.0, 180.0, 16.0, (32, 32), (32660, "utm", 3857, 6933)),
    "antimeridian-from-east": (-180.0, 10.0, -174.0, 16.0, (32, 32), (32601, "utm", 3857, 6933)),
    "mercator-north-limit": (10.0, 80.0, 20.0, 85.06, (32, 64), (3857, 3035)),
    "ease-north-limit": (10.0, 80.0, 20.0, 86.0, (32, 48), (6933, 3857)),
    "north-pole": (10.0, 80.0, 20.0, 90.0, (32, 32), (3857, 6933, 3035, 4326)),
    "south-pole": (-70.0, -90.0, -60.0, -80.0, (32, 32), (3857, 6933, 4326)),
    "whole-globe": (-180.0, -90.0, 180.0, 90.0, (32, 64), (3857, 6933, 4326)),
}
LIM_OPTS = ((("res", "auto"), "default", False), (("res", "fit"), "default", True), (("shape", 50), "default", False),
            (("res", "auto"), "center", False))


def gen_limits(tier):
    t = tier == "thorough"
    for name, (_, _, _, _, _, dsts) in LIMITS.items():
        yield from itertools.product((name,), ("nu", "su") if t else ("nu",), dsts, LIM_OPTS)


def run_limits(case):
    name, orient, dst_enc, (req, aenc, tight) = case
    lo0, la0, lo1, la1, shape, _ = LIMITS[name]
    ny, nx = shape
    rx, ry = (lo1 - lo0) / nx, (la1 - la0) / ny
    A = Affine(rx, 0.0, lo0, 0.0, -ry, la1) if orient == "nu" else Affine(rx, 0.0, lo0, 0.0, ry, la0)
    S = Src()
    S.key, S.epsg, S.kind, S.orient, S.extent, S.shape, S.p = ("limit", name, orient), 4326, "deg", orient, f"limit:{name}", shape, rx
    S.coef = tuple(float(v) for v in tuple(A)[:6])
    B = BUF * max(rx, ry)
    S.buf = (B / rx, B / ry)
    S._memo = {}
    S.gbox = GeoBox(shape, Affine(*S.coef), "epsg:4326")
    crs_arg, want, kw = make_kw(S, "eu", dst_enc, req, aenc, tight, 0.01)
    r = R()
    inside = None if want is None else facts(S, want)["inside"]
    what = call_txt("cog", S, crs_arg, kw)
    try:
        g = compute_output_geobox(S.gbox, crs_arg, **kw)
    except Exception as e:  # pylint: disable=broad-except
        if inside is False:
            # part of the raster lies outside the target's area of use: the property makes no claim, recorded only
            r.outcome, r.nontrivial = f"limit:{name}:outside-area:raised:{type(e).__name__}", False
            return r
        raise
    judge(r, S, "eu", dst_enc, req, aenc, tight, 0.01, g, what)
    r.outcome = f"limit:{name}:" + r.outcome
    return r


# ---------------------------------------------------------------------------------------------
# grids far from the CRS origin: explicit output resolution x pixel index of the edges x phase of every edge
# ---------------------------------------------------------------------------------------------
# (source kind, location, source pixel in CRS units, the other-CRS target kind).  |coordinate| / output pixel (the index
# of the grid line an edge is snapped to) runs from ~2e4 (10 m pixels, output 25 x coarser) to ~1.5e8 (0.1 m Mercator)
FAR = (
    ("utmz", "au", 0.5, "ea"),  # EPSG:32755, E 6.8e5 N 6.1e6: sub-metre aerial imagery, southern-hemisphere northing
    ("utmz", "au", 10.0, "ea"),  # ... Sentinel-2 style pixels at the same place
    ("utmz", "no", 1.0, "ea"),  # EPSG:32633, N 7.5e6 (68N)
    ("utmz", "s9", 0.25, "merc"),  # EPSG:32733, N 9.1e6 (8S: just below the 1e7 false northing)
    ("ea", "eu", 2.0, "utmz"),  # EPSG:3035, false origin 4.3e6 / 3.2e6
    ("ea", "au", 5.0, "utmz"),  # EPSG:3577, y = -3.9e6 (negative coordinates)
    ("laea*", "eu", 1.0, "ea"),  # PROJ string (no EPSG code), false origin 1e6 / 1e6
    ("merc", "au", 0.5, "utmz"),  # EPSG:3857, x = 1.6e7, y = -4.2e6
    ("merc", "sa", 0.1, "utmz"),  # EPSG:3857, x = -7.7e6, y = -3.9e6 (both negative), 0.1 m pixels
    ("deg", "au", 1e-5, "deg2"),  # EPSG:4326, lon 147 lat -35, ~1 m pixels
    ("deg", "sa", 4.5e-6, "deg2"),  # EPSG:4326, lon -69 lat -33 (both negative), ~0.5 m pixels
)
FAR_SHAPE_Q = ((24, 32),)
FAR_SHAPE_T = FAR_SHAPE_Q + ((1, 1),)
# output pixel / source pixel: finer, equal, coarser; whole and fractional ratios
FAR_RATIO_Q = (0.5, 1.0, 1.5, 2.5, 4.0, 6.0, 10.0, 25.0)
FAR_RATIO_T = FAR_RATIO_Q + (1 / 3, 0.8, 2.0, 3.0, 5.0, 7.5, 16.0, 60.0)
# where the chosen edge of the buffered footprint (what is handed to the snapping) lies, as a fraction of an OUTPUT
# pixel past a line of the requested (anchored) output grid: on the line, a little inside / outside each tol of the
# alphabet, and every eighth of a pixel
FAR_PHASE_Q = (0.0, 0.004, -0.004, 0.02, -0.02, 0.06, -0.06, 0.15, -0.15, 0.25, 0.375, 0.5, 0.625, 0.75, 0.875, 0.125)
FAR_PHASE_T = FAR_PHASE_Q + tuple(k / 32 for k in range(1, 32, 2)) + (
    1e-6, -1e-6, 1e-3, -1e-3, 0.009, -0.009, 0.011, -0.011, 0.09, -0.09, 0.11, -0.11, 0.3, -0.3, 0.45, -0.45)
FAR_EDGE = ("lo", "hi")  # the phase is given to the low (west / south) or to the high (east / north) edges


def far_ratio_class(ratio):
    return "finer" if ratio < 1 else "equal" if ratio == 1 else "coarser<4" if ratio < 4 else "coarser>=4"


def far_src(fi, shape, ratio, edge, phase, axy):
    """north-up raster of family FAR[fi] whose buffered footprint has its low (or high) x and y edges ``phase`` output
    pixels past a line of the output grid {(k + a) * R}; R = ratio * source pixel.  -> (Src, R)"""
    kind, loc, s, _ = FAR[fi]
    epsg = kind_epsg(kind, loc)
    lon, lat = LOCS[loc][:2]
    if unit_class(epsg) == "degree":
        X0, Y0 = lon, lat
    else:
        X0, Y0 = fresh(4326, epsg).transform(lon, lat)
        X0, Y0 = float(round(X0)), float(round(Y0))
    ny, nx = shape
    Rp = ratio * s
    B = BUF * s
    ax, ay = axy
    ex = (math.floor(X0 / Rp) + ax + phase) * Rp  # the chosen edges of the buffered footprint
    ey = (math.floor(Y0 / Rp) + ay + phase) * Rp
    if edge == "lo":
        x0, y1 = ex + B, ey + B + ny * s
    else:
        x0, y1 = ex - B - nx * s, ey - B
    S = Src()
    S.key, S.epsg, S.kind, S.orient, S.shape, S.p = ("far", fi, shape, ratio, edge, phase, axy), epsg, kind, "nu", shape, s
    S.extent = f"far-origin:{loc}:px={s!r}:{far_ratio_class(ratio)}"
    S.coef = (s, 0.0, float(x0), 0.0, -s, float(y1))
    S.gbox = GeoBox(shape, Affine(*S.coef), crs_spec(epsg))
    S._memo = {}
    return S, Rp


def gen_far(tier):
    t = tier == "thorough"
    fam = range(len(FAR))
    ratios = FAR_RATIO_T if t else FAR_RATIO_Q
    # snapped grids: own CRS and another CRS x ratio x which edge x phase x anchor x tol
    yield from itertools.product(("cog",), fam, ("own",), FAR_SHAPE_Q, ratios, FAR_EDGE,
                                 FAR_PHASE_T if t else FAR_PHASE_Q, ANCHOR3 if t else ("default", 0.25), (False,),
                                 TOL_T if t else TOL2)
    if t:
        yield from itertools.product(("cog",), fam, ("own",), FAR_SHAPE_T[1:], ratios, FAR_EDGE, FAR_PHASE_Q, ANCHOR3, (False,), TOL_T)
    yield from itertools.product(("cog",), fam, ("other",), FAR_SHAPE_Q, ratios, FAR_EDGE, FAR_PHASE_Q, ("default", 0.25),
                                 (False,), TOL2)
    # snapping off (tight / floating anchor): the origin stays, the pixel count is rounded
    yield from itertools.product(("cog",), fam, ("own", "other"), FAR_SHAPE_Q, ratios, ("lo",),
                                 FAR_PHASE_Q if t else (0.0, 0.004, -0.02, 0.5), ("default",), (True,), TOL_T if t else TOL2)
    if t:
        yield from itertools.product(("cog",), fam, ("own", "other"), FAR_SHAPE_Q, ratios, ("lo",), FAR_PHASE_Q, ("floating",),
                                     (False,), TOL_T)
        yield from itertools.product(("to_crs",), fam, ("own", "other"), FAR_SHAPE_Q, FAR_RATIO_Q, FAR_EDGE, FAR_PHASE_Q,
                                     ("default",), (False,), (0.01,))


def run_far(case):
    api, fi, which, shape, ratio, edge, phase, aenc, tight, tol = case
    kind, loc, s, other = FAR[fi]
    axy = anchor_arg(aenc)[1]
    S, Rp = far_src(fi, shape, ratio, edge, phase, (0.0, 0.0) if (tight or axy is None) else axy)
    dst_enc = kind if which == "own" else other
    req = ("res", ("abs", Rp))
    crs_arg, want, kw = make_kw(S, loc, dst_enc, req, aenc, tight, tol)
    r = R()
    g = call_api(api, S.gbox, crs_arg, kw)
    judge(r, S, loc, dst_enc, req, aenc, tight, tol, g, call_txt(api, S, crs_arg, kw))
    # label: decade of the largest grid-line index of the result, ratio class, then the judged clauses
    if isinstance(g, GeoBox) and g.affine.a != 0 and g.affine.e != 0:
        idx = max(abs(g.affine.c / g.affine.a), abs(g.affine.f / g.affine.e), 1.0)
        dec = f"1e{int(math.floor(math.log10(idx)))}"
    else:
        dec = "?"
    r.outcome = f"far:{which}:index~{dec}:{far_ratio_class(ratio)}:" + ":".join(r.outcome.split(":")[-4:])
    return r


# ---------------------------------------------------------------------------------------------
# the same request in other spellings, on every entry point
# ---------------------------------------------------------------------------------------------
SPELL_SRC = (("utmz", "eu", "tile", (48, 64), "nu"), ("deg", "au", "tile", (48, 64), "rot"), ("merc", "sa", "regional", (32, 32), "nu"))
SPELL_API = ("cog", "to_crs", "xr")
# variant name -> judge encoding (req, anchor, tight, tol) of the request it spells
SPELL = {
    # target CRS
    "crs:int": (("res", "auto"), "default", False, 0.01), "crs:EPSG-upper": (("res", "auto"), "default", False, 0.01),
    "crs:Epsg-mixed": (("res", "auto"), "default", False, 0.01), "crs:pyproj": (("res", "auto"), "default", False, 0.01),
    "crs:odc-CRS": (("res", "auto"), "default", False, 0.01), "crs:wkt2": (("res", "auto"), "default", False, 0.01),
    "crs:projjson-text": (("res", "auto"), "default", False, 0.01), "crs:projjson-dict": (("res", "auto"), "default", False, 0.01),
    "crs:wkt2+fit": (("res", "fit"), "center", False, 0.01), "crs:pyproj+shape": (("shape", 50), "default", True, 0.01),
    # source CRS
    "src:int": (("res", "auto"), "default", False, 0.01), "src:pyproj": (("res", "auto"), "default", False, 0.01),
    "src:odc-CRS": (("res", "auto"), "default", False, 0.01), "src:wkt2": (("res", "auto"), "default", False, 0.01),
    "src:projjson-dict": (("res", "auto"), "default", False, 0.01), "src:wkt2+same": (("res", "same"), "center", False, 0.01),
    # explicit resolution
    "res:int": (("res", ("s", 2.0)), "default", False, 0.01), "res:np.float64": (("res", ("s", 2.0)), "default", False, 0.01),
    "res:Resolution": (("res", ("s", 2.0)), "default", False, 0.01), "res:resxy": (("res", ("s", 2.0)), "default", False, 0.01),
    "res:negative-int": (("res", ("s", -2.0)), "default", False, 0.01), "res:negative-np.float64": (("res", ("s", -2.0)), "center", False, 0.01),
    # shape
    "shape:list": (("shape", (10, 20)), "default", False, 0.01), "shape:Shape2d": (("shape", (10, 20)), "default", False, 0.01),
    "shape:wh_": (("shape", (10, 20)), "center", False, 0.01), "shape:np-ints": (("shape", (10, 20)), "default", True, 0.01),
    "shape:float": (("shape", 50), "default", False, 0.01), "shape:np.float64": (("shape", 50), "default", True, 0.01),
    # anchor
    "anchor:0": (("res", "auto"), "edge", False, 0.01), "anchor:0.0": (("res", "auto"), "edge", False, 0.01),
    "anchor:EDGE": (("res", "auto"), "edge", False, 0.01), "anchor:xy00": (("res", "fit"), "edge", False, 0.01),
    "anchor:np0": (("shape", (10, 20)), "edge", False, 0.01),
    "anchor:centre": (("res", "auto"), "center", False, 0.01), "anchor:0.5": (("res", "auto"), "center", False, 0.01),
    "anchor:CENTER": (("res", "fit"), "center", False, 0.01), "anchor:xy55": (("shape", 50), "center", False, 0.01),
    "anchor:np.25": (("res", "auto"), 0.25, False, 0.01), "anchor:xy.25": (("res", "auto"), 0.25, False, 0.01),
    "anchor:FLOATING": (("res", "auto"), "floating", False, 0.01), "anchor:FLOATING+shape": (("shape", 50), "floating", False, 0.01),
    # tol
    "tol:int0": (("res", ("s", 2.0)), "default", False, 0.0), "tol:np0": (("res", "auto"), "default", False, 0.0),
    "tol:np.05": (("res", ("s", 2.0)), "center", False, 0.05),
    # round_resolution
    "round:False": (("res", "fit"), "default", False, 0.01), "round:None": (("res", "fit"), "default", False, 0.01),
    "round:True": (("res", "fit"), "default", False, 0.01), "round:callable": (("res", "fit"), "default", False, 0.01),
}


def _spell_crs(form, cid):
    from odc.geo.crs import CRS  # pylint: disable=import-outside-toplevel

    pc = _new_pcrs(cid)
    return {"int": lambda: cid, "EPSG-upper": lambda: f"EPSG:{cid}", "Epsg-mixed": lambda: f"Epsg:{cid}", "pyproj": lambda: pc,
            "odc-CRS": lambda: CRS(f"epsg:{cid}"), "wkt2": pc.to_wkt, "wkt2+fit": pc.to_wkt, "wkt2+same": pc.to_wkt,
            "pyproj+shape": lambda: pc, "projjson-text": pc.to_json, "projjson-dict": pc.to_json_dict}[form]()


def gen_stale(tier):
    """WKT2 texts whose definition was edited while the trailing ID["EPSG",n] stayed: as target and as source CRS, against
    the EPSG CRS the stale id names, against themselves (own CRS) and others; the result follows the DEFINITION"""
    t = tier == "thorough"
    yield from itertools.product(("cog", "to_crs"), ORIENT, ("stale:ea", "stale:utmz", "ea", "utmz", "deg"), ("eu",) + (("au",) if t else ()),
                                 ("tile",), ((48, 64),), ("stale:ea", "stale:utmz", "ea", "utmz"),
                                 RES3 + ((("shape", 50), ("res", ("s", 1.0))) if t else ()), ("default",) + (("center",) if t else ()),
                                 (False,), (0.01,))


def gen_spell(tier):
    t = tier == "thorough"
    yield from itertools.product(SPELL_API, range(len(SPELL_SRC)) if t else (0, 1), DST4, tuple(SPELL))


def run_spell(case):
    from odc.geo.types import AnchorEnum, res_, shape_, wh_  # pylint: disable=import-outside-toplevel

    api, si, dst_enc, var = case
    kind, loc, extent, sshape, orient = SPELL_SRC[si]
    S = make_src(kind, loc, extent, sshape, orient)
    req, aenc, tight, tol = SPELL[var]
    crs_arg, want, kw0 = make_kw(S, loc, dst_enc, req, aenc, tight, tol)
    kw = dict(kw0)
    dim, _, form = var.partition(":")
    src_crs = crs_spec(S.epsg)
    rnd = None
    if dim == "crs":
        crs_arg = _spell_crs(form, want)
    elif dim == "src":
        src_crs = _spell_crs(form, S.epsg)
    elif dim == "res":
        v = kw0["resolution"]
        if "int" in form and abs(v) < 1:  # degrees: no whole-number pixel size of this magnitude; keep the float
            form = "float"
        kw["resolution"] = {"int": lambda: int(v), "negative-int": lambda: int(v), "float": lambda: float(v),
                            "np.float64": lambda: np.float64(v), "negative-np.float64": lambda: np.float64(v),
                            "Resolution": lambda: res_(v), "resxy": lambda: resxy_(v, -v)}[form]()
        if "int" in form and int(v) != v:
            raise ValueError(f"alphabet error: {v} is not a whole number")
    elif dim == "shape":
        v = kw0["shape"]
        kw["shape"] = {"list": lambda: list(v), "Shape2d": lambda: shape_(v), "wh_": lambda: wh_(v[1], v[0]),
                       "np-ints": lambda: (np.int64(v[0]), np.int32(v[1])), "float": lambda: float(v),
                       "np.float64": lambda: np.float64(v)}[form]()
    elif dim == "anchor":
        if True:
            kw["anchor"] = {"FLOATING+shape": AnchorEnum.FLOATING, "0": 0, "0.0": 0.0, "EDGE": AnchorEnum.EDGE, "xy00": xy_(0, 0), "np0": np.float64(0.0), "centre": "centre",
                            "0.5": 0.5, "CENTER": AnchorEnum.CENTER, "xy55": xy_(0.5, 0.5), "np.25": np.float64(0.25),
                            "xy.25": xy_(0.25, 0.25), "FLOATING": AnchorEnum.FLOATING}[form]
    elif dim == "tol":
        kw["tol"] = {"int0": 0, "np0": np.float64(0.0), "np.05": np.float32(0.05).astype("float64") * 0 + np.float64(0.05)}[form]
    elif dim == "round":
        rnd = form
        if form in ("False", "None", "True"):
            kw["round_resolution"] = {"False": False, "None": None, "True": True}[form]
        else:
            kw["round_resolution"] = _round_to_7
    r = R()
    # the plain spelling through the function, on a fresh object
    g0 = compute_output_geobox(S.gbox, dst_arg_of(dst_enc, S, loc)[0], **kw0)
    if rnd in ("True", "callable") and g0 is not S.gbox:
        fit = g0.resolution.x
        want_px = float(round(fit, 0)) if rnd == "True" else _round_to_7(fit, "")
        if want_px <= 0:
            r.outcome, r.nontrivial = f"spell:{api}:{var}:rounds-to-0", False  # degrees: a zero pixel size, nothing to demand
            return r
    src1 = GeoBox(S.shape, Affine(*S.coef), src_crs)
    src_txt = None if dim != "src" else f"GeoBox({S.shape}, Affine{S.coef}, <{var}>)"
    what = call_txt(api, S, crs_arg, kw, src_txt)
    if api == "xr":
        from odc.geo.xr import xr_zeros  # pylint: disable=import-outside-toplevel

        xx = xr_zeros(src1, dtype="uint8")
        src1 = xx.odc.geobox
        if not isinstance(src1, GeoBox) or tuple(src1.shape) != tuple(S.shape) or tuple(src1.affine)[:6] != S.coef:
            r.outcome, r.nontrivial = "spell:xr:registration-differs", False  # C09's subject
            return r
        g1 = xx.odc.output_geobox(crs_arg, **kw)
    else:
        g1 = call_api(api, src1, crs_arg, kw)
    kk = f"{api}:{var}:{S.kind}->{dst_enc}"
    if rnd in (None, "False", "None"):
        S1 = fresh_instance(S)
        S1.gbox = src1
        judge(r, S1, loc, dst_enc, req, aenc, tight, tol, g1, what)
        if not same_answer(g1, src1, g0, S.gbox):
            r.fail(f"spelling-changes-answer:{kk}",
                   f"{what} -> {g1!r}{' (the source itself)' if g1 is src1 else ''}, but the plain spelling "
                   f"{call_txt('cog', S, dst_arg_of(dst_enc, S, loc)[0], kw0)} -> {g0!r}{' (the source itself)' if g0 is S.gbox else ''}")
        r.outcome = f"spell:{api}:{var}:" + r.outcome.split(":")[0]
        return r
    # rounded fit: square, Y inverted, pixel = the rounding of the unrounded fit; and it still encloses etc.
    r.nontrivial = True
    if g0 is S.gbox or g1 is src1:
        r.outcome = f"spell:{api}:{var}:own"
        return r
    if True:
        if not (g1.resolution.x == want_px and g1.resolution.y == -want_px):
            r.fail(f"round-resolution:{kk}", f"{what}: pixel size {g1.resolution}; unrounded fit {fit!r} rounds to {want_px!r}")
        else:
            S1 = fresh_instance(S)
            S1.gbox = src1
            jreq = ("res", ("abs", want_px))
            judge(r, S1, loc, dst_enc, jreq, aenc, tight, tol, g1, what)
        r.outcome = f"spell:{api}:{var}:rounded"
    return r


def _round_to_7(res, units):
    """round_resolution callback: nearest multiple of 7 (the units argument must be a string)"""
    if not isinstance(units, str):
        raise TypeError(f"units={units!r}")
    return 7.0 * round(res / 7.0)


# ---------------------------------------------------------------------------------------------
# lazily filled state: read / use the source GeoBox first, then ask; differential against a fresh object
# ---------------------------------------------------------------------------------------------
LAZY_SRC = (("utmz", "eu", "tile", (48, 64), "nu"), ("deg", "au", "regional", (32, 32), "rot"), ("merc", "sa", "tile", (32, 32), "mx"))
PREOPS = ("extent", "boundingbox", "footprint-dst", "footprint-dst-buffered", "footprint-other", "footprint-utm",
          "geographic_extent", "crs-epsg-str-hash", "center_pixel", "resolution-alignment", "to_crs-dst", "to_crs-other",
          "to_crs-dst-other-options", "three-targets", "xarray", "views", "unpickled", "crs-helpers")


def apply_preop(op, gb, crs_arg, other, kw):
    import pickle  # pylint: disable=import-outside-toplevel

    from odc.geo.crs import CRS  # pylint: disable=import-outside-toplevel

    if op == "extent":
        _ = gb.extent.boundingbox
    elif op == "boundingbox":
        _ = gb.boundingbox, gb.boundingbox.polygon
    elif op == "footprint-dst":
        _ = gb.footprint(crs_arg)
    elif op == "footprint-dst-buffered":
        _ = gb.footprint(crs_arg, buffer=5, npoints=7)
    elif op == "footprint-other":
        _ = gb.footprint(other, buffer=0.9, npoints=100)
    elif op == "footprint-utm":
        _ = gb.footprint("utm", buffer=2)
    elif op == "geographic_extent":
        _ = gb.geographic_extent
    elif op == "crs-epsg-str-hash":
        _ = gb.crs.epsg, str(gb.crs), hash(gb.crs), hash(gb), gb.crs.units, gb.crs.to_wkt()
    elif op == "center_pixel":
        _ = gb.center_pixel.extent
    elif op == "resolution-alignment":
        _ = gb.resolution, gb.alignment, gb.aspect, gb.affine, gb.transform
    elif op == "to_crs-dst":
        _ = gb.to_crs(crs_arg)
    elif op == "to_crs-other":
        _ = gb.to_crs(other)
    elif op == "to_crs-dst-other-options":
        # the request itself with ONE option changed at a time (and a couple changed together)
        for extra in (dict(tol=0.3), dict(tol=0.0), dict(anchor="center"), dict(tight=True), dict(shape=(7, 9)),
                      dict(resolution="fit"), dict(round_resolution=True, resolution="fit"),
                      dict(shape=(7, 9), anchor="center", tol=0.3)):
            try:
                _ = compute_output_geobox(gb, crs_arg, **{**kw, **extra})
                _ = gb.to_crs(crs_arg, **{**kw, **extra})
            except AssertionError:
                pass  # rounding a degree-sized pixel to a whole number gives 0
    elif op == "three-targets":
        for c in ("epsg:4326", "epsg:3857", "epsg:6933"):
            _ = compute_output_geobox(gb, c)
    elif op == "xarray":
        from odc.geo.xr import xr_zeros  # pylint: disable=import-outside-toplevel

        xx = xr_zeros(gb, dtype="uint8")
        _ = xx.odc.geobox, xx.odc.output_geobox(other)
    elif op == "views":
        _ = gb[1:, 1:].extent, gb.pad(2).footprint(crs_arg), gb.zoom_out(2).boundingbox, gb.flipy().extent
    elif op == "unpickled":
        _ = gb.extent
        gb = pickle.loads(pickle.dumps(gb))
    elif op == "crs-helpers":
        _ = CRS.utm(0.5, 0.5), CRS.utm(-100.0)
        _ = gb.crs.transformer_to_crs(CRS(other))(np.array([np.nan, 0.0]), np.array([0.0, np.inf]))
        _ = gb.crs.valid_region
    else:
        raise ValueError(op)
    return gb


def gen_lazy(tier):
    t = tier == "thorough"
    reqs = (("res", "auto"), ("res", "fit"), ("shape", 50))
    srcs = range(len(LAZY_SRC)) if t else (0, 1)
    yield from itertools.product(PREOPS, srcs, DST4, reqs + ((("res", "same"), ("res", ("s", 1.0))) if t else ()),
                                 ("cog",) + (("to_crs",) if t else ()))
    yield from itertools.product(PREOPS, srcs, ("utm",) + (("utm-s",) if t else ()), (("res", "auto"),), ("cog",))


def run_lazy(case):
    op, si, dst_enc, req, api = case
    kind, loc, extent, sshape, orient = LAZY_SRC[si]
    S = make_src(kind, loc, extent, sshape, orient)
    crs_arg, want, kw = make_kw(S, loc, dst_enc, req, "default", False, 0.01)
    other = "epsg:3857" if want != 3857 else "epsg:6933"
    r = R()
    clear_caches(LAZY_MODS)
    gb = apply_preop(op, S.gbox, crs_arg, other, kw)
    S.gbox = gb
    what = f"[after {op}] " + call_txt(api, S, crs_arg, kw)
    g1 = call_api(api, gb, crs_arg, kw)
    judge(r, S, loc, dst_enc, req, "default", False, 0.01, g1, what)
    # reference: a new object, after emptying whatever memoising caches the modules involved hold (none on /repo)
    clear_caches(LAZY_MODS)
    S0 = fresh_instance(S)
    g0 = call_api(api, S0.gbox, crs_arg, kw)
    if not same_answer(g1, gb, g0, S0.gbox):
        r.fail(f"history-dependent:after-{op}:{S.kind}->{dst_enc}:{S.orient}",
               f"{what} -> {g1!r}{' (the source itself)' if g1 is gb else ''}, but the same request on a new GeoBox object "
               f"-> {g0!r}{' (the source itself)' if g0 is S0.gbox else ''}")
    r.outcome = f"lazy:{op}:" + r.outcome.split(":")[0]
    return r


NOEPSG_KINDS = ("sinu*", "laea*", "tmerc*", "aea*", "ea")  # four PROJ strings without an EPSG code + EPSG:3035


def gen_noepsg(tier):
    """CRSs without an EPSG code on either or both sides: all ordered pairs (incl. the source's own CRS), and the
    source's own CRS requested through another spelling (WKT2 text, pyproj.CRS object)"""
    t = tier == "thorough"
    reqs = RES3 + (("res", ("s", 1.0)), ("shape", (32, 32)), ("shape", 50)) + ((("res", ("xy", -1.0, 1.0)),) if t else ())
    locs = ("eu", "no") if t else ("eu",)
    anchors = ANCHOR3 if t else ("default", "center")
    tols = TOL2 if t else (0.01,)
    shapes = ((48, 64),) + (((5, 7),) if t else ())
    yield from itertools.product(("cog",), ORIENT, NOEPSG_KINDS, locs, EXT2, shapes, NOEPSG_KINDS, reqs, anchors,
                                 TIGHT, tols)
    for kind, form in itertools.product(NOEPSG_KINDS, ("wkt", "pyproj")):
        yield from itertools.product(("cog",), ORIENT, (kind,), locs, EXT2, shapes, (f"{kind}@{form}",), reqs, anchors,
                                     TIGHT, tols)
    # the other entry point
    yield from itertools.product(("to_crs",), ORIENT, NOEPSG_KINDS, ("eu",), ("tile",), ((48, 64),), NOEPSG_KINDS,
                                 (("res", "auto"), ("res", "same")), ("default",), (False,), (0.01,))


def gen_api(tier):
    t = tier == "thorough"
    reqs = (("res", "auto"), ("res", "fit"), ("res", ("s", 2.5)), ("shape", (32, 32)), ("shape", 50))
    opts = (("default", False, 0.01), ("center", False, 0.1), ("default", True, 0.01), ("default", False, 0.0))
    for api, orient, kind, loc, dst, req, (aenc, tight, tol) in itertools.product(
            ("to_crs", "cog-explicit", "crs-object", "crs-int"), ORIENT, SRC_KINDS, LOC5 if t else ("eu",),
            DST4, reqs, opts):
        yield (api, orient, kind, loc, "tile", (32, 32), dst, req, aenc, tight, tol)


def gen_xr(tier):
    t = tier == "thorough"
    reqs = (("res", "auto"), ("res", "fit"), ("res", ("s", 2.5)), ("shape", (32, 32)), ("shape", 50))
    opts = (("default", False, 0.01), ("center", False, 0.1), ("default", True, 0.01), ("default", False, 0.0))
    for orient, kind, loc, dst, req, (aenc, tight, tol) in itertools.product(
            ORIENT, SRC_KINDS, LOC5 if t else ("au",), DST4, reqs, opts):
        yield (orient, kind, loc, "tile", (32, 32), dst, req, aenc, tight, tol)


# ---------------------------------------------------------------------------------------------
# option pairs: a shape request given TOGETHER with a resolution request (and the other options), every entry point
# ---------------------------------------------------------------------------------------------
# shape request: (form, ...) - "t" a (ny, nx) tuple, "S" a Shape2d object, "l" a list, "n" an int N, "f" a float N
PAIR_SHAPE_Q = (("t", 7, 40), ("S", 32, 32), ("n", 50))
PAIR_SHAPE_T = PAIR_SHAPE_Q + (("l", 1, 1), ("n", 1), ("f", 333), ("t", 100, 3))
# resolution request given next to it: a keyword (spelled out, "auto" too), a number / Resolution object (the EXPL
# encodings: multiples of the nominal pixel in the target's units), or a keyword with round_resolution=
PAIR_RES_Q = ("auto", "fit", "same", ("s", 2.5), ("xy", 1.0, -2.0), ("xy", -1.0, 1.0), ("rnd", "fit", "True"))
PAIR_RES_T = PAIR_RES_Q + (("s", 1.0), ("s", 1 / 3), ("s", 10.0), ("s", -2.0), ("xy", 0.7, 0.7), ("rnd", "auto", "callable"),
                           ("rnd", "same", "True"))
PAIR_API = ("cog", "to_crs", "xr", "reproject")


def pair_res_class(res):
    if isinstance(res, str):
        return f"keyword-{res}"
    return {"s": "number", "xy": "Resolution", "rnd": "keyword+round_resolution"}[res[0]]


def gen_pairs(tier):
    t = tier == "thorough"
    shapes = PAIR_SHAPE_T if t else PAIR_SHAPE_Q
    ress = PAIR_RES_T if t else PAIR_RES_Q
    yield from itertools.product(PAIR_API, ORIENT, SRC_KINDS if t else ("deg", "utmz"), ("eu",), ("tile",), ((32, 32),), DST4,
                                 shapes, ress, (ANCHOR3 + ("floating",)) if t else ("default", "center"), TIGHT, (0.01,))
    # 'utm' keyword targets (resolving the keyword costs ~0.1 s a call): the function and the method only
    yield from itertools.product(("cog", "to_crs") if t else ("cog",), ORIENT if t else ("nu",), ("deg", "utmz"), ("eu",), ("tile",),
                                 ((32, 32),), UTM_ARGS if t else ("utm",), PAIR_SHAPE_Q,
                                 ("same", ("s", 2.5), ("xy", 1.0, -2.0)), ("default",), TIGHT if t else (False,), (0.01,))
    if t:
        # other places / extents, the tol argument given as well
        yield from itertools.product(("cog",), ORIENT, SRC_KINDS, ("au", "sa"), ("regional",), ((32, 32), (5, 7)), DST4,
                                     PAIR_SHAPE_Q, PAIR_RES_Q, ("default", 0.25), TIGHT, TOL2)


def _approx_grid(g1, g2):
    """same shape, CRS and - to 1e-6 of a pixel at the origin and at the far corner - the same affine (a grid read back
    from the coordinates of an xarray object; the round trip itself is C09's subject)"""
    if not (isinstance(g1, GeoBox) and isinstance(g2, GeoBox) and g1.crs == g2.crs and tuple(g1.shape) == tuple(g2.shape)):
        return False
    A1, A2 = g1.affine, g2.affine
    ny, nx = g2.shape
    px, py = abs(A2.a), abs(A2.e)
    return (A1.b == A2.b and A1.d == A2.d
            and abs(A1.c - A2.c) <= 1e-6 * px and abs(A1.f - A2.f) <= 1e-6 * py
            and abs(A1.a - A2.a) * nx <= 1e-6 * px and abs(A1.e - A2.e) * ny <= 1e-6 * py)


def run_pairs(case):
    from odc.geo.types import shape_  # pylint: disable=import-outside-toplevel

    api, orient, kind, loc, extent, sshape, dst_enc, shp, res, aenc, tight, tol = case
    S = make_src(kind, loc, extent, sshape, orient)
    r = R()
    xx = None
    if api in ("xr", "reproject"):
        from odc.geo.xr import xr_zeros  # pylint: disable=import-outside-toplevel

        xx = xr_zeros(S.gbox, dtype="uint8")
        gb = xx.odc.geobox
        if not isinstance(gb, GeoBox) or gb.crs is None or gb.crs.epsg != S.epsg or tuple(gb.shape) != tuple(sshape):
            r.outcome, r.nontrivial = f"pairs:{api}:no-geobox", False  # registration round trip is C09's subject
            return r
        S0, S = S, Src()
        S.key, S.epsg, S.kind, S.orient, S.extent, S.shape, S.p = S0.key, S0.epsg, kind, orient, extent, sshape, S0.p
        S.coef = tuple(float(v) for v in tuple(gb.affine)[:6])
        S.gbox, S._memo = gb, {}
    crs_arg, want, _ = dst_arg_of(dst_enc, S, loc)
    dst_u = "metre" if want is None else unit_class(want)  # the utm keywords name metre-based CRSs
    form = shp[0]
    plain = int(shp[1]) if form in "nf" else (shp[1], shp[2])
    shape_val = {"t": lambda: plain, "S": lambda: shape_(plain), "l": lambda: list(plain), "n": lambda: plain,
                 "f": lambda: float(plain)}[form]()
    # the request without any resolution argument ...
    kw_ref = {"shape": shape_val}
    if aenc != "default":
        kw_ref["anchor"] = anchor_arg(aenc)[0]
    if tight:
        kw_ref["tight"] = True
    if tol != 0.01:
        kw_ref["tol"] = tol
    # ... and with one
    kw = dict(kw_ref)
    if isinstance(res, str):
        kw["resolution"] = res
    elif res[0] == "rnd":
        kw["resolution"] = res[1]
        kw["round_resolution"] = True if res[2] == "True" else _round_to_7
    else:
        kw["resolution"] = res_value(res, S, dst_u)[0]
    rc = pair_res_class(res)
    pc = f"shape-{'int' if form in 'nf' else 'tuple'}({form})+resolution-{rc}"
    src_txt = None if xx is None else f"xr_zeros(GeoBox({sshape}, Affine{S.coef}, {crs_spec(S.epsg)!r}))"
    a_txt = ", ".join(f"{k}={v!r}" for k, v in kw.items())
    if api == "reproject":
        what = f"{src_txt}.odc.reproject({crs_arg!r}, {a_txt}).odc.geobox"
    elif api == "xr":
        what = f"{src_txt}.odc.output_geobox({crs_arg!r}, {a_txt})"
    else:
        what = call_txt(api, S, crs_arg, kw)

    gf = compute_output_geobox(S.gbox, crs_arg, **kw)
    kd = f"{S.kind}->{dst_enc}:{S.orient}:{pc}"
    if api == "cog":
        g = gf
    elif api == "to_crs":
        g = S.gbox.to_crs(crs_arg, **kw)
    elif api == "xr":
        g = xx.odc.output_geobox(crs_arg, **kw)
    else:
        out = xx.odc.reproject(crs_arg, **kw)
        g = gf  # every clause is judged on the grid the function computes for the same arguments; the raster's own ...
        got_shape = tuple(int(v) for v in out.shape[-2:])
        if not isinstance(gf, GeoBox) or got_shape != tuple(gf.shape):
            # ... pixel count must be that grid's
            r.fail(f"entry-points-differ:reproject:shape:{kd}",
                   f"{what}: raster of {got_shape} pixels, but compute_output_geobox with the same arguments -> {gf!r}")
        elif not _approx_grid(out.odc.geobox, gf):
            r.fail(f"entry-points-differ:reproject:{kd}",
                   f"{what} -> {out.odc.geobox!r}, but compute_output_geobox with the same arguments -> {gf!r}")
    if api in ("to_crs", "xr") and not same_grid(g, gf):
        r.fail(f"entry-points-differ:{api}:{kd}", f"{what} -> {g!r}, but compute_output_geobox with the same arguments -> {gf!r}")

    # the property's shape clauses: exactly that shape / longest side, pixel size from the footprint, displaced < 1 px,
    # requested alignment - whatever resolution= says
    r1 = R()
    judge(r1, S, loc, dst_enc, ("shape", plain), aenc, tight, tol, g, what)
    for f in r1.fails:
        r.fail(f"{f.key}:{pc}:{api}", f.msg)
    # documented: resolution= is ignored when shape= is supplied -> the grid of the same request without it
    g0 = compute_output_geobox(fresh_instance(S).gbox if xx is None else S.gbox, crs_arg, **kw_ref)
    if not same_grid(gf, g0):
        r.fail(f"shape:resolution-not-ignored:{kd}",
               f"{call_txt('cog', S, crs_arg, kw, src_txt and src_txt + '.odc.geobox')} -> {gf!r}, but without the resolution argument(s) -> {g0!r}")
    lab = r1.outcome.split(":")
    r.nontrivial = r1.nontrivial
    r.outcome = f"pairs:{api}:{pc}:" + ":".join(lab[:-3] if len(lab) > 4 else lab)
    return r


def slices(tier):
    for k_, s_ in NOEPSG.items():
        if _new_pcrs(s_).to_epsg() is not None:
            raise RuntimeError(f"alphabet error: {k_} is matched to EPSG:{_new_pcrs(s_).to_epsg()} by this PROJ database")
    def S(name, gen, run, note):
        return e1.Slice(name, (lambda g=gen: g(tier)), run, note)

    return [
        S("grid", gen_grid, run_case,
          "orientation x source CRS kind x 5 locations x {tile, regional} x source shape x 4 explicit targets (incl. "
          "the source's own) x {auto, fit, same} x anchor x tight x tol"),
        S("explicit-res", gen_explicit, run_case,
          "same sources/targets x explicit resolutions (number; Resolution objects incl. anisotropic and positive-Y / "
          "negative-X) x anchor x tight"),
        S("shape-request", gen_shape, run_case,
          "same sources/targets x shape=(ny,nx) | shape=N x anchor x tight"),
        S("small-rasters", gen_small, run_case, "1x1, single-row and 3x2 sources x targets x every request kind"),
        S("utm-strings", gen_utm, run_case,
          "'utm' / 'utm-n' / 'utm-s' from every source kind/location/orientation/extent (incl. continental) x 4 option sets"),
        S("continental", gen_cont, run_case,
          "40 deg / 3000 km sources (Europe, Australia, South America) x {geographic, Mercator, equal-area} targets x "
          "request x anchor x tight x tol; enclosure judged only inside the areas of use of both CRSs"),
        S("large-rasters", gen_large, run_case,
          "256x256 ... 1000x600 sources, regional and continental; oracle on the outer boundary only"),
        S("mirrored-sources", gen_mirrored, run_case,
          "axis-aligned sources with columns running east-west (mx), rows south-north (su) or both (r180) x targets x "
          "every request kind x tight"),
        S("geographic-pairs", gen_geographic, run_case,
          "EPSG:4326 <-> ETRS89 / GDA94 / SIRGAS 2000 (both degree based, different CRS) x request x anchor x tight"),
        S("no-epsg", gen_noepsg, run_case,
          "MODIS sinusoidal, custom LAEA / transverse Mercator / Albers PROJ strings (no EPSG code) and EPSG:3035 in all "
          "ordered pairs incl. own CRS, own CRS also as WKT2 text / pyproj.CRS object x request x anchor x tight"),
        S("utm-history", gen_hist, run_hist,
          "ordered pairs of 'utm*' requests in one process: small rasters on either side of a UTM zone boundary / of the "
          "equator (both orders) and a same-place repeat, via compute_output_geobox / to_crs / CRS.utm; each answer "
          "judged by the utm clauses and compared with the same request issued first"),
        S("utm-large", gen_utm_large, run_case,
          "1000x600 (400 km) and 2000x2000 (20 km, 10 m) metre-based rasters (Mercator, equal-area, the neighbouring UTM "
          "zone) across a zone's central meridian -> 'utm' / 'utm-n' / 'utm-s'; containment over the outer boundary and "
          "keyword result == result for the EPSG code it resolves to"),
        S("tol-sweep", gen_sweep, run_sweep,
          "tol in {0, 1e-3, 0.01, 0.05, 0.3} x {function, GeoBox.to_crs, xarray accessor} x source origin slid pixel by pixel "
          "over one output pixel (output pixel 200-500 x source pixel), each axis separately; containment with the stated "
          "tol and method/accessor == function"),
        S("odd-rasters", gen_odd, run_odd,
          "tiny (4.5e-6 deg / 0.5 m) and huge (1 deg / 100 km) pixels, non-square pixels, 2x20000 / 20000x2 / 200x3 rasters, in "
          "every orientation; origin a whole number of CRS units, 1e-3 either side, half a pixel, an odd fraction"),
        S("area-limits", gen_limits, run_limits,
          "lon/lat rasters touching a UTM zone edge, the equator, 84N / 80S, the antimeridian, the Mercator / EASE latitude "
          "limits, the poles, the whole globe; outside the target's area of use nothing is demanded"),
        S("far-origin", gen_far, run_far,
          "explicit output resolution (0.5 ... 25 x the source pixel, whole and fractional ratios) x 11 source families whose "
          "edges sit 2e4 ... 1.5e8 output pixels from the CRS origin (0.1 - 10 m pixels at UTM northings 6.1e6 / 7.5e6 / 9.1e6, "
          "LAEA / Albers false origins and negative coordinates, Mercator at +-1e7, 1e-5 / 4.5e-6 degree grids at lon 147 / -69) "
          "x own CRS | another CRS x low | high edges of the buffered footprint placed at 16 phases of an output pixel "
          "relative to the requested grid (on a line, just inside / outside every tol, every eighth) x anchor x tol; tight too"),
        S("spellings", gen_spell, run_spell,
          "one request in every accepted spelling of crs / source crs / resolution / shape / anchor / tol / round_resolution "
          "on the function, the method and the xarray accessor: same answer as the plain spelling through the function"),
        S("stale-id-wkt", gen_stale, run_case,
          "CRSs given as WKT2 whose false easting was moved by 250 km under an unchanged trailing ID[EPSG,n] (pyproj finds no "
          "EPSG code for them): as source, as target, as both; against EPSG:n nothing is 'the own CRS'"),
        S("lazy-state", gen_lazy, run_lazy,
          "18 kinds of earlier use of the SAME source GeoBox object (lazy properties, footprints, earlier to_crs calls to "
          "this / other targets with other options, views, pickling, CRS helpers), then the request: every clause, and the "
          "same answer as a new object gives"),
        S("entry-points", gen_api, run_case,
          "GeoBox.to_crs, every argument given explicitly, CRS object and integer EPSG as crs="),
        S("xarray", gen_xr, run_xr, "xr_zeros(src).odc.output_geobox(...)"),
        S("option-pairs", gen_pairs, run_pairs,
          "shape= (tuple / Shape2d / list / int / float) given TOGETHER with resolution= (every keyword spelled out, numbers, "
          "Resolution objects, keyword + round_resolution) x anchor x tight on compute_output_geobox, GeoBox.to_crs, "
          ".odc.output_geobox and .odc.reproject: the shape clauses hold whatever resolution= says, the grid is the one the "
          "request gives without resolution=, and every entry point returns the function's grid"),
    ]


def main(ctx):
    t = ctx.tier == "thorough"
    ctx.rule = (
        "complete Cartesian products (unions of products for utm-strings / continental / large-rasters); every case "
        "builds one source GeoBox from six affine coefficients, calls the real code once and judges the result against "
        "source pixel corners projected with a pyproj transformer built by the check; non-trivial = enclosure judged "
        "(raster inside the areas of use of both CRSs), a shape request, the own-CRS clause or a utm clause; distinct by "
        "(slice, case) hash"
    )
    ctx.bounds = {
        "locations": {k: list(v) for k, v in LOCS.items()},
        "extent_deg_m": {k: list(v) for k, v in EXTENT.items()},
        "rotation_deg": ROT,
        "orientations": ["nu (north-up)", "rot (20 deg)", "mx / su / r180 (axis-aligned, columns east-west and/or rows "
                         "south-north; slice mirrored-sources)"],
        "source_shapes_max_all_pixels": [64, 64],
        "source_shapes_boundary_only_max": [2000, 1500] if t else [768, 1024],
        "targets": ["EPSG:4326", "EPSG:3857", "EPSG:3035/3577/6933", "EPSG:326xx/327xx", "utm", "utm-n", "utm-s", "own",
                    "EPSG:4258/4283/4674 (geographic-pairs)"] + list(NOEPSG.values()),
        "resolution": ["auto", "fit", "same"] + [repr(e[1]) for e in (EXPL_T if t else EXPL_Q)],
        "anchor": [repr(a) for a in (ANCHOR_T if t else ANCHOR3)],
        "tight": [False, True],
        "tol": list(TOL_T if t else TOL2),
        "shape_requests": [repr(s[1]) for s in (SHAPE_REQ_T if t else SHAPE_REQ_Q)],
        "option_pairs": {"shape(form, ...)": [list(v) for v in (PAIR_SHAPE_T if t else PAIR_SHAPE_Q)],
                         "resolution_given_with_it": [repr(v) for v in (PAIR_RES_T if t else PAIR_RES_Q)],
                         "entry_points": list(PAIR_API)},
        "far_origin": {"families(kind, location, source pixel, other target)": [list(f) for f in FAR],
                       "output_px_over_source_px": list(FAR_RATIO_T if t else FAR_RATIO_Q),
                       "edge_phase_output_px": list(FAR_PHASE_T if t else FAR_PHASE_Q), "edges": list(FAR_EDGE),
                       "shapes": [list(v) for v in (FAR_SHAPE_T if t else FAR_SHAPE_Q)]},
    }
    ctx.assumptions = [
        "the source raster is the six binary64 affine coefficients handed to GeoBox; sample points: every pixel corner "
        "for rasters up to 64x64 plus >= 10 points inside every outer pixel side (boundary corners + 2 per side for "
        "larger rasters: inside the areas of use the projections are homeomorphisms, so extremes lie on the boundary)",
        "reference projection: pyproj.Transformer.from_crs(EPSG src, EPSG dst, always_xy=True) built by the check",
        "enclosure is judged only when the raster's outer boundary lies inside the EPSG areas of use of both CRSs "
        "(outside the property makes no claim); uncovered <= tol * output pixel + 1e-9*(|coordinate| + pixel)",
        "enclosure is demanded for resolution-driven requests only (as the statement does); for shape requests the "
        "clauses are shape, pixel size and displacement < 1 pixel",
        "'projected footprint' for the displacement / tight clauses is anything between the unbuffered footprint and the "
        "footprint grown by the documented 0.9 source pixels (both computed by the check): low edges must lie in "
        "(buffered - d, unbuffered + d + tol*px), d = 1 pixel when snapping, 0 otherwise; the oracle's outline sampling "
        "error is covered by 1e-3 of max(output pixel, projected source pixel)",
        "shape=N: pixel = longest side of the footprint / N (square, Y inverted); longest side has N pixels when "
        "snapping is off and N or N+1 when the grid is snapped (an N pixel span not starting on a grid line cannot be "
        "covered by N aligned pixels); DEVIATION from the literal 'has that longest side'",
        "alignment: origin/pixel - anchor is an integer within 1e-9*(|origin| + pixel) (as C08); vacuous when "
        "|origin|/pixel > 2.5e8 (labelled unresolvable: 'same' across units)",
        "same units = both CRSs have metre axes or both degree axes (pyproj axis_info of fresh EPSG objects)",
        "fit: pixels square, Y inverted, size within [0.9*smin, 1.1*smax] of the singular values of the finite-difference "
        "Jacobian (fresh pyproj) of one source pixel at the centre pixel, steps 0.5 and 2 pixels: a gross sanity band, "
        "the statement gives no number",
        "own CRS: default options (resolution auto, no shape, default anchor, tight False, tol 0.01) => the same object or "
        "an equal GeoBox, also for a rotated source; when the source object itself comes back for non-default "
        "tol/tight/'same' nothing is demanded (recorded as own:returned-source); own CRS with another anchor, 'fit', an "
        "explicit resolution or a shape request is judged by every general clause",
        "utm: result EPSG in 32601..32660 / 32701..32760; hemisphere as requested for -n/-s; the zone's area of use "
        "overlaps the raster's lon/lat box in longitude and (for plain 'utm') in latitude",
        "xarray slice: the raster is the GeoBox xarray hands back (.odc.geobox); its registration is C09's subject",
        "no-epsg: CRSs given as PROJ strings that match no EPSG entry; reference transformer from pyproj CRS objects made "
        "from the same strings; 'result CRS equals the requested one' = pyproj equality of the result's WKT with the string; "
        "custom strings have no registered area of use: sources sit in central Europe / Scandinavia where sinusoidal, "
        "LAEA(50N,12E), TM(12E) and Albers(43N,62N) are regular, and only EPSG:3035's area of use is tested; own CRS = the "
        "same string, its WKT2 text or a pyproj.CRS of it",
        "utm-history: every case starts by emptying the memoising wrappers found in odc.geo.crs (all but the CRS-construction "
        "and transformer caches; none exists on the unchanged tree); reference = the second request issued first after "
        "such a reset; the first request of a pair is itself a fresh-state request; rasters lie wholly inside one zone and "
        "one hemisphere, so the utm clauses alone already determine the zone",
        "a 'utm*' keyword names a CRS: the grid must equal (EPSG, shape, affine) the one computed with the same options for "
        "the EPSG code it resolved to; GeoBox.to_crs / .odc.output_geobox must return the grid compute_output_geobox returns "
        "for identical arguments (the method is documented as that function)",
        "tol-sweep: containment is judged with the tol stated in the call on every entry point; the source origin is slid "
        "in steps of one (quick: two) source pixels over one output pixel so that a footprint edge falls within 1/100 of an "
        "output pixel past a grid line at several positions",
        "odd-rasters: the footprint buffer is a distance (0.9 of the larger pixel side), i.e. (B/|rx|, B/|ry|) pixels; the "
        "fit band and every other clause are unchanged; 2x20000 rasters use the outer-boundary oracle",
        "area-limits: a raster touching the limit is inside the area of use; when the 0.9 px buffer leaves the lon/lat "
        "domain (wraps at 180 / passes a pole) there is no buffered reference, so the tight / shape-displacement clauses are "
        "skipped and containment, alignment, pixel size still judged; partly outside the target's area: nothing demanded, an "
        "exception is recorded only",
        "spellings: every variant is a spelling odc-geo accepts today (np.int64 / float32 resolutions and ndarray shapes are "
        "rejected with ValueError and are not in the alphabet); the result must equal the plain spelling's through the "
        "function, 'the source itself' included; rounded fits: pixel == rounding of the unrounded fit, then every clause",
        "stale-id-wkt: the reference transformer and the CRS comparison are built from the WKT text, i.e. its definition",
        "lazy-state: caches found in odc.geo.{crs,geom,geobox,overlap,math,gcp,types} (cachetools / functools wrappers, "
        "cachetools.Cache objects; not the CRS construction / transformer caches) are emptied before the history and "
        "before the reference call",
        "far-origin: the phase is that of the footprint grown by the documented 0.9 source pixels (the box that is snapped) "
        "in the SOURCE CRS: exact for the own-CRS target, for the other-CRS target it only makes the edges sweep the output "
        "pixel; the oracle is unchanged (every source pixel corner, identity / fresh pyproj, inside up to tol * output pixel); "
        "pyproj's transformer between a CRS and itself returns its input unchanged (no-op pipeline)",
        "option-pairs: 'Takes precedence over resolution=' / 'resolution: ignored if shape= is supplied' (docstrings of "
        "compute_output_geobox, GeoBox.to_crs, xr_reproject): with shape= every shape clause is judged exactly as in the "
        "shape-request slice and the grid must equal the one computed without resolution= / round_resolution=; only "
        "resolution values that are valid on their own are in the alphabet (whether an invalid keyword next to shape= is "
        "reported is not part of the property); .odc.reproject: the raster's pixel count must be that of the function's grid "
        "for the same arguments and the grid read back from its coordinates agree with it to 1e-6 pixel (the read-back is "
        "C09's subject), the clauses are judged on the function's grid",
        "mirrored-sources: axis-aligned GeoBoxes whose columns run east-west and/or rows south-north are source GeoBoxes "
        "like any other (the quantifier's 'north-up and rotated' is read as 'any orientation'); kept in their own slice, "
        "finding keys carry the orientation (mx / su / r180)",
    ]
    sl = slices(ctx.tier)
    if ctx.only:
        sl = [s for s in sl if any(s.name.startswith(o) for o in ctx.only)]
    e1.run_slices(ctx, sl)


def replay(slice_name, case, tier):
    return e1.replay(slices(tier), slice_name, case).fails
