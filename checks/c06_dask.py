"""C06 conformance with dask (E3b): the real mpu_write graph, executed in every task order within a
deviation bound, must satisfy the same invariants and end in a final writer log that the interval DP
(all merge trees, direct driver) also reaches - which ties the direct driver to what dask builds."""
from __future__ import annotations

import itertools

from vf import core, taskgraph
from vf.core import R

from . import c06
from .c06 import M, M_SZ, RecWriter


class Callback:
    """mk_header / mk_footer as a deep-copyable callable object (closures are not copied)."""

    def __init__(self, payload: bytes):
        self.payload = payload
        self.seen = None

    def __call__(self, observed, **kw):
        self.seen = list(observed)
        return self.payload


def build_graph(cfg, substreams):
    """cfg as in c06; substreams: tuple of partition counts summing to len(partitions)."""
    import dask.bag as db  # pylint: disable=import-outside-toplevel

    parts, wpc, spill, hl, fl, min_part, use_writer = cfg
    data = c06.chunk_bytes(parts)
    w = RecWriter(M_SZ, min_part, c06.max_part_for(cfg)) if use_writer else None
    bags, i = [], 0
    for si, n in enumerate(substreams):
        name = f"src{si}"
        bags.append(db.Bag({(name, j): list(data[i + j]) for j in range(n)}, name, n))
        i += n
    hdr = Callback(b"\xf0" * hl) if hl else None
    ftr = Callback(b"\xfe" * fl) if fl else None
    out = M.mpu_write(
        bags if len(bags) > 1 else bags[0], w, mk_header=hdr, mk_footer=ftr,
        writes_per_chunk=wpc, spill_sz=spill,
    )
    g = taskgraph.converted(out, [out.key])
    return g, out.key, dict(w=w, hdr=hdr, ftr=ftr)


def cases(tier):
    shapes = [
        (((5, 9), (3,)), (2,)),
        (((5, 9), (3,), (14,)), (3,)),
        (((1,), (20, 3), (5,), (0,), (14,)), (5,)),  # > split_every=4: two fold levels
        (((5,), (14,), (20, 3)), (1, 2)),  # two sub-streams: collate path
        (((9,), (1,), (5, 0, 14), (3,)), (2, 2)),
    ]
    if tier == "thorough":
        shapes += [
            (((14,), (14,), (5,), (9,), (1,), (20, 3)), (6,)),
            (((5,), (9,), (14,), (1,), (3, 9)), (2, 1, 2)),
        ]
    for (parts, subs) in shapes:
        for wpc in (1, 2):
            for spill in (0, M_SZ + 1, 1 << 30):
                for hl, fl in ((0, 0), (3, 0), (3, 2)):
                    yield (parts, wpc, spill, hl, fl, 1, True), subs
        yield (parts, 1, 0, 3, 2, 1, False), subs  # no writer


def cases_broad(tier):
    """Breadth instead of order depth: every structure of 2-3 sub-streams with 1-2 partitions each over a small
    partition alphabet, all option combinations, executed in dask's static order only (bound 0)."""
    alpha = [(1,), (14,), (20, 3)] if tier == "quick" else [(1,), (5,), (14,), (20, 3), (0,)]
    structs = [(1, 1), (1, 2), (2, 1), (2, 2), (1, 1, 1)] + ([(1, 2, 1), (2, 1, 1), (1, 1, 2)] if tier == "thorough" else [])
    for subs in structs:
        n = sum(subs)
        for parts in itertools.product(alpha, repeat=n):
            for wpc in (1, 2):
                for spill in (0, M_SZ + 1, 1 << 30):
                    for hl, fl in ((0, 0), (3, 0), (3, 2), (0, 2)):
                        yield (tuple(parts), wpc, spill, hl, fl, 1, True), subs


class DestWriter(RecWriter):
    """A recording writer that, like the real sinks (file path, bucket/key), has a destination and tokenises by it."""

    def __init__(self, dest, *a, **kw):
        super().__init__(*a, **kw)
        self.dest = dest

    def __dask_tokenize__(self):
        return ("DestWriter", self.dest, self._m, self._min_part, self._max_part)


def cases_joint(tier):
    """Several assemblies in ONE graph: the same partitions (or different ones) written to k different destinations."""
    shapes = [
        (((5, 9), (3,), (14,)), (3,)),
        (((5,), (14,), (20, 3)), (1, 2)),
        (((14,), (14,)), (2,)),
    ]
    for parts, subs in shapes:
        for k in (2, 3):
            for same_data in (True, False):
                for wpc in (1, 2):
                    for spill in (0, M_SZ + 1):
                        for hl, fl in ((0, 0), (3, 2)):
                            yield (parts, wpc, spill, hl, fl, 1, True), subs, k, same_data


def run_joint(case):
    import dask.bag as db  # pylint: disable=import-outside-toplevel

    cfg, subs, k, same_data = case
    parts, wpc, spill, hl, fl, min_part, _ = cfg
    graph, keys, cx = {}, [], {}
    cfgs = []
    for n in range(k):
        # different data = the partitions rotated (same sizes, other order), so every destination has its own stream
        pn = parts if same_data or n == 0 else parts[n % len(parts):] + parts[: n % len(parts)]
        cfg_n = (pn, wpc, spill, hl, fl, min_part, True)
        cfgs.append(cfg_n)
        data = c06.chunk_bytes(pn)
        w = DestWriter(f"dest{n}", M_SZ, min_part, c06.max_part_for(cfg_n))
        bags, i = [], 0
        for si, cnt in enumerate(subs):
            name = f"src{n if not same_data else 0}-{si}"
            bags.append(db.Bag({(name, j): list(data[i + j]) for j in range(cnt)}, name, cnt))
            i += cnt
        hdr = Callback(b"\xf0" * hl) if hl else None
        ftr = Callback(b"\xfe" * fl) if fl else None
        out = M.mpu_write(bags if len(bags) > 1 else bags[0], w, mk_header=hdr, mk_footer=ftr, writes_per_chunk=wpc, spill_sz=spill)
        graph.update(dict(out.__dask_graph__()))
        keys.append(out.key)
        cx[f"w{n}"] = w
    fails = {}
    if len(set(keys)) != k:
        fails["joint:finalise-keys-collide"] = f"{k} assemblies to different destinations produced finalise keys {keys}"
    g = taskgraph.converted(graph, list(set(keys)))

    def check(x: taskgraph.Exec):
        if x.error is not None:
            if not core.in_repo_tb(x.error):
                raise x.error
            fails.setdefault(f"joint:exception:{type(x.error).__name__}@{core.raise_site(x.error)}", f"{x.error}")
            return
        for n in range(k):
            w = x.ctx[f"w{n}"]
            for kk, msg in c06.judge_writes(cfgs[n], w.log, w.final):
                fails.setdefault(f"joint:dest{'0' if n == 0 else 'N'}:" + kk, f"destination #{n} of {k}: {msg}")

    st = taskgraph.explore(g, cx, check, 0)
    return st, fails, len(g)


def cases_shared(tier):
    """The SAME bag (same chunk objects) feeding k sub-streams, as `mpu_write([bag] * k, ...)` does, with chunks given
    as bytes or as bytearray (both are `SomeData`): the stream is the bag's content k times over."""
    alpha = [((5,),), ((14,), (3,)), ((5, 9), (3,)), ((1, 1, 1), (20, 3)), ((9,), (1,), (5, 0, 14))]
    for parts in alpha:
        for k in (2, 3):
            for kind in ("bytearray", "bytes"):
                for wpc in (1, 2):
                    for spill in (0, M_SZ + 1, 1 << 30):
                        for hl, fl in ((0, 0), (3, 0), (3, 2)):
                            yield (parts, wpc, spill, hl, fl, 1, True), k, kind


def run_shared(case):
    import dask.bag as db  # pylint: disable=import-outside-toplevel

    cfg, k, kind = case
    parts, wpc, spill, hl, fl, min_part, _ = cfg
    cfg_k = (tuple(parts) * k, wpc, spill, hl, fl, min_part, True)
    data = c06.chunk_bytes(parts)
    body = b"".join(d for row in data for d, _ in row)
    want = b"\xf0" * hl + body * k + b"\xfe" * fl
    want_obs = [(len(d), i) for row in data for d, i in row] * k
    cv = bytearray if kind == "bytearray" else bytes
    bag = db.Bag({("src", j): [(cv(d), i) for d, i in data[j]] for j in range(len(parts))}, "src", len(parts))
    w = RecWriter(M_SZ, min_part, c06.max_part_for(cfg_k))
    hdr = Callback(b"\xf0" * hl) if hl else None
    ftr = Callback(b"\xfe" * fl) if fl else None
    out = M.mpu_write([bag] * k, w, mk_header=hdr, mk_footer=ftr, writes_per_chunk=wpc, spill_sz=spill)
    g = taskgraph.converted(out, [out.key])
    fails = {}

    def check(x: taskgraph.Exec):
        dev = [i for i, c in enumerate(x.choices) if c]
        where = f"order deviations at steps {dev}"
        if x.error is not None:
            if not core.in_repo_tb(x.error):
                raise x.error
            fails.setdefault(f"dask:shared-bag:exception:{type(x.error).__name__}@{core.raise_site(x.error)}",
                             f"{type(x.error).__name__}: {x.error}; {where}")
            return
        ww = x.ctx["w"]
        for kk, msg in c06.judge_writes(cfg_k, ww.log, ww.final, want=want):
            fails.setdefault(f"dask:shared-bag:{kind}:" + kk, f"{msg}; {where}")
        for who in ("hdr", "ftr"):
            cb = x.ctx[who]
            if cb is not None and cb.seen != want_obs:
                fails.setdefault(f"dask:shared-bag:{kind}:observed:{who}", f"callback saw {cb.seen} want {want_obs}; {where}")

    st = taskgraph.explore(g, dict(w=w, hdr=hdr, ftr=ftr), check, 1)
    return st, fails, len(g)


def cases_many(tier):
    """Partition COUNTS around the sizes at which dask changes how it builds bags (from_sequence groups elements once
    there are more than 100) and around split_every boundaries; one- and two-sub-stream structures."""
    counts = (15, 16, 17, 64, 99, 100, 101, 128, 257) if tier == "quick" else (15, 16, 17, 63, 64, 65, 99, 100, 101, 102, 128, 200, 256, 257, 300)
    for n in counts:
        for wpc, spill in ((1, 0), (2, M_SZ + 1), (1, 1 << 30)):
            for hl, fl in ((0, 0), (3, 2)):
                parts = tuple(((5,), (1,), (14,), (3, 9))[i % 4] for i in range(n))
                yield (parts, wpc, spill, hl, fl, 1, True), (n,)
                if n >= 99:
                    yield (parts, wpc, spill, hl, fl, 1, True), (n - 3, 3)


def run_many(case):
    cfg, subs = case
    g, key, cx = build_graph(cfg, subs)
    fails = {}

    def check(x: taskgraph.Exec):
        if x.error is not None:
            if not core.in_repo_tb(x.error):
                raise x.error
            fails.setdefault(f"dask:many:exception:{type(x.error).__name__}@{core.raise_site(x.error)}", f"{type(x.error).__name__}: {x.error}")
            return
        w = x.ctx["w"]
        for k, msg in c06.judge_writes(cfg, w.log, w.final):
            fails.setdefault("dask:many:" + k, msg)

    st = taskgraph.explore(g, cx, check, 0)
    return st, fails, len(g)


def run_case(case, bound):
    cfg, subs = case
    stats, dp_fails = c06.explore_cfg(cfg)
    finals = stats["finals"]
    g, key, cx = build_graph(cfg, subs)
    fails = {}
    outs = set()
    want_obs = [(len(d), k) for row in c06.chunk_bytes(cfg[0]) for d, k in row]

    def check(x: taskgraph.Exec):
        dev = [i for i, c in enumerate(x.choices) if c]
        where = f"order deviations at steps {dev} choices {[x.choices[i] for i in dev]}"
        if x.error is not None:
            if not core.in_repo_tb(x.error):
                raise x.error
            fails.setdefault(
                f"dask:exception:{type(x.error).__name__}@{core.raise_site(x.error)}",
                f"{type(x.error).__name__}: {x.error} in task {str(x.failed_key)[:50]}; {where}")
            return
        w = x.ctx["w"]
        for who in ("hdr", "ftr"):
            cb = x.ctx[who]
            if cb is not None and cb.seen != want_obs:
                fails.setdefault(f"dask:observed:{who}", f"callback saw {cb.seen} want {want_obs}; {where}")
        if w is None:
            rr = x.results[key]
            got = bytes(rr.left_data) + bytes(rr.data)
            if got != c06.expected_stream(cfg):
                fails.setdefault("dask:nowriter:stream", f"{got!r}; {where}")
            outs.add(got)
            return
        for k, msg in c06.judge_writes(cfg, w.log, w.final):
            fails.setdefault("dask:" + k, f"{msg}; {where}")
        fin = (tuple(sorted(w.log)), tuple(p["PartNumber"] for p in (w.final or [])))
        outs.add(fin)
        if fin not in finals:
            fails.setdefault("dask:not-reached-by-dp", f"final writer log {fin} is not among the {len(finals)} "
                             f"outcomes of the direct driver over all merge trees; {where}")

    st = taskgraph.explore(g, cx, check, bound)
    return st, fails, len(outs), len(g)


def run(ctx):
    bound = 1 if ctx.tier == "quick" else 2
    tot = dict(executions=0, tasks=0, orders=0, graphs=0)
    sl = dict(name=f"dask-orders-bound{bound}", evaluations=0, nontrivial=0, outcomes={}, note=(
        "real mpu_write graphs (fold with split_every=4, collate of sub-streams) executed task by task in every "
        "order within the deviation bound; final writer log must be one the interval DP reaches"))
    allcases = list(cases(ctx.tier))
    # spread over workers through the E1 pool
    from vf import e1  # pylint: disable=import-outside-toplevel

    def gen():
        return iter(allcases)

    def runc(case):
        st, fails, nouts, ntasks = run_case(case, bound)
        r = R(outcome=f"tasks{ntasks // 10 * 10}:outs{nouts}")
        r.counts = dict(dask_executions=st.executions, dask_tasks_run=st.tasks_run, transitions=st.tasks_run,
                        dask_distinct_orders=st.distinct_orders, dask_graphs=1)
        for k, m in fails.items():
            r.fail(k, f"cfg(partitions={case[0][0]}, wpc={case[0][1]}, spill={case[0][2]}, hdr={case[0][3]}, "
                      f"ftr={case[0][4]}, substreams={case[1]}): {m}")
        return r

    broad = list(cases_broad(ctx.tier))

    def runb(case):
        st, fails, nouts, ntasks = run_case(case, 0)
        r = R(outcome=f"broad:subs{len(case[1])}:tasks{ntasks // 10 * 10}")
        r.counts = dict(dask_executions=st.executions, dask_tasks_run=st.tasks_run, transitions=st.tasks_run, dask_graphs=1)
        for k, m in fails.items():
            r.fail(k, f"cfg(partitions={case[0][0]}, wpc={case[0][1]}, spill={case[0][2]}, hdr={case[0][3]}, "
                      f"ftr={case[0][4]}, substreams={case[1]}): {m}")
        return r

    joint = list(cases_joint(ctx.tier))

    def runj(case):
        st, fails, ntasks = run_joint(case)
        r = R(outcome=f"joint:k{case[2]}:{'same' if case[3] else 'different'}-data:subs{len(case[1])}")
        r.counts = dict(dask_executions=st.executions, dask_tasks_run=st.tasks_run, transitions=st.tasks_run, dask_graphs=1)
        for k_, m in fails.items():
            r.fail(k_, f"cfg(partitions={case[0][0]}, wpc={case[0][1]}, spill={case[0][2]}, hdr={case[0][3]}, ftr={case[0][4]}, "
                       f"substreams={case[1]}, destinations={case[2]}, same_data={case[3]}): {m}")
        return r

    many = list(cases_many(ctx.tier))

    def runm(case):
        n = len(case[0][0])
        r = R(outcome=f"many:n{n}:subs{len(case[1])}")
        try:
            st, fails, ntasks = run_many(case)
        except Exception as e:  # graph construction itself runs library code
            if not core.in_repo_tb(e):
                raise
            return r.fail(f"dask:many:graph-construction:{type(e).__name__}@{core.raise_site(e)}",
                          f"{n} partitions, substreams={case[1]}, wpc={case[0][1]}, spill={case[0][2]}: {type(e).__name__}: {e}")
        r.counts = dict(dask_executions=st.executions, dask_tasks_run=st.tasks_run, transitions=st.tasks_run, dask_graphs=1)
        for k_, m in fails.items():
            r.fail(k_, f"{n} partitions, substreams={case[1]}, wpc={case[0][1]}, spill={case[0][2]}, hdr={case[0][3]}, ftr={case[0][4]}: {m}")
        return r

    shared = list(cases_shared(ctx.tier))

    def runs(case):
        st, fails, ntasks = run_shared(case)
        r = R(outcome=f"shared:k{case[1]}:{case[2]}:tasks{ntasks // 10 * 10}")
        r.counts = dict(dask_executions=st.executions, dask_tasks_run=st.tasks_run, transitions=st.tasks_run,
                        dask_distinct_orders=st.distinct_orders, dask_graphs=1)
        for k_, m in fails.items():
            r.fail(k_, f"cfg(partitions={case[0][0]}, wpc={case[0][1]}, spill={case[0][2]}, hdr={case[0][3]}, ftr={case[0][4]}, "
                       f"same bag x{case[1]}, chunks as {case[2]}): {m}")
        return r

    e1.run_slices(ctx, [
        e1.Slice("dask-shared-bag", lambda: iter(shared), runs,
                 "one bag (same chunk objects, bytes and bytearray) feeding 2-3 sub-streams; every task order within 1 deviation"),
        e1.Slice("dask-many-partitions", lambda: iter(many), runm,
                 "15..257 (thorough ..300) partitions through the real mpu_write graph: counts around dask's bag-grouping threshold (100) "
                 "and the fold fan-in"),
        e1.Slice("dask-joint-destinations", lambda: iter(joint), runj,
                 "2-3 assemblies to different destinations built into ONE graph and executed together"),
        e1.Slice(f"dask-orders-bound{bound}", gen, runc, sl["note"], shards=len(allcases)),
        e1.Slice("dask-substreams-broad", lambda: iter(broad), runb,
                 "every structure of 2-3 sub-streams x partition alphabet x options through the real mpu_write graph, "
                 "dask's static order"),
    ])
    ctx.bounds["dask_deviation_bound"] = bound


def replay(case):
    st, fails, _, _ = run_case(case, 2)
    return [core.Fail(k, m) for k, m in fails.items()]
