"""C16 - GeoBox and bounding-box set operations respect the common pixel grid.

E1: complete products over families of GeoBoxes derived from a base grid by integer pixel shifts
and arbitrary shapes (0 rows / columns included).  The oracle never looks at the code under test:
every family member is a pixel rectangle ``[tx, tx+nx) x [ty, ty+ny)`` of the base grid, known from
the integers it was built from; results are mapped back into the base grid with exact rational
arithmetic (``fractions.Fraction`` on the float entries of the returned affine) and compared as
pixel rectangles / pixel sets; ``overlap_roi`` is judged by numpy indexing of ``arange`` laid out on
the first operand.  Dyadic bases (D) are compared exactly, realistic bases (R) with 1e-6 pixel.
"""
from __future__ import annotations

import itertools
from fractions import Fraction as Fr

import numpy as np
from affine import Affine

from vf import e1
from vf.core import R

PROPERTY = "C16"
LEVEL = "exploration"

import pyproj  # noqa: E402

from odc.geo import geom  # noqa: E402
from odc.geo.crs import CRS  # noqa: E402
from odc.geo.geobox import (  # noqa: E402
    GeoBox,
    bounding_box_in_pixel_domain,
    geobox_intersection_conservative,
    geobox_union_conservative,
    pixel_translation,
)
from odc.geo.geom import BoundingBox, bbox_intersection, bbox_union  # noqa: E402

# ---------------------------------------------------------------------------------------------
# base grids
# ---------------------------------------------------------------------------------------------
TOL_PX = Fr(1, 10**6)  # DESIGN 3: pixel-unit tolerance on the realistic alphabet
TOL_LIN = Fr(1, 10**9)  # relative tolerance on the linear part (R)

BASES = {
    # dyadic: every intermediate of implementation and oracle is exact in binary64
    "D-northup": (Affine(8.0, 0.0, 524288.0, 0.0, -8.0, 6291456.0), "EPSG:32633", True),
    "D-mirrored": (Affine(-0.5, 0.0, 96.0, 0.0, 0.5, -32.0), "EPSG:4326", True),
    # 45 degree similarity with dyadic entries, determinant -32 (inverse is dyadic too)
    "D-rot45": (Affine(4.0, 4.0, 524288.0, 4.0, -4.0, 6291456.0), "EPSG:32633", True),
    # realistic: 0.1 degree, 1/3 with mirrored axes, 30 m / UTM sized offsets / 30 degree rotation
    "R-northup": (Affine(0.1, 0.0, 140.3, 0.0, -0.1, -35.7), "EPSG:4326", False),
    "R-mirrored": (Affine(-1 / 3, 0.0, 1000.1, 0.0, 1 / 3, 2000.2), "EPSG:3857", False),
    "R-rot30": (
        Affine.translation(500000.0, 6000000.0) * Affine.rotation(30.0) * Affine.scale(30.0, -30.0),
        "EPSG:32633",
        False,
    ),
}
BASE_NAMES = tuple(BASES)
_CRS = {}
_INV = {}
_GB = {}


def crs_of(base):
    c = BASES[base][1]
    if c not in _CRS:
        _CRS[c] = CRS(c)
    return _CRS[c]


def is_exact(base):
    return BASES[base][2]


def tols(base):
    """(pixel tolerance, linear tolerance) for a base."""
    return (Fr(0), Fr(0)) if is_exact(base) else (TOL_PX, TOL_LIN)


# -- exact affine arithmetic on 6-tuples (a, b, c, d, e, f) ---------------------------------------
def fr6(A):
    return tuple(Fr(v) for v in tuple(A)[:6])


def inv6(m):
    a, b, c, d, e, f = m
    det = a * e - b * d
    ra, rb, rd, re = e / det, -b / det, -d / det, a / det
    return (ra, rb, -c * ra - f * rb, rd, re, -c * rd - f * re)


def mul6(m, n):
    a, b, c, d, e, f = m
    A, B, C, D, E, F_ = n
    return (a * A + b * D, a * B + b * E, a * C + b * F_ + c, d * A + e * D, d * B + e * E, d * C + e * F_ + f)


def apply6(m, x, y):
    a, b, c, d, e, f = m
    return (a * x + b * y + c, d * x + e * y + f)


def base_inv(base):
    if base not in _INV:
        _INV[base] = inv6(fr6(BASES[base][0]))
    return _INV[base]


def member_affine(base, tx, ty):
    return BASES[base][0] * Affine.translation(tx, ty)


def gb(base, m):
    """Family member m = (tx, ty, ny, nx): base grid shifted by whole pixels, any shape."""
    k = (base, m)
    g = _GB.get(k)
    if g is None:
        tx, ty, ny, nx = m
        g = GeoBox((ny, nx), member_affine(base, tx, ty), crs_of(base))
        if len(_GB) < 200000:
            _GB[k] = g
    return g


def rect(m):
    tx, ty, ny, nx = m
    return (tx, ty, tx + nx, ty + ny)


def r_empty(r):
    return r[2] <= r[0] or r[3] <= r[1]


def hull(rects):
    return (min(r[0] for r in rects), min(r[1] for r in rects), max(r[2] for r in rects), max(r[3] for r in rects))


def inter(rects):
    return (max(r[0] for r in rects), max(r[1] for r in rects), min(r[2] for r in rects), min(r[3] for r in rects))


def contains(outer, inner):
    return outer[0] <= inner[0] and outer[1] <= inner[1] and outer[2] >= inner[2] and outer[3] >= inner[3]


def locate(base, g, tol_px=None, tol_lin=None):
    """Pixel rectangle of GeoBox ``g`` in the base grid, by exact rational arithmetic.

    -> (status, rect, (fx, fy)) with status in ok / not-a-geobox / crs / negative-shape /
    off-grid-linear / off-grid-offset; fx, fy = exact location of the origin in base pixels.
    """
    if not isinstance(g, GeoBox):
        return ("not-a-geobox", None, None)
    tp, tl = tols(base)
    tol_px = tp if tol_px is None else tol_px
    tol_lin = tl if tol_lin is None else tol_lin
    if g.crs != crs_of(base):
        return ("crs", None, None)
    ny, nx = g.shape
    a, b, c, d, e, f = mul6(base_inv(base), fr6(g.affine))
    if abs(a - 1) > tol_lin or abs(b) > tol_lin or abs(d) > tol_lin or abs(e - 1) > tol_lin:
        return ("off-grid-linear", None, (c, f))
    rx, ry = round(c), round(f)
    if ny < 0 or nx < 0:
        return ("negative-shape", (rx, ry, rx + nx, ry + ny), (c, f))
    if abs(c - rx) > tol_px or abs(f - ry) > tol_px:
        return ("off-grid-offset", None, (c, f))
    return ("ok", (rx, ry, rx + nx, ry + ny), (c, f))


def call(fn, *a, **kw):
    """Run code under test; ('ok', value) or ('raised', exception)."""
    try:
        return ("ok", fn(*a, **kw))
    except Exception as e:  # pylint: disable=broad-except
        return ("raised", e)


def cls1(a0, a1, b0, b1):
    """position of interval b relative to interval a (one axis)"""
    if a1 == a0 or b1 == b0:
        return "e"  # an empty operand on this axis
    if b1 < a0:
        return "B"  # before, with a gap   (above / left of a)
    if b1 == a0:
        return "b"  # before, touching
    if b0 > a1:
        return "A"  # after, with a gap    (below / right of a)
    if b0 == a1:
        return "a"  # after, touching
    return "o"  # overlapping


def rel_of(ra, rb):
    if r_empty(ra) or r_empty(rb):
        return "with-empty"
    cx, cy = cls1(ra[0], ra[2], rb[0], rb[2]), cls1(ra[1], ra[3], rb[1], rb[3])
    if cx == "o" and cy == "o":
        return "overlap"
    if cx in "AB" or cy in "AB":
        return "gap"
    return "touch"


def show(base, *ms):
    return f"base={base} " + " ".join(f"{n}=shift({m[0]},{m[1]}) shape({m[2]},{m[3]})" for n, m in zip("abc", ms))


# -- judging of union / intersection results --------------------------------------------------------
def judge_union(r, base, got, rects, tag, what, tol_px=None, tol_lin=None):
    """got: call() result of a union over operands with pixel rectangles `rects`. -> rect or None"""
    if got[0] == "raised":
        r.fail(f"union:raised-on-common-grid:{tag}:{base}", f"{what}: {type(got[1]).__name__}: {got[1]}")
        return None
    st, g, _ = locate(base, got[1], tol_px, tol_lin)
    if st != "ok":
        r.fail(f"union:{st}:{tag}:{base}", f"{what}: result {got[1]!r} is not a GeoBox of the base grid ({st})")
        return None
    nonempty = [x for x in rects if not r_empty(x)]
    if not all(contains(g, x) for x in nonempty):
        r.fail(f"union:misses-operand-pixels:{tag}:{base}", f"{what}: result rectangle {g} does not contain operands {rects}")
        return g
    # smallest GeoBox containing all operands: the hull of the operand rectangles.  An operand with
    # 0 rows/columns has no pixels but still has a (degenerate) footprint: both readings are accepted.
    ok = g == hull(rects) or (nonempty and g == hull(nonempty)) or (not nonempty and r_empty(g))
    if not ok:
        r.fail(f"union:not-smallest:{tag}:{base}", f"{what}: result rectangle {g}, smallest enclosing {hull(rects)} (operands {rects})")
    return g


def judge_inter(r, base, got, rects, tag, what, tol_px=None, tol_lin=None):
    """-> ('empty'|'rect', rect) or None"""
    if got[0] == "raised":
        r.fail(f"intersection:raised-on-common-grid:{tag}:{base}", f"{what}: {type(got[1]).__name__}: {got[1]}")
        return None
    want = inter(rects)
    g = got[1]
    if r_empty(want):
        # no shared pixels: an empty GeoBox (a 0 in the shape, nothing negative), wherever it sits
        if not isinstance(g, GeoBox) or min(g.shape) < 0 or 0 not in tuple(g.shape) or g.crs != crs_of(base):
            r.fail(f"intersection:no-shared-pixels-but-not-empty:{tag}:{base}",
                   f"{what}: no shared pixels (operands {rects}) but result is {g!r}")
            return None
        return ("empty", None)
    st, gr, _ = locate(base, g, tol_px, tol_lin)
    if st != "ok":
        r.fail(f"intersection:{st}:{tag}:{base}", f"{what}: result {g!r} is not a GeoBox of the base grid ({st})")
        return None
    if gr != want:
        r.fail(f"intersection:wrong-pixels:{tag}:{base}", f"{what}: result rectangle {gr}, shared pixels {want} (operands {rects})")
    return ("rect", gr)


def judge_roi(r, base, a, b, ma, mb, who):
    """a.overlap_roi(b) must select exactly the shared pixels of a under numpy indexing."""
    got = call(a.overlap_roi, b)
    what = f"{who}.overlap_roi: {show(base, ma, mb) if who == 'a' else show(base, mb, ma)}"
    if got[0] == "raised":
        r.fail(f"overlap_roi:raised-on-common-grid:{base}", f"{what}: {type(got[1]).__name__}: {got[1]}")
        return
    roi = got[1]
    if not (isinstance(roi, tuple) and len(roi) == 2 and all(isinstance(s, slice) for s in roi)):
        r.fail("overlap_roi:not-a-2d-slice", f"{what}: {roi!r}")
        return
    ra, rb = rect(ma), rect(mb)
    _, _, ny, nx = ma
    X = np.arange(ny * nx).reshape(ny, nx)
    sel = X[roi]
    w = inter([ra, rb])
    if r_empty(w):
        want = X[0:0, 0:0]
        ok = sel.size == 0
    else:
        want = X[w[1] - ra[1]:w[3] - ra[1], w[0] - ra[0]:w[2] - ra[0]]
        ok = sel.shape == want.shape and bool((sel == want).all())
    if ok:
        return
    cy, cx = cls1(ra[1], ra[3], rb[1], rb[3]), cls1(ra[0], ra[2], rb[0], rb[2])
    msg = (f"{what}: roi={roi} selects pixels {sel.reshape(-1).tolist()} of the first operand under numpy "
           f"indexing, shared pixels are {want.reshape(-1).tolist()}")
    keyed = False
    sy, sx = roi
    if isinstance(sy.stop, (int, np.integer)) and sy.stop < 0:
        r.fail("overlap_roi:negative-stop:other-above", msg)
        keyed = True
    if isinstance(sx.stop, (int, np.integer)) and sx.stop < 0:
        r.fail("overlap_roi:negative-stop:other-left", msg)
        keyed = True
    if not keyed:
        r.fail(f"overlap_roi:wrong-pixels:y-{cy}:x-{cx}:{base}", msg)


def same_result(r, base, x, y, key, what):
    """Two results of the same operation in a different order/bracketing must be the same grid location
    (both empty counts as same)."""
    if x[0] != "ok" or y[0] != "ok":
        return
    gx, gy = x[1], y[1]
    if not isinstance(gx, GeoBox) or not isinstance(gy, GeoBox):
        return
    if 0 in tuple(gx.shape) and 0 in tuple(gy.shape):
        return
    lx, ly = locate(base, gx), locate(base, gy)
    if lx[0] != "ok" or ly[0] != "ok":
        return  # reported by judge_*
    if lx[1] != ly[1]:  # on D locate() is exact, i.e. this is equality of the affines
        r.fail(key, f"{what}: {gx!r} vs {gy!r}")


# ---------------------------------------------------------------------------------------------
# slice "pairs": all ordered pairs
# ---------------------------------------------------------------------------------------------
def pair_space(tier):
    if tier == "thorough":
        return dict(a_shift=((0, 0), (2, -3)), a_shape=range(0, 4), b_shift=range(-5, 6), b_shape=range(0, 4))
    return dict(a_shift=((0, 0),), a_shape=(0, 1, 3), b_shift=range(-4, 5), b_shape=range(0, 4))


def gen_pairs(tier):
    sp = pair_space(tier)

    def gen():
        for base in BASE_NAMES:
            for (atx, aty) in sp["a_shift"]:
                for any_, anx in itertools.product(sp["a_shape"], repeat=2):
                    for btx, bty in itertools.product(sp["b_shift"], repeat=2):
                        for bny, bnx in itertools.product(sp["b_shape"], repeat=2):
                            yield (base, (atx, aty, any_, anx), (atx + btx, aty + bty, bny, bnx))

    return gen


def run_pair(case):
    base, ma, mb = case
    a, b = gb(base, ma), gb(base, mb)
    ra, rb = rect(ma), rect(mb)
    cx, cy = cls1(ra[0], ra[2], rb[0], rb[2]), cls1(ra[1], ra[3], rb[1], rb[3])
    r = R(outcome=f"{base}:x{cx}y{cy}", nontrivial=ma != mb)
    tag = rel_of(ra, rb)
    what = show(base, ma, mb)

    u_ab, u_ba = call(lambda: a | b), call(lambda: b | a)
    judge_union(r, base, u_ab, [ra, rb], tag, f"a|b {what}")
    judge_union(r, base, u_ba, [rb, ra], tag, f"b|a {what}")
    same_result(r, base, u_ab, u_ba, f"union:not-commutative:{tag}:{base}", f"a|b vs b|a {what}")

    i_ab, i_ba = call(lambda: a & b), call(lambda: b & a)
    judge_inter(r, base, i_ab, [ra, rb], tag, f"a&b {what}")
    judge_inter(r, base, i_ba, [rb, ra], tag, f"b&a {what}")
    same_result(r, base, i_ab, i_ba, f"intersection:not-commutative:{tag}:{base}", f"a&b vs b&a {what}")

    judge_roi(r, base, a, b, ma, mb, "a")
    judge_roi(r, base, b, a, mb, ma, "b")

    # the two mechanisms the operations are built from (documented contracts)
    tol_px, _ = tols(base)
    pt = call(pixel_translation, b, a)
    if pt[0] == "raised":
        r.fail(f"pixel_translation:raised-on-common-grid:{base}", f"{what}: {pt[1]}")
    else:
        tx, ty = pt[1].xy
        if abs(Fr(tx) - (rb[0] - ra[0])) > tol_px or abs(Fr(ty) - (rb[1] - ra[1])) > tol_px:
            r.fail(f"pixel_translation:value:{base}", f"pixel_translation(b,a)={pt[1]} want {(rb[0] - ra[0], rb[1] - ra[1])}; {what}")
    bb = call(bounding_box_in_pixel_domain, b, a)
    if bb[0] == "raised":
        r.fail(f"bounding_box_in_pixel_domain:raised-on-common-grid:{base}", f"{what}: {bb[1]}")
    else:
        want = (rb[0] - ra[0], rb[1] - ra[1], rb[2] - ra[0], rb[3] - ra[1])
        if tuple(bb[1]) != want:
            r.fail(f"bounding_box_in_pixel_domain:value:{base}", f"bounding_box_in_pixel_domain(b, a)={tuple(bb[1])} want {want}; {what}")
    return r


# ---------------------------------------------------------------------------------------------
# slice "triples": associativity and the n-ary forms
# ---------------------------------------------------------------------------------------------
def triple_members(tier):
    """1-d interval alphabets (start, length) per axis; members = all x-interval x y-interval."""
    if tier == "thorough":
        xs = ((0, 2), (1, 2), (-2, 1), (2, 0), (-1, 5), (3, 1))
        ys = ((0, 3), (2, 1), (-3, 2), (0, 0), (-1, 3), (1, 0), (-4, 1))
    else:
        xs = ((0, 2), (1, 2), (-2, 1), (2, 0))
        ys = ((0, 3), (2, 1), (-3, 2), (0, 0), (-1, 3))
    return tuple((x0, y0, ny, nx) for (x0, nx) in xs for (y0, ny) in ys)


_PAIR_CACHE = {}


def _binop(op, base, mx, my, x, y):
    """Result of the real binary operation on two family members, memoised per process."""
    k = (op, base, mx, my)
    v = _PAIR_CACHE.get(k)
    if v is None:
        v = call((lambda: x | y) if op == "|" else (lambda: x & y))
        _PAIR_CACHE[k] = v
    return v


def gen_triples(tier):
    mem = triple_members(tier)
    n = len(mem)

    def gen():
        for base in BASE_NAMES:
            for i, j, k in itertools.product(range(n), repeat=3):
                yield (base, mem[i], mem[j], mem[k])

    return gen


def run_triple(case):
    base, ma, mb, mc = case
    a, b, c = gb(base, ma), gb(base, mb), gb(base, mc)
    rects = [rect(ma), rect(mb), rect(mc)]
    n_empty = sum(r_empty(x) for x in rects)
    has_i = not r_empty(inter(rects))
    r = R(outcome=f"{base}:empty-operands{n_empty}:{'shared' if has_i else 'no-shared'}",
          nontrivial=len({ma, mb, mc}) == 3)
    what = show(base, ma, mb, mc)
    tag = "with-empty" if n_empty else ("shared" if has_i else "no-shared")

    ab, bc = _binop("|", base, ma, mb, a, b), _binop("|", base, mb, mc, b, c)
    if ab[0] == "ok" and bc[0] == "ok":
        left, right = call(lambda: ab[1] | c), call(lambda: a | bc[1])
        judge_union(r, base, left, rects, "triple-" + tag, f"(a|b)|c {what}")
        judge_union(r, base, right, rects, "triple-" + tag, f"a|(b|c) {what}")
        same_result(r, base, left, right, f"union:not-associative:{tag}:{base}", f"(a|b)|c vs a|(b|c) {what}")
        nary = call(geobox_union_conservative, [a, b, c])
        judge_union(r, base, nary, rects, "nary-" + tag, f"geobox_union_conservative([a,b,c]) {what}")
        same_result(r, base, left, nary, f"union:nary-differs-from-binary:{tag}:{base}", f"(a|b)|c vs union([a,b,c]) {what}")
    # else: the pair itself failed - reported by the pairs slice

    ab, bc = _binop("&", base, ma, mb, a, b), _binop("&", base, mb, mc, b, c)
    if ab[0] == "ok" and bc[0] == "ok":
        left, right = call(lambda: ab[1] & c), call(lambda: a & bc[1])
        judge_inter(r, base, left, rects, "triple-" + tag, f"(a&b)&c {what}")
        judge_inter(r, base, right, rects, "triple-" + tag, f"a&(b&c) {what}")
        same_result(r, base, left, right, f"intersection:not-associative:{tag}:{base}", f"(a&b)&c vs a&(b&c) {what}")
        nary = call(geobox_intersection_conservative, [a, b, c])
        judge_inter(r, base, nary, rects, "nary-" + tag, f"geobox_intersection_conservative([a,b,c]) {what}")
        same_result(r, base, left, nary, f"intersection:nary-differs-from-binary:{tag}:{base}", f"(a&b)&c vs intersection([a,b,c]) {what}")
    return r


# ---------------------------------------------------------------------------------------------
# slice "reject": grids not related by a whole-pixel shift must be rejected with an error
# ---------------------------------------------------------------------------------------------
EPS3 = 2.0**-10  # ~1e-3, dyadic
LINEAR = {
    "scale-both": Affine.scale(1 + EPS3, 1 + EPS3),
    "scale-x": Affine.scale(1 + EPS3, 1.0),
    "scale-y": Affine.scale(1.0, 1 + EPS3),
    "scale-x1e-3": Affine.scale(1.001, 1.0),
    "scale-y1e-3": Affine.scale(1.0, 1.001),
    "pixel-x2": Affine.scale(2.0, 2.0),
    "rot1deg": Affine.rotation(1.0),
    "rot-1deg": Affine.rotation(-1.0),
    "shear-x": Affine(1.0, EPS3, 0.0, 0.0, 1.0, 0.0),
    "shear-y": Affine(1.0, 0.0, 0.0, EPS3, 1.0, 0.0),
    "mirror-x": Affine.scale(-1.0, 1.0),
    "mirror-y": Affine.scale(1.0, -1.0),
    "transpose": Affine(0.0, 1.0, 0.0, 1.0, 0.0, 0.0),
    "rot90": Affine.rotation(90.0),
    # COMBINED differences: each is a product of single differences whose effects cancel in the determinant
    # or in any one-number summary of the linear part
    "combined-mirror-both": Affine.scale(-1.0, -1.0),
    "combined-rot180": Affine.rotation(180.0),
    "combined-scale-2-by-half": Affine.scale(2.0, 0.5),
    "combined-scale-half-by-2": Affine.scale(0.5, 2.0),
    "combined-scale-4-by-quarter": Affine.scale(4.0, 0.25),
    "combined-scale-neg2-by-neghalf": Affine.scale(-2.0, -0.5),
    "combined-scale-1e-3-reciprocal": Affine.scale(1 + EPS3, 1 / (1 + EPS3)),
    "combined-mirror-transpose": Affine(0.0, 1.0, 0.0, 1.0, 0.0, 0.0) * Affine.scale(-1.0, 1.0),
    "combined-transpose-mirror-both": Affine(0.0, -1.0, 0.0, -1.0, 0.0, 0.0),
    "combined-rot90-mirror-x": Affine.rotation(90.0) * Affine.scale(-1.0, 1.0),
    "combined-rot90-mirror-y": Affine.rotation(90.0) * Affine.scale(1.0, -1.0),
    "combined-rot270": Affine.rotation(270.0),
    "combined-shears-cancel-0.5": Affine(1.0, 0.5, 0.0, 0.0, 1.0, 0.0) * Affine(1.0, 0.0, 0.0, -0.5, 1.0, 0.0),
    "combined-shears-cancel-1e-3": Affine(1.0, EPS3, 0.0, 0.0, 1.0, 0.0) * Affine(1.0, 0.0, 0.0, EPS3, 1.0, 0.0),
    "combined-shears-unimodular-2-1-1-1": Affine(2.0, 1.0, 0.0, 1.0, 1.0, 0.0),
}
RESIDUES_D = (0.0, EPS3, -EPS3, 0.25, -0.25, 0.5, -0.5)
RESIDUES_R = (0.0, 1e-3, -1e-3, 0.25, -0.25, 0.5, -0.5)
TINY = (2.0**-30, -(2.0**-30), 1e-9, -1e-9)  # below the documented alignment tolerance (1e-8 px)

REJ_A = ((0, 0, 2, 3), (1, -2, 0, 2), (-3, 2, 3, 1))
REJ_B = ((0, 0, 2, 2), (2, -1, 0, 3), (-1, 1, 3, 2))


def gen_reject():
    for base in BASE_NAMES:
        res = RESIDUES_D if is_exact(base) else RESIDUES_R
        for ma in REJ_A:
            # origin on the opposite corner of a, same shape: for mirror-both / rot180 exactly the footprint of a
            for name in LINEAR:
                yield (base, ma, (ma[0] + ma[3], ma[1] + ma[2], ma[2], ma[3]), ("linear", name, 0.0, 0.0))
            for mb in REJ_B:
                for name in LINEAR:
                    yield (base, ma, mb, ("linear", name, 0.0, 0.0))
                    yield (base, ma, mb, ("linear", name, 0.25, 0.0))
                for rx in res:
                    for ry in res:
                        if rx != 0.0 or ry != 0.0:
                            yield (base, ma, mb, ("residue", "", rx, ry))
                for t in TINY:
                    yield (base, ma, mb, ("tiny", "", t, 0.0))
                    yield (base, ma, mb, ("tiny", "", 0.0, t))
                    yield (base, ma, mb, ("tiny", "", t, -t))


def run_reject(case):
    base, ma, mb, (kind, name, rx, ry) = case
    a = gb(base, ma)
    a2 = gb(base, (ma[0] + 1, ma[1] - 1, 2, 2))  # a compatible companion for the n-ary forms
    tx, ty, ny, nx = mb
    A = BASES[base][0] * Affine.translation(tx + rx, ty + ry)
    if kind == "linear":
        A = A * LINEAR[name]
    b = GeoBox((ny, nx), A, crs_of(base))
    ops = {
        "a|b": lambda: a | b,
        "b|a": lambda: b | a,
        "a&b": lambda: a & b,
        "b&a": lambda: b & a,
        "a.overlap_roi(b)": lambda: a.overlap_roi(b),
        "b.overlap_roi(a)": lambda: b.overlap_roi(a),
        "union([a,a2,b])": lambda: geobox_union_conservative([a, a2, b]),
        "intersection([a,a2,b])": lambda: geobox_intersection_conservative([a, a2, b]),
        "bounding_box_in_pixel_domain(b,a)": lambda: bounding_box_in_pixel_domain(b, a),
    }
    got = {k: call(f) for k, f in ops.items()}
    cls = name if kind == "linear" else (
        "residue-" + "+".join(f"{ax}{abs(v):g}" for ax, v in (("x", rx), ("y", ry)) if v != 0.0))
    what = f"base={base} a=shift({ma[0]},{ma[1]}) shape({ma[2]},{ma[3]}) b=shift({tx}+{rx!r},{ty}+{ry!r}) shape({ny},{nx}) {kind} {name}"
    if kind != "tiny":
        etypes = sorted({type(v[1]).__name__ for v in got.values() if v[0] == "raised"})
        r = R(outcome=f"{base}:{kind}:{'+'.join(etypes) or 'accepted'}")
        for k, v in got.items():
            if v[0] != "raised":
                opn = k.split("(")[0] if "(" in k else k
                r.fail(f"reject:accepted-incompatible-grid:{opn}:{cls}:{base}",
                       f"{k} returned {v[1]!r} although the grids are not related by a whole-pixel shift; {what}")
        return r
    # |residue| ~1e-9 px is below the documented alignment tolerance: either outcome is fine, but an
    # accepted result must be the answer on the common grid (1e-6 px)
    n_ok = sum(v[0] == "ok" for v in got.values())
    r = R(outcome=f"{base}:tiny:{'accepted' if n_ok == len(got) else 'rejected' if n_ok == 0 else 'mixed'}")
    ra, rb = rect(ma), rect(mb)
    for k, rects in (("a|b", [ra, rb]), ("b|a", [rb, ra])):
        if got[k][0] == "ok":
            judge_union(r, base, got[k], rects, "tiny-residue", f"{k} {what}", TOL_PX, TOL_LIN)
    for k, rects in (("a&b", [ra, rb]), ("b&a", [rb, ra])):
        if got[k][0] == "ok":
            judge_inter(r, base, got[k], rects, "tiny-residue", f"{k} {what}", TOL_PX, TOL_LIN)
    return r


# ---------------------------------------------------------------------------------------------
# slice "reject-nary": an incompatible operand must be rejected wherever it stands in the list, also when the
# compatible operands already have no pixel in common (gap) or one of them is empty
# ---------------------------------------------------------------------------------------------
NARY_A = (0, 0, 2, 3)
NARY_B = {
    "gap-both-axes": (5, -6, 2, 2),
    "gap-x-only": (6, 0, 2, 2),
    "gap-y-only": (1, 5, 3, 2),
    "empty-rows": (1, 1, 0, 2),
    "empty-cols-far": (7, 7, 3, 0),
    "overlapping": (1, 1, 2, 2),
}
NARY_BAD = ("subpixel-x0.25", "subpixel-y0.5", "subpixel-1e-3", "pixel-x2", "scale-1e-3", "rot1deg", "mirror-both", "other-crs")
NARY_BAD_AT = ((1, 1, 2, 2), (-4, 9, 1, 3))
OTHER_CRS = "EPSG:3577"


def _bad_geobox(base, bad, m):
    tx, ty, ny, nx = m
    A0 = BASES[base][0]
    crs = crs_of(base)
    if bad == "subpixel-x0.25":
        A = A0 * Affine.translation(tx + 0.25, ty)
    elif bad == "subpixel-y0.5":
        A = A0 * Affine.translation(tx, ty + 0.5)
    elif bad == "subpixel-1e-3":
        A = A0 * Affine.translation(tx + EPS3, ty - EPS3)
    elif bad == "pixel-x2":
        A = A0 * Affine.translation(tx, ty) * Affine.scale(2.0, 2.0)
    elif bad == "scale-1e-3":
        A = A0 * Affine.translation(tx, ty) * Affine.scale(1 + EPS3, 1 + EPS3)
    elif bad == "rot1deg":
        A = A0 * Affine.translation(tx, ty) * Affine.rotation(1.0)
    elif bad == "mirror-both":
        A = A0 * Affine.translation(tx + nx, ty + ny) * Affine.scale(-1.0, -1.0)
    elif bad == "other-crs":
        A = A0 * Affine.translation(tx, ty)
        if OTHER_CRS not in _CRS:
            _CRS[OTHER_CRS] = CRS(OTHER_CRS)
        crs = _CRS[OTHER_CRS]
    else:
        raise ValueError(bad)
    return GeoBox((ny, nx), A, crs)


def gen_reject_nary():
    for base in BASE_NAMES:
        for bname in NARY_B:
            for bad in NARY_BAD:
                for at in range(len(NARY_BAD_AT)):
                    for order in itertools.permutations("abX"):
                        yield (base, bname, bad, at, "".join(order))


def run_reject_nary(case):
    base, bname, bad, at, order = case
    objs = {"a": gb(base, NARY_A), "b": gb(base, NARY_B[bname]), "X": _bad_geobox(base, bad, NARY_BAD_AT[at])}
    lst = [objs[c] for c in order]
    got = {
        "union": call(geobox_union_conservative, lst),
        "intersection": call(geobox_intersection_conservative, lst),
    }
    r = R(outcome=f"{base}:{bname}:X-at-{order.index('X')}:"
                  + ("+".join(sorted({type(v[1]).__name__ for v in got.values() if v[0] == 'raised'})) or "accepted"))
    what = (f"base={base} list order {order} with a=shift(0,0) shape(2,3), b={bname} {NARY_B[bname]}, "
            f"X={bad} at {NARY_BAD_AT[at]} (not on the common grid)")
    for op, v in got.items():
        if v[0] != "raised":
            r.fail(f"reject:nary-accepted-incompatible-operand:{op}:{bad}:order-{order}:{bname}:{base}",
                   f"{op} returned {v[1]!r} although operand X is not related to the others by a whole-pixel shift; {what}")
    return r


# ---------------------------------------------------------------------------------------------
# slice "snap": snap_to moves by at most half a pixel onto the other grid
# ---------------------------------------------------------------------------------------------
PERT_D = (0.0, 2.0**-30, -(2.0**-30), EPS3, -EPS3, 0.25, -0.25, 0.5, -0.5)
PERT_R = (0.0, 1e-9, -1e-9, 1e-3, -1e-3, 0.25, -0.25, 0.5, -0.5)


def perts(base):
    return PERT_D if is_exact(base) else PERT_R


def gen_snap():
    for base in BASE_NAMES:
        for shape in ((2, 3), (0, 1)):
            for k, l in itertools.product((-2, 0, 3), repeat=2):
                for dx in perts(base):
                    for dy in perts(base):
                        for mb in ((0, 0, 3, 3), (5, -7, 1, 0)):
                            yield (base, shape, (k, l), (dx, dy), mb)


def run_snap(case):
    base, shape, (k, l), (dx, dy), mb = case
    a = GeoBox(shape, BASES[base][0] * Affine.translation(k + dx, l + dy), crs_of(base))
    b = gb(base, mb)

    def mag(d):
        d = abs(d)
        return "0" if d == 0 else "tiny" if d < 1e-8 else "1e-3" if d < 0.01 else f"{d:g}"

    r = R(outcome=f"{base}:dx{mag(dx)}:dy{mag(dy)}", nontrivial=(dx, dy) != (0.0, 0.0))
    what = f"base={base} a=shift({k}+{dx!r},{l}+{dy!r}) shape{shape} snap_to b=shift({mb[0]},{mb[1]})"
    got = call(a.snap_to, b)
    if got[0] == "raised":
        return r.fail(f"snap_to:raised:{base}", f"{what}: {type(got[1]).__name__}: {got[1]}")
    s = got[1]
    if not isinstance(s, GeoBox) or tuple(s.shape) != tuple(shape) or s.crs != a.crs:
        return r.fail(f"snap_to:shape-or-crs-changed:{base}", f"{what}: {s!r}")
    # movement, in pixels of a (exact rational arithmetic on the float affines)
    ma_, mb_, mc, md, me, mf = mul6(inv6(fr6(a.affine)), fr6(s.affine))
    _, tl = tols(base)
    if abs(ma_ - 1) > tl or abs(mb_) > tl or abs(md) > tl or abs(me - 1) > tl:
        r.fail(f"snap_to:not-a-translation:{base}", f"{what}: {s!r}")
    half = Fr(1, 2) + (Fr(0) if is_exact(base) else TOL_PX)
    if abs(mc) > half or abs(mf) > half:
        r.fail(f"snap_to:moves-more-than-half-pixel:dx{mag(dx)}:dy{mag(dy)}:{base}",
               f"{what}: moved by ({float(mc)!r}, {float(mf)!r}) pixels")
    # on the grid of b: exact on D unless the offset is below the alignment tolerance (1e-8 px), where
    # staying put is accepted within 1e-6 px
    tiny = any(0 < abs(d) < 1e-8 for d in (dx, dy))
    tol = Fr(0) if (is_exact(base) and not tiny) else TOL_PX
    st, _, _ = locate(base, s, tol, tl)
    if st != "ok":
        r.fail(f"snap_to:result-off-grid:dx{mag(dx)}:dy{mag(dy)}:{base}", f"{what}: {s!r} ({st})")
    return r


# ---------------------------------------------------------------------------------------------
# slice "enclosing": same-CRS regions
# ---------------------------------------------------------------------------------------------
def enc_space(tier):
    if tier == "thorough":
        return dict(pert=range(9), wh=(0, 1, 3), origin=((-2, 1), (3, -4)))
    return dict(pert=(0, 1, 2, 5, 6, 7, 8), wh=(0, 2), origin=((-2, 1),))


def gen_enclosing(tier):
    sp = enc_space(tier)

    def gen():
        for base in BASE_NAMES:
            for (x0, y0) in sp["origin"]:
                for w, h in itertools.product(sp["wh"], repeat=2):
                    for d in itertools.product(sp["pert"], repeat=4):
                        for kind in ("bbox", "poly"):
                            yield (base, (x0, y0, w, h), d, kind)

    return gen


def _world(base, px, py):
    """World position of base-pixel location (px, py) as floats; exact on D (asserted)."""
    A = BASES[base][0]
    if is_exact(base):
        wx, wy = apply6(fr6(A), Fr(px), Fr(py))
        fx, fy = float(wx), float(wy)
        if Fr(fx) != wx or Fr(fy) != wy:
            raise AssertionError(f"dyadic alphabet not exact in binary64: {base} {px} {py}")
        return fx, fy
    return A * (px, py)


def _judge_enclosing(r, base, got, tb, tol, keytail, what):
    """tb = true pixel bounding box of the region (exact or sampled) in base pixels."""
    if got[0] == "raised":
        r.fail(f"enclosing:raised:{keytail}", f"{what}: {type(got[1]).__name__}: {got[1]}")
        return None
    st, g, _ = locate(base, got[1])
    if st != "ok":
        r.fail(f"enclosing:{st}:{keytail}", f"{what}: {got[1]!r} is not on the source grid ({st})")
        return None
    sides = (("xmin", tb[0] - g[0]), ("ymin", tb[1] - g[1]), ("xmax", g[2] - tb[2]), ("ymax", g[3] - tb[3]))
    for side, excess in sides:
        if excess < -tol:
            r.fail(f"enclosing:region-not-covered:{side}:{keytail}",
                   f"{what}: result pixel rectangle {g} does not cover the region, whose pixel bounding box is "
                   f"{tuple(float(v) for v in tb)} ({side} short by {float(-excess):.3g} px)")
        elif not excess < 1 + tol:
            r.fail(f"enclosing:excess-1px-or-more:{side}:{keytail}",
                   f"{what}: result pixel rectangle {g} exceeds the region's pixel bounding box "
                   f"{tuple(float(v) for v in tb)} by {float(excess):.9g} px at {side}")
    return g


def run_enclosing(case):
    base, (x0, y0, w, h), d, kind = case
    P = perts(base)
    X0, Y0, X1, Y1 = x0 + P[d[0]], y0 + P[d[1]], x0 + w + P[d[2]], y0 + h + P[d[3]]
    if not (X1 > X0 and Y1 > Y0):
        return R(outcome="skipped:region-without-area", nontrivial=False)
    ring = [_world(base, px, py) for px, py in ((X0, Y0), (X1, Y0), (X1, Y1), (X0, Y1))]
    crs = crs_of(base)
    if kind == "poly":
        verts = ring
        region = geom.polygon(ring + ring[:1], crs)
    else:
        xs, ys = [p[0] for p in ring], [p[1] for p in ring]
        bb = (min(xs), min(ys), max(xs), max(ys))
        verts = [(bb[0], bb[1]), (bb[2], bb[1]), (bb[2], bb[3]), (bb[0], bb[3])]
        region = BoundingBox(*bb, crs)
    # true pixel bounding box: exact image of the region's (float) vertices under the inverse base affine
    inv = base_inv(base)
    pts = [apply6(inv, Fr(x), Fr(y)) for x, y in verts]
    tb = (min(p[0] for p in pts), min(p[1] for p in pts), max(p[0] for p in pts), max(p[1] for p in pts))
    src = gb(base, (1, -2, 2, 3))
    tol = tols(base)[0]
    span = "sub-pixel" if (tb[2] - tb[0] < 1 or tb[3] - tb[1] < 1) else "multi-pixel"
    r = R(outcome=f"{base}:{kind}:{span}")
    what = f"base={base} src=shift(1,-2) region={kind} pixel-corners=({X0!r},{Y0!r})..({X1!r},{Y1!r}) world={verts}"
    got = call(src.enclosing, region)
    _judge_enclosing(r, base, got, tb, tol, f"{kind}:{base}", what)
    return r


# ---------------------------------------------------------------------------------------------
# slice "enclosing-xcrs": regions given in another CRS
# ---------------------------------------------------------------------------------------------
XGRIDS = {
    "utm30m": (Affine(30.0, 0.0, 512345.0, 0.0, -30.0, 6012345.0), "EPSG:32633"),
    "utm30m-rot30": (Affine.translation(500000.0, 6000000.0) * Affine.rotation(30.0) * Affine.scale(30.0, -30.0), "EPSG:32633"),
    "webmerc100m": (Affine(100.0, 0.0, 1650000.0, 0.0, -100.0, 7250000.0), "EPSG:3857"),
}
# (name, crs, (x0, y0, x1, y1)) boxes in their own CRS
XBOXES = (
    ("lonlat-0.5deg-across-central-meridian", "EPSG:4326", (14.75, 54.0, 15.25, 54.2)),
    ("lonlat-0.1deg", "EPSG:4326", (15.1, 54.1, 15.2, 54.15)),
    ("lonlat-1deg", "EPSG:4326", (16.0, 53.0, 17.0, 54.0)),
    ("lonlat-0.002deg", "EPSG:4326", (14.999, 54.2, 15.001, 54.201)),
    ("utm-20km", "EPSG:32633", (510000.0, 6000000.0, 530000.0, 6020000.0)),
    ("webmerc-20km", "EPSG:3857", (1650000.0, 7200000.0, 1670000.0, 7220000.0)),
)
_TR = {}


def _tr(src, dst):
    k = (src, dst)
    if k not in _TR:
        _TR[k] = pyproj.Transformer.from_crs(pyproj.CRS.from_user_input(src), pyproj.CRS.from_user_input(dst), always_xy=True)
    return _TR[k]


def _pix_of(inv_f, tr, xs, ys):
    X, Y = tr.transform(np.asarray(xs, dtype="float64"), np.asarray(ys, dtype="float64"))
    a, b, c, d, e, f = inv_f
    return a * X + b * Y + c, d * X + e * Y + f


def region_pixel_bbox(ring, tr, inv_f, n=129, rounds=3):
    """Pixel bounding box of a polygon whose edges are straight in its own CRS: brute force over points of
    every edge (n per edge), refined around each extreme.  -> (vertex bbox, boundary bbox)"""
    ring = list(ring)
    edges = list(zip(ring, ring[1:] + ring[:1]))
    t = np.linspace(0.0, 1.0, n)
    PX, PY = [], []
    for (p, q) in edges:
        px, py = _pix_of(inv_f, tr, p[0] + t * (q[0] - p[0]), p[1] + t * (q[1] - p[1]))
        PX.append(px)
        PY.append(py)
    PX, PY = np.asarray(PX), np.asarray(PY)
    vb = (PX[:, 0].min(), PY[:, 0].min(), PX[:, 0].max(), PY[:, 0].max())
    out = []
    for arr_i, fn in ((0, np.argmin), (1, np.argmin), (0, np.argmax), (1, np.argmax)):
        arr = (PX, PY)[arr_i]
        ei, ti = np.unravel_index(fn(arr), arr.shape)
        best = arr[ei, ti]
        lo, hi = t[max(ti - 1, 0)], t[min(ti + 1, n - 1)]
        p, q = edges[ei]
        for _ in range(rounds):
            tt = np.linspace(lo, hi, n)
            v = _pix_of(inv_f, tr, p[0] + tt * (q[0] - p[0]), p[1] + tt * (q[1] - p[1]))[arr_i]
            j = int(fn(v))
            best = min(best, v[j]) if fn is np.argmin else max(best, v[j])
            lo, hi = tt[max(j - 1, 0)], tt[min(j + 1, n - 1)]
        out.append(float(best))
    return vb, tuple(out)


XQ_PERT = (0.0, 1e-9, -1e-9, 1e-3, -1e-3, 0.25, -0.5)

# regions given in a PROJECTED CRS on grids in a different CRS (geographic or projected), north-up and mirrored,
# coarse and fine, so that the same region spans a few pixels on one grid and several hundred on another
PGRIDS = {
    "lonlat0.1deg": (Affine(0.1, 0.0, 0.03, 0.0, -0.1, 70.07), "EPSG:4326"),
    "lonlat0.01deg-mirrored": (Affine(-0.01, 0.0, 40.003, 0.0, 0.01, 30.007), "EPSG:4326"),
    "webmerc10km": (Affine(10000.0, 0.0, 1000123.0, 0.0, -10000.0, 8000456.0), "EPSG:3857"),
    "webmerc1km-mirrored": (Affine(1000.0, 0.0, 1000123.0, 0.0, 1000.0, 6000456.0), "EPSG:3857"),
    "utm10km": (Affine(10000.0, 0.0, 200123.0, 0.0, -10000.0, 6500456.0), "EPSG:32633"),
    "utm1km-mirrored": (Affine(-1000.0, 0.0, 900123.0, 0.0, -1000.0, 6500456.0), "EPSG:32633"),
    "laea10km": (Affine(10000.0, 0.0, 4000123.0, 0.0, -10000.0, 3600456.0), "EPSG:3035"),
}
PREGION_CRS = {"utm33n": "EPSG:32633", "laea3035": "EPSG:3035", "webmerc": "EPSG:3857"}
PCENTRES = ((15.0, 52.0), (19.0, 54.0), (12.3, 47.5))  # lon, lat of the box centre (on / off the UTM central meridian)
PWIDTHS_KM = (30, 100, 300, 600)
PASPECT = (1.0, 0.5)  # height / width


def _proj_box(rname, ci, w_km, aspect):
    """Box in the projected CRS `rname`, centred near PCENTRES[ci] (centre snapped to a km + 123 m)."""
    rcrs = PREGION_CRS[rname]
    cx, cy = _tr("EPSG:4326", rcrs).transform(*PCENTRES[ci])
    cx, cy = round(float(cx), -3) + 123.0, round(float(cy), -3) + 123.0
    hw, hh = w_km * 500.0, w_km * 500.0 * aspect
    return rcrs, (cx - hw, cy - hh, cx + hw, cy + hh)


def gen_xcrs():
    for grid in XGRIDS:
        for name, crs, _ in XBOXES:
            if crs != XGRIDS[grid][1]:
                for kind in ("bbox", "poly"):
                    yield ("box", grid, name, kind)
    # small quadrilaterals whose vertices sit at perturbed pixel corners of the grid, expressed in lon/lat
    for grid in ("utm30m", "utm30m-rot30"):
        for (x0, y0, w, h) in ((-2, 1, 1, 3), (40, -30, 0, 2)):
            for d in itertools.product(range(len(XQ_PERT)), repeat=4):
                yield ("quad", grid, (x0, y0, w, h), d)
    # boxes in a projected CRS on grids of another CRS
    for grid in PGRIDS:
        for rname, rcrs in PREGION_CRS.items():
            if rcrs == PGRIDS[grid][1]:
                continue
            for ci in range(len(PCENTRES)):
                for w_km in PWIDTHS_KM:
                    for aspect in PASPECT:
                        for kind in ("bbox", "poly"):
                            yield ("proj", grid, rname, ci, w_km, aspect, kind)


def run_xcrs(case):
    fam, grid = case[0], case[1]
    A, gcrs = XGRIDS[grid] if grid in XGRIDS else PGRIDS[grid]
    if gcrs not in _CRS:
        _CRS[gcrs] = CRS(gcrs)
    src = GeoBox((4, 5), A * Affine.translation(3, -2), _CRS[gcrs])
    inv = inv6(fr6(A))
    inv_f = tuple(float(v) for v in inv)
    if fam == "box":
        _, _, name, kind = case
        _, rcrs, bb = next(b for b in XBOXES if b[0] == name)
        ring = [(bb[0], bb[1]), (bb[2], bb[1]), (bb[2], bb[3]), (bb[0], bb[3])]
        region = BoundingBox(*bb, rcrs) if kind == "bbox" else geom.polygon(ring + ring[:1], rcrs)
        regname = name
        what = f"grid={grid} region={kind} {name} {bb} in {rcrs}"
    elif fam == "proj":
        _, _, rname, ci, w_km, aspect, kind = case
        rcrs, bb = _proj_box(rname, ci, w_km, aspect)
        ring = [(bb[0], bb[1]), (bb[2], bb[1]), (bb[2], bb[3]), (bb[0], bb[3])]
        region = BoundingBox(*bb, rcrs) if kind == "bbox" else geom.polygon(ring + ring[:1], rcrs)
        regname = f"projected-region-{rname}-{w_km}km"
        what = f"grid={grid} ({gcrs}) region={kind} {bb} in {rcrs} (projected CRS, {w_km} km wide, centre near lon/lat {PCENTRES[ci]})"
    else:
        _, _, (x0, y0, w, h), d = case
        P = XQ_PERT
        X0, Y0, X1, Y1 = x0 + P[d[0]], y0 + P[d[1]], x0 + w + P[d[2]], y0 + h + P[d[3]]
        if not (X1 > X0 and Y1 > Y0):
            return R(outcome="skipped:region-without-area", nontrivial=False)
        rcrs = "EPSG:4326"
        back = _tr(gcrs, rcrs)
        ring = []
        for px, py in ((X0, Y0), (X1, Y0), (X1, Y1), (X0, Y1)):
            wx, wy = A * (px, py)
            lon, lat = back.transform(wx, wy)
            ring.append((float(lon), float(lat)))
        region = geom.polygon(ring + ring[:1], rcrs)
        regname = "lonlat-quad-few-pixels"
        what = f"grid={grid} region=polygon {ring} in EPSG:4326 (pixel corners ({X0!r},{Y0!r})..({X1!r},{Y1!r}))"
    vb, tb = region_pixel_bbox(ring, _tr(rcrs, gcrs), inv_f)
    r = R(outcome=f"{grid}:{fam}")
    if fam == "proj":
        span = max(tb[2] - tb[0], tb[3] - tb[1])
        r.outcome += f":{case[2]}:" + ("<10px" if span < 10 else "<100px" if span < 100 else ">=100px")
    got = call(src.enclosing, region)
    if got[0] == "raised":
        return r.fail(f"enclosing:raised:other-crs:{grid}", f"{what}: {type(got[1]).__name__}: {got[1]}")
    # locate on the grid (the three grids are not in BASES: do it by hand)
    g = got[1]
    if not isinstance(g, GeoBox):
        return r.fail(f"enclosing:not-a-geobox:other-crs:{grid}", f"{what}: {g!r}")
    m = mul6(inv, fr6(g.affine))
    rx, ry = round(m[2]), round(m[5])
    if (g.crs != src.crs or abs(m[0] - 1) > TOL_LIN or abs(m[1]) > TOL_LIN or abs(m[3]) > TOL_LIN
            or abs(m[4] - 1) > TOL_LIN or abs(m[2] - rx) > TOL_PX or abs(m[5] - ry) > TOL_PX):
        return r.fail(f"enclosing:off-grid:other-crs:{grid}", f"{what}: {g!r} is not on the source grid")
    ny, nx = g.shape
    gr = (rx, ry, rx + nx, ry + ny)
    tol = float(TOL_PX)
    r.outcome += ":curved-edge-matters" if any(abs(a - b) > tol for a, b in zip(vb, tb)) else ":vertices-are-extreme"
    for i, side in enumerate(("xmin", "ymin", "xmax", "ymax")):
        sgn = 1 if i < 2 else -1
        ex_v = sgn * (vb[i] - gr[i])  # distance by which the result extends beyond the vertex bounding box
        ex_t = sgn * (tb[i] - gr[i])  # ... beyond the region's true bounding box (curved edges)
        if ex_v < -tol:
            r.fail(f"enclosing:vertex-not-covered:other-crs:{grid}",
                   f"{what}: result pixel rectangle {gr} misses a vertex of the region at {side} by {-ex_v:.3g} px")
        elif ex_t < -tol:
            r.fail(f"enclosing:curved-edge-not-covered:other-crs:{grid}:{regname}",
                   f"{what}: result pixel rectangle {gr} covers the region's vertices (pixel bbox {vb}) but not its edges, "
                   f"which are curved in the grid's CRS (pixel bbox of the boundary {tb}): {side} short by {-ex_t:.3g} px")
        if not ex_t < 1 + tol:
            r.fail(f"enclosing:excess-1px-or-more:other-crs:{grid}:{regname}",
                   f"{what}: result pixel rectangle {gr} exceeds the region's pixel bounding box {tb} by {ex_t:.9g} px at {side}")
    return r


# ---------------------------------------------------------------------------------------------
# slices "bbox-pairs" / "bbox-triples": lattice laws of BoundingBox | and &
# ---------------------------------------------------------------------------------------------
def bbox_alphabet(tier):
    return (-2, -0.5, 0, 1, 3) if tier == "thorough" else (-2, 0, 1, 3)


def boxes(tier):
    v = bbox_alphabet(tier)
    iv = [(a, b) for a in v for b in v if a <= b]
    return [(x0, y0, x1, y1) for (x0, x1) in iv for (y0, y1) in iv]


BB_CRS = (None, "EPSG:3857")
_BOXES = {}


def _boxes(tier):
    if tier not in _BOXES:
        _BOXES[tier] = boxes(tier)
    return _BOXES[tier]


def gen_bbox_pairs(tier, ncrs=len(BB_CRS)):
    def gen():
        n = len(_boxes(tier))
        for c in range(ncrs):
            for i in range(n):
                for j in range(n):
                    yield (c, i, j)

    return gen


def _bb_is_empty(t):
    return t[0] > t[2] or t[1] > t[3]


def _bb_cls(a, b):
    i = (max(a[0], b[0]), max(a[1], b[1]), min(a[2], b[2]), min(a[3], b[3]))
    if _bb_is_empty(i):
        return "disjoint"
    if i[0] == i[2] or i[1] == i[3]:
        return "touching"
    if i in (a, b):
        return "nested"
    return "overlapping"


def _bb_ok(r, x, crs, key, what):
    if not isinstance(x, BoundingBox) or x.crs != crs:
        r.fail(key + ":type-or-crs", f"{what}: {x!r}")
        return False
    return True


def make_run_bbox_pair(tier):
    def run(case):
        c, i, j = case
        B = _boxes(tier)
        crs = BB_CRS[c] if BB_CRS[c] is None else CRS(BB_CRS[c])
        ta, tb = B[i], B[j]
        a, b = BoundingBox(*ta, crs), BoundingBox(*tb, crs)
        cls = _bb_cls(ta, tb)
        r = R(outcome=f"bbox:{cls}", nontrivial=i != j)
        what = f"a={ta} b={tb} crs={BB_CRS[c]}"
        u, u2, n, n2 = a | b, b | a, a & b, b & a
        for x, k in ((u, "union"), (u2, "union"), (n, "intersection"), (n2, "intersection")):
            if not _bb_ok(r, x, crs, f"bbox-{k}", what):
                return r
        if u != u2 or hash(u) != hash(u2):
            r.fail(f"bbox-union:not-commutative:{cls}", f"{what}: a|b={u} b|a={u2}")
        if n != n2:
            r.fail(f"bbox-intersection:not-commutative:{cls}", f"{what}: a&b={n} b&a={n2}")
        # union is the smallest box containing both; intersection is the set of shared points
        want_u = (min(ta[0], tb[0]), min(ta[1], tb[1]), max(ta[2], tb[2]), max(ta[3], tb[3]))
        if tuple(u) != want_u:
            r.fail(f"bbox-union:not-smallest-enclosing:{cls}", f"{what}: a|b={tuple(u)} want {want_u}")
        for o, name in ((ta, "a"), (tb, "b")):
            if not contains(tuple(u), o):
                r.fail(f"bbox-union:does-not-contain-operand:{cls}", f"{what}: a|b={tuple(u)} does not contain {name}")
            if not _bb_is_empty(tuple(n)) and not contains(o, tuple(n)):
                r.fail(f"bbox-intersection:not-contained-in-operand:{cls}", f"{what}: a&b={tuple(n)} not inside {name}")
        want_n = (max(ta[0], tb[0]), max(ta[1], tb[1]), min(ta[2], tb[2]), min(ta[3], tb[3]))
        if _bb_is_empty(want_n):
            if not _bb_is_empty(tuple(n)):
                r.fail(f"bbox-intersection:disjoint-but-not-empty:{cls}", f"{what}: a&b={tuple(n)}")
        elif tuple(n) != want_n:
            r.fail(f"bbox-intersection:wrong-box:{cls}", f"{what}: a&b={tuple(n)} want {want_n}")
        # idempotent, absorbing
        if (a | a) != a or (a & a) != a:
            r.fail("bbox:not-idempotent", f"a={ta}: a|a={a | a} a&a={a & a}")
        if (a | (a & b)) != a:
            r.fail(f"bbox:absorption-union-over-intersection:{cls}", f"{what}: a|(a&b)={a | (a & b)}")
        if (a & (a | b)) != a:
            r.fail(f"bbox:absorption-intersection-over-union:{cls}", f"{what}: a&(a|b)={a & (a | b)}")
        # function forms on lists and generators
        if bbox_union([a, b]) != u or bbox_union(x for x in (a, b)) != u:
            r.fail("bbox-union:function-form", f"{what}")
        if bbox_intersection([a, b]) != n or bbox_intersection(x for x in (a, b)) != n:
            r.fail("bbox-intersection:function-form", f"{what}")
        return r

    return run


def make_run_bbox_triples(tier):
    def run(case):
        """case = ordered pair; the third operand ranges over the whole alphabet inside."""
        c, i, j = case
        B = _boxes(tier)
        crs = BB_CRS[c] if BB_CRS[c] is None else CRS(BB_CRS[c])
        a, b = BoundingBox(*B[i], crs), BoundingBox(*B[j], crs)
        ab_u, ab_n = a | b, a & b
        r = R(outcome=f"bbox3:{_bb_cls(B[i], B[j])}", nontrivial=i != j)
        bad_u = bad_n = bad_nary = None
        for tc in B:
            cc = BoundingBox(*tc, crs)
            l_u, r_u = ab_u | cc, a | (b | cc)
            l_n, r_n = ab_n & cc, a & (b & cc)
            if l_u != r_u and bad_u is None:
                bad_u = (tc, l_u, r_u)
            if l_n != r_n and bad_n is None:
                bad_n = (tc, l_n, r_n)
            if (bbox_union([a, b, cc]) != l_u or bbox_intersection([a, b, cc]) != l_n) and bad_nary is None:
                bad_nary = (tc, bbox_union([a, b, cc]), bbox_intersection([a, b, cc]))
        r.counts = dict(bbox_triples=len(B))
        if bad_u:
            r.fail("bbox-union:not-associative", f"a={B[i]} b={B[j]} c={bad_u[0]}: (a|b)|c={bad_u[1]} a|(b|c)={bad_u[2]}")
        if bad_n:
            r.fail("bbox-intersection:not-associative", f"a={B[i]} b={B[j]} c={bad_n[0]}: (a&b)&c={bad_n[1]} a&(b&c)={bad_n[2]}")
        if bad_nary:
            r.fail("bbox:nary-differs-from-binary", f"a={B[i]} b={B[j]} c={bad_nary[0]}: {bad_nary[1]} {bad_nary[2]}")
        return r

    return run


# ---------------------------------------------------------------------------------------------
def slices(tier):
    nm = len(triple_members(tier))
    return [
        e1.Slice("pairs", gen_pairs(tier), run_pair,
                 "6 base grids x first operand (every shape) x second operand (every whole-pixel shift x every shape): "
                 "| & overlap_roi in both orders, pixel_translation, bounding_box_in_pixel_domain"),
        e1.Slice("triples", gen_triples(tier), run_triple,
                 f"6 base grids x all ordered triples of a {nm}-member sub-family: associativity of | and &, n-ary forms"),
        e1.Slice("reject", gen_reject, run_reject,
                 "grids differing in pixel size / orientation / shear / sub-pixel residue must raise in every operation; "
                 "residues ~1e-9 px (below the documented tolerance) may be accepted but then must give the common-grid answer"),
        e1.Slice("reject-nary", gen_reject_nary, run_reject_nary,
                 "geobox_union/intersection_conservative on every ordering of [a, b, X]: a, b on the common grid (disjoint with a "
                 "gap, b empty, or overlapping), X with sub-pixel offset / other pixel size / rotated / mirrored / other CRS"),
        e1.Slice("snap", gen_snap, run_snap, "snap_to over whole-pixel shift + sub-pixel perturbation on both axes"),
        e1.Slice("enclosing", gen_enclosing(tier), run_enclosing,
                 "same-CRS regions (BoundingBox and polygon) with every side at a perturbed pixel line"),
        e1.Slice("enclosing-xcrs", gen_xcrs, run_xcrs,
                 "regions in another CRS: lon/lat, UTM and web-mercator boxes; few-pixel lon/lat quadrilaterals with "
                 "perturbed corners; boxes 30-600 km wide in projected CRSs (UTM 33N, LAEA 3035, web-mercator) on lon/lat, "
                 "web-mercator, UTM and LAEA grids (north-up and mirrored, a few to several hundred pixels); "
                 "oracle = fresh pyproj transformer on densely sampled edges"),
        e1.Slice("bbox-pairs", gen_bbox_pairs(tier), make_run_bbox_pair(tier), "all ordered pairs of valid boxes, crs None / 3857"),
        e1.Slice("bbox-triples", gen_bbox_pairs(tier, 1), make_run_bbox_triples(tier),
                 "all ordered triples of valid boxes, crs None (case = ordered pair, third operand enumerated inside)"),
    ]


def main(ctx):
    ctx.rule = (
        "complete Cartesian products: (base grid, whole-pixel shifts, shapes 0..3) for pairs/triples; (incompatibility "
        "kind, members) for rejection; (shift, sub-pixel perturbation^2) for snap_to; (rectangle, perturbation^4, region "
        "kind) for enclosing; valid boxes over a 4-value alphabet for BoundingBox laws. Non-trivial = operands differ / "
        "perturbation non-zero / region has area; distinct by (slice, case) hash"
    )
    ctx.bounds = {
        "bases": {k: [list(v[0])[:6], v[1], "dyadic" if v[2] else "realistic"] for k, v in BASES.items()},
        "pairs": {k: list(v) for k, v in pair_space(ctx.tier).items()},
        "triple_members": len(triple_members(ctx.tier)),
        "perturbations": {"D": list(PERT_D), "R": list(PERT_R)},
        "incompatible": list(LINEAR) + ["residue in {1e-3 (2^-10 on D), 1/4, 1/2}^2"],
        "incompatible_nary": {"b": list(NARY_B), "bad": list(NARY_BAD), "orders": "all 6"},
        "bbox_alphabet": list(bbox_alphabet(ctx.tier)),
        "tolerance": "D: exact; R: 1e-6 px offsets, 1e-9 linear part",
    }
    ctx.assumptions = [
        "a family member's pixel rectangle in the base grid is known from the integers it was built from; results are "
        "located in the base grid by exact rational arithmetic on the float entries of their affine",
        "union with an operand that has 0 rows/columns: both the hull of all operand rectangles (what the code does) and the "
        "hull of the operands that have pixels are accepted as 'smallest GeoBox containing all operands'",
        "results without pixels (empty intersection) are only required to be empty GeoBoxes (a 0 in the shape, nothing "
        "negative); their location is not compared between orders/bracketings",
        "rejection: any exception counts as 'rejected with an error' (ValueError is what the code documents)",
        "residues of ~1e-9 px are below the alignment tolerance documented by bounding_box_in_pixel_domain (1e-8 px): "
        "acceptance or rejection are both fine; snap_to may leave such an offset in place (judged with 1e-6 px)",
        "enclosing: regions have positive area (the code documents a 1x1 result for point regions)",
        "enclosing across CRSs: a region's edges are straight in the region's own CRS; the oracle samples them densely "
        "(129 points per edge, refined 3x around each extreme) through a fresh pyproj transformer",
    ]
    sl = slices(ctx.tier)
    if ctx.only:
        sl = [s for s in sl if any(s.name.startswith(o) for o in ctx.only)]
    e1.run_slices(ctx, sl)
    ctx.extra.update(bbox_triples=int(ctx.counters["bbox_triples"]))


def replay(slice_name, case, tier):
    return e1.replay(slices(tier), slice_name, case).fails
