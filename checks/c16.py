"""C16 - GeoBox and bounding-box set operations respect the common pixel grid.

E1: complete products over families of GeoBoxes derived from a base grid by integer pixel shifts
and arbitrary shapes (0 rows / columns included).  The oracle never looks at the code under test:
every family member is a pixel rectangle ``[tx, tx+nx) x [ty, ty+ny)`` of the base grid, known from
the integers it was built from; results are mapped back into the base grid with exact rational
arithmetic (``fractions.Fraction`` on the float entries of the returned affine) and compared as
pixel rectangles / pixel sets; ``overlap_roi`` is judged by numpy indexing of ``arange`` laid out on
the first operand.  Dyadic bases (D) are compared exactly, realistic bases (R) with 1e-6 pixel.
"""
from __future__ import annotations

import itertools
from fractions import Fraction as Fr

import numpy as np
from affine import Affine

from vf import e1
from vf.core import R

PROPERTY = "C16"
LEVEL = "exploration"

import pyproj  # noqa: E402

from odc.geo import geom  # noqa: E402
from odc.geo.crs import CRS  # noqa: E402
from odc.geo.geobox import (  # noqa: E402
    GeoBox,
    bounding_box_in_pixel_domain,
    geobox_intersection_conservative,
    geobox_union_conservative,
    pixel_translation,
)
from odc.geo.geom import BoundingBox, bbox_intersection, bbox_union  # noqa: E402

# ---------------------------------------------------------------------------------------------
# base grids
# ---------------------------------------------------------------------------------------------
TOL_PX = Fr(1, 10**6)  # DESIGN 3: pixel-unit tolerance on the realistic alphabet
TOL_LIN = Fr(1, 10**9)  # relative tolerance on the linear part (R)

BASES = {
    # dyadic: every intermediate of implementation and oracle is exact in binary64
    "D-northup": (Affine(8.0, 0.0, 524288.0, 0.0, -8.0, 6291456.0), "EPSG:32633", True),
    "D-mirrored": (Affine(-0.5, 0.0, 96.0, 0.0, 0.5, -32.0), "EPSG:4326", True),
    # 45 degree similarity with dyadic entries, determinant -32 (inverse is dyadic too)
    "D-rot45": (Affine(4.0, 4.0, 524288.0, 4.0, -4.0, 6291456.0), "EPSG:32633", True),
    # realistic: 0.1 degree, 1/3 with mirrored axes, 30 m / UTM sized offsets / 30 degree rotation
    "R-northup": (Affine(0.1, 0.0, 140.3, 0.0, -0.1, -35.7), "EPSG:4326", False),
    "R-mirrored": (Affine(-1 / 3, 0.0, 1000.1, 0.0, 1 / 3, 2000.2), "EPSG:3857", False),
    "R-rot30": (
        Affine.translation(500000.0, 6000000.0) * Affine.rotation(30.0) * Affine.scale(30.0, -30.0),
        "EPSG:32633",
        False,
    ),
}
BASE_NAMES = tuple(BASES)
_CRS = {}
_INV = {}
_GB = {}


def crs_of(base):
    c = BASES[base][1]
    if c not in _CRS:
        _CRS[c] = CRS(c)
    return _CRS[c]


def is_exact(base):
    return BASES[base][2]


def tols(base):
    """(pixel tolerance, linear tolerance) for a base."""
    return (Fr(0), Fr(0)) if is_exact(base) else (TOL_PX, TOL_LIN)


# -- exact affine arithmetic on 6-tuples (a, b, c, d, e, f) ---------------------------------------
def fr6(A):
    return tuple(Fr(v) for v in tuple(A)[:6])


def inv6(m):
    a, b, c, d, e, f = m
    det = a * e - b * d
    ra, rb, rd, re = e / det, -b / det, -d / det, a / det
    return (ra, rb, -c * ra - f * rb, rd, re, -c * rd - f * re)


def mul6(m, n):
    a, b, c, d, e, f = m
    A, B, C, D, E, F_ = n
    return (a * A + b * D, a * B + b * E, a * C + b * F_ + c, d * A + e * D, d * B + e * E, d * C + e * F_ + f)


def apply6(m, x, y):
    a, b, c, d, e, f = m
    return (a * x + b * y + c, d * x + e * y + f)


def base_inv(base):
    if base not in _INV:
        _INV[base] = inv6(fr6(BASES[base][0]))
    return _INV[base]


def member_affine(base, tx, ty):
    return BASES[base][0] * Affine.translation(tx, ty)


def gb(base, m):
    """Family member m = (tx, ty, ny, nx): base grid shifted by whole pixels, any shape."""
    k = (base, m)
    g = _GB.get(k)
    if g is None:
        tx, ty, ny, nx = m
        g = GeoBox((ny, nx), member_affine(base, tx, ty), crs_of(base))
        if len(_GB) < 200000:
            _GB[k] = g
    return g


def rect(m):
    tx, ty, ny, nx = m
    return (tx, ty, tx + nx, ty + ny)


def r_empty(r):
    return r[2] <= r[0] or r[3] <= r[1]


def hull(rects):
    return (min(r[0] for r in rects), min(r[1] for r in rects), max(r[2] for r in rects), max(r[3] for r in rects))


def inter(rects):
    return (max(r[0] for r in rects), max(r[1] for r in rects), min(r[2] for r in rects), min(r[3] for r in rects))


def contains(outer, inner):
    return outer[0] <= inner[0] and outer[1] <= inner[1] and outer[2] >= inner[2] and outer[3] >= inner[3]


def locate(base, g, tol_px=None, tol_lin=None):
    """Pixel rectangle of GeoBox ``g`` in the base grid, by exact rational arithmetic.

    -> (status, rect, (fx, fy)) with status in ok / not-a-geobox / crs / negative-shape /
    off-grid-linear / off-grid-offset; fx, fy = exact location of the origin in base pixels.
    """
    if not isinstance(g, GeoBox):
        return ("not-a-geobox", None, None)
    tp, tl = tols(base)
    tol_px = tp if tol_px is None else tol_px
    tol_lin = tl if tol_lin is None else tol_lin
    if g.crs != crs_of(base):
        return ("crs", None, None)
    ny, nx = g.shape
    a, b, c, d, e, f = mul6(base_inv(base), fr6(g.affine))
    if abs(a - 1) > tol_lin or abs(b) > tol_lin or abs(d) > tol_lin or abs(e - 1) > tol_lin:
        return ("off-grid-linear", None, (c, f))
    rx, ry = round(c), round(f)
    if ny < 0 or nx < 0:
        return ("negative-shape", (rx, ry, rx + nx, ry + ny), (c, f))
    if abs(c - rx) > tol_px or abs(f - ry) > tol_px:
        return ("off-grid-offset", None, (c, f))
    return ("ok", (rx, ry, rx + nx, ry + ny), (c, f))


def call(fn, *a, **kw):
    """Run code under test; ('ok', value) or ('raised', exception)."""
    try:
        return ("ok", fn(*a, **kw))
    except Exception as e:  # pylint: disable=broad-except
        return ("raised", e)


def cls1(a0, a1, b0, b1):
    """position of interval b relative to interval a (one axis)"""
    if a1 == a0 or b1 == b0:
        return "e"  # an empty operand on this axis
    if b1 < a0:
        return "B"  # before, with a gap   (above / left of a)
    if b1 == a0:
        return "b"  # before, touching
    if b0 > a1:
        return "A"  # after, with a gap    (below / right of a)
    if b0 == a1:
        return "a"  # after, touching
    return "o"  # overlapping


def rel_of(ra, rb):
    if r_empty(ra) or r_empty(rb):
        return "with-empty"
    cx, cy = cls1(ra[0], ra[2], rb[0], rb[2]), cls1(ra[1], ra[3], rb[1], rb[3])
    if cx == "o" and cy == "o":
        return "overlap"
    if cx in "AB" or cy in "AB":
        return "gap"
    return "touch"


def show(base, *ms):
    return f"base={base} " + " ".join(f"{n}=shift({m[0]},{m[1]}) shape({m[2]},{m[3]})" for n, m in zip("abc", ms))


# -- judging of union / intersection results --------------------------------------------------------
def judge_union(r, base, got, rects, tag, what, tol_px=None, tol_lin=None):
    """got: call() result of a union over operands with pixel rectangles `rects`. -> rect or None"""
    if got[0] == "raised":
        r.fail(f"union:raised-on-common-grid:{tag}:{base}", f"{what}: {type(got[1]).__name__}: {got[1]}")
        return None
    st, g, _ = locate(base, got[1], tol_px, tol_lin)
    if st != "ok":
        r.fail(f"union:{st}:{tag}:{base}", f"{what}: result {got[1]!r} is not a GeoBox of the base grid ({st})")
        return None
    nonempty = [x for x in rects if not r_empty(x)]
    if not all(contains(g, x) for x in nonempty):
        r.fail(f"union:misses-operand-pixels:{tag}:{base}", f"{what}: result rectangle {g} does not contain operands {rects}")
        return g
    # smallest GeoBox containing all operands: the hull of the operand rectangles.  An operand with
    # 0 rows/columns has no pixels but still has a (degenerate) footprint: both readings are accepted.
    ok = g == hull(rects) or (nonempty and g == hull(nonempty)) or (not nonempty and r_empty(g))
    if not ok:
        r.fail(f"union:not-smallest:{tag}:{base}", f"{what}: result rectangle {g}, smallest enclosing {hull(rects)} (operands {rects})")
    return g


def judge_inter(r, base, got, rects, tag, what, tol_px=None, tol_lin=None):
    """-> ('empty'|'rect', rect) or None"""
    if got[0] == "raised":
        r.fail(f"intersection:raised-on-common-grid:{tag}:{base}", f"{what}: {type(got[1]).__name__}: {got[1]}")
        return None
    want = inter(rects)
    g = got[1]
    if r_empty(want):
        # no shared pixels: an empty GeoBox (a 0 in the shape, nothing negative), wherever it sits
        if not isinstance(g, GeoBox) or min(g.shape) < 0 or 0 not in tuple(g.shape) or g.crs != crs_of(base):
            r.fail(f"intersection:no-shared-pixels-but-not-empty:{tag}:{base}",
                   f"{what}: no shared pixels (operands {rects}) but result is {g!r}")
            return None
        return ("empty", None)
    st, gr, _ = locate(base, g, tol_px, tol_lin)
    if st != "ok":
        r.fail(f"intersection:{st}:{tag}:{base}", f"{what}: result {g!r} is not a GeoBox of the base grid ({st})")
        return None
    if gr != want:
        r.fail(f"intersection:wrong-pixels:{tag}:{base}", f"{what}: result rectangle {gr}, shared pixels {want} (operands {rects})")
    return ("rect", gr)


def judge_roi(r, base, a, b, ma, mb, who, kw=None):
    """a.overlap_roi(b) must select exactly the shared pixels of a under numpy indexing."""
    got = call(a.overlap_roi, b, **(kw or {}))
    what = f"{who}.overlap_roi: {show(base, ma, mb) if who == 'a' else show(base, mb, ma)}"
    if got[0] == "raised":
        r.fail(f"overlap_roi:raised-on-common-grid:{base}", f"{what}: {type(got[1]).__name__}: {got[1]}")
        return
    roi = got[1]
    if not (isinstance(roi, tuple) and len(roi) == 2 and all(isinstance(s, slice) for s in roi)):
        r.fail("overlap_roi:not-a-2d-slice", f"{what}: {roi!r}")
        return
    ra, rb = rect(ma), rect(mb)
    _, _, ny, nx = ma
    X = np.arange(ny * nx).reshape(ny, nx)
    sel = X[roi]
    w = inter([ra, rb])
    if r_empty(w):
        want = X[0:0, 0:0]
        ok = sel.size == 0
    else:
        want = X[w[1] - ra[1]:w[3] - ra[1], w[0] - ra[0]:w[2] - ra[0]]
        ok = sel.shape == want.shape and bool((sel == want).all())
    if ok:
        return
    cy, cx = cls1(ra[1], ra[3], rb[1], rb[3]), cls1(ra[0], ra[2], rb[0], rb[2])
    msg = (f"{what}: roi={roi} selects pixels {sel.reshape(-1).tolist()} of the first operand under numpy "
           f"indexing, shared pixels are {want.reshape(-1).tolist()}")
    keyed = False
    sy, sx = roi
    if isinstance(sy.stop, (int, np.integer)) and sy.stop < 0:
        r.fail("overlap_roi:negative-stop:other-above", msg)
        keyed = True
    if isinstance(sx.stop, (int, np.integer)) and sx.stop < 0:
        r.fail("overlap_roi:negative-stop:other-left", msg)
        keyed = True
    if not keyed:
        r.fail(f"overlap_roi:wrong-pixels:y-{cy}:x-{cx}:{base}", msg)


def same_result(r, base, x, y, key, what):
    """Two results of the same operation in a different order/bracketing must be the same grid location
    (both empty counts as same)."""
    if x[0] != "ok" or y[0] != "ok":
        return
    gx, gy = x[1], y[1]
    if not isinstance(gx, GeoBox) or not isinstance(gy, GeoBox):
        return
    if 0 in tuple(gx.shape) and 0 in tuple(gy.shape):
        return
    lx, ly = locate(base, gx), locate(base, gy)
    if lx[0] != "ok" or ly[0] != "ok":
        return  # reported by judge_*
    if lx[1] != ly[1]:  # on D locate() is exact, i.e. this is equality of the affines
        r.fail(key, f"{what}: {gx!r} vs {gy!r}")


# ---------------------------------------------------------------------------------------------
# slice "pairs": all ordered pairs
# ---------------------------------------------------------------------------------------------
def pair_space(tier):
    if tier == "thorough":
        return dict(a_shift=((0, 0), (2, -3)), a_shape=range(0, 4), b_shift=range(-5, 6), b_shape=range(0, 4))
    return dict(a_shift=((0, 0),), a_shape=(0, 1, 3), b_shift=range(-4, 5), b_shape=range(0, 4))


def gen_pairs(tier):
    sp = pair_space(tier)

    def gen():
        for base in BASE_NAMES:
            for (atx, aty) in sp["a_shift"]:
                for any_, anx in itertools.product(sp["a_shape"], repeat=2):
                    for btx, bty in itertools.product(sp["b_shift"], repeat=2):
                        for bny, bnx in itertools.product(sp["b_shape"], repeat=2):
                            yield (base, (atx, aty, any_, anx), (atx + btx, aty + bty, bny, bnx))

    return gen


def run_pair(case):
    base, ma, mb = case
    a, b = gb(base, ma), gb(base, mb)
    ra, rb = rect(ma), rect(mb)
    cx, cy = cls1(ra[0], ra[2], rb[0], rb[2]), cls1(ra[1], ra[3], rb[1], rb[3])
    r = R(outcome=f"{base}:x{cx}y{cy}", nontrivial=ma != mb)
    tag = rel_of(ra, rb)
    what = show(base, ma, mb)

    u_ab, u_ba = call(lambda: a | b), call(lambda: b | a)
    judge_union(r, base, u_ab, [ra, rb], tag, f"a|b {what}")
    judge_union(r, base, u_ba, [rb, ra], tag, f"b|a {what}")
    same_result(r, base, u_ab, u_ba, f"union:not-commutative:{tag}:{base}", f"a|b vs b|a {what}")

    i_ab, i_ba = call(lambda: a & b), call(lambda: b & a)
    judge_inter(r, base, i_ab, [ra, rb], tag, f"a&b {what}")
    judge_inter(r, base, i_ba, [rb, ra], tag, f"b&a {what}")
    same_result(r, base, i_ab, i_ba, f"intersection:not-commutative:{tag}:{base}", f"a&b vs b&a {what}")

    judge_roi(r, base, a, b, ma, mb, "a")
    judge_roi(r, base, b, a, mb, ma, "b")

    # the two mechanisms the operations are built from (documented contracts)
    tol_px, _ = tols(base)
    pt = call(pixel_translation, b, a)
    if pt[0] == "raised":
        r.fail(f"pixel_translation:raised-on-common-grid:{base}", f"{what}: {pt[1]}")
    else:
        tx, ty = pt[1].xy
        if abs(Fr(tx) - (rb[0] - ra[0])) > tol_px or abs(Fr(ty) - (rb[1] - ra[1])) > tol_px:
            r.fail(f"pixel_translation:value:{base}", f"pixel_translation(b,a)={pt[1]} want {(rb[0] - ra[0], rb[1] - ra[1])}; {what}")
    bb = call(bounding_box_in_pixel_domain, b, a)
    if bb[0] == "raised":
        r.fail(f"bounding_box_in_pixel_domain:raised-on-common-grid:{base}", f"{what}: {bb[1]}")
    else:
        want = (rb[0] - ra[0], rb[1] - ra[1], rb[2] - ra[0], rb[3] - ra[1])
        if tuple(bb[1]) != want:
            r.fail(f"bounding_box_in_pixel_domain:value:{base}", f"bounding_box_in_pixel_domain(b, a)={tuple(bb[1])} want {want}; {what}")
    return r


# ---------------------------------------------------------------------------------------------
# slice "triples": associativity and the n-ary forms
# ---------------------------------------------------------------------------------------------
def triple_members(tier):
    """1-d interval alphabets (start, length) per axis; members = all x-interval x y-interval."""
    if tier == "thorough":
        xs = ((0, 2), (1, 2), (-2, 1), (2, 0), (-1, 5), (3, 1))
        ys = ((0, 3), (2, 1), (-3, 2), (0, 0), (-1, 3), (1, 0), (-4, 1))
    else:
        xs = ((0, 2), (1, 2), (-2, 1), (2, 0))
        ys = ((0, 3), (2, 1), (-3, 2), (0, 0), (-1, 3))
    return tuple((x0, y0, ny, nx) for (x0, nx) in xs for (y0, ny) in ys)


_PAIR_CACHE = {}


def _binop(op, base, mx, my, x, y):
    """Result of the real binary operation on two family members, memoised per process."""
    k = (op, base, mx, my)
    v = _PAIR_CACHE.get(k)
    if v is None:
        v = call((lambda: x | y) if op == "|" else (lambda: x & y))
        _PAIR_CACHE[k] = v
    return v


def gen_triples(tier):
    mem = triple_members(tier)
    n = len(mem)

    def gen():
        for base in BASE_NAMES:
            for i, j, k in itertools.product(range(n), repeat=3):
                yield (base, mem[i], mem[j], mem[k])

    return gen


def run_triple(case):
    base, ma, mb, mc = case
    a, b, c = gb(base, ma), gb(base, mb), gb(base, mc)
    rects = [rect(ma), rect(mb), rect(mc)]
    n_empty = sum(r_empty(x) for x in rects)
    has_i = not r_empty(inter(rects))
    r = R(outcome=f"{base}:empty-operands{n_empty}:{'shared' if has_i else 'no-shared'}",
          nontrivial=len({ma, mb, mc}) == 3)
    what = show(base, ma, mb, mc)
    tag = "with-empty" if n_empty else ("shared" if has_i else "no-shared")

    ab, bc = _binop("|", base, ma, mb, a, b), _binop("|", base, mb, mc, b, c)
    if ab[0] == "ok" and bc[0] == "ok":
        left, right = call(lambda: ab[1] | c), call(lambda: a | bc[1])
        judge_union(r, base, left, rects, "triple-" + tag, f"(a|b)|c {what}")
        judge_union(r, base, right, rects, "triple-" + tag, f"a|(b|c) {what}")
        same_result(r, base, left, right, f"union:not-associative:{tag}:{base}", f"(a|b)|c vs a|(b|c) {what}")
        nary = call(geobox_union_conservative, [a, b, c])
        judge_union(r, base, nary, rects, "nary-" + tag, f"geobox_union_conservative([a,b,c]) {what}")
        same_result(r, base, left, nary, f"union:nary-differs-from-binary:{tag}:{base}", f"(a|b)|c vs union([a,b,c]) {what}")
    # else: the pair itself failed - reported by the pairs slice

    ab, bc = _binop("&", base, ma, mb, a, b), _binop("&", base, mb, mc, b, c)
    if ab[0] == "ok" and bc[0] == "ok":
        left, right = call(lambda: ab[1] & c), call(lambda: a & bc[1])
        judge_inter(r, base, left, rects, "triple-" + tag, f"(a&b)&c {what}")
        judge_inter(r, base, right, rects, "triple-" + tag, f"a&(b&c) {what}")
        same_result(r, base, left, right, f"intersection:not-associative:{tag}:{base}", f"(a&b)&c vs a&(b&c) {what}")
        nary = call(geobox_intersection_conservative, [a, b, c])
        judge_inter(r, base, nary, rects, "nary-" + tag, f"geobox_intersection_conservative([a,b,c]) {what}")
        same_result(r, base, left, nary, f"intersection:nary-differs-from-binary:{tag}:{base}", f"(a&b)&c vs intersection([a,b,c]) {what}")
    return r


# ---------------------------------------------------------------------------------------------
# slice "reject": grids not related by a whole-pixel shift must be rejected with an error
# ---------------------------------------------------------------------------------------------
EPS3 = 2.0**-10  # ~1e-3, dyadic
LINEAR = {
    "scale-both": Affine.scale(1 + EPS3, 1 + EPS3),
    "scale-x": Affine.scale(1 + EPS3, 1.0),
    "scale-y": Affine.scale(1.0, 1 + EPS3),
    "scale-x1e-3": Affine.scale(1.001, 1.0),
    "scale-y1e-3": Affine.scale(1.0, 1.001),
    "pixel-x2": Affine.scale(2.0, 2.0),
    "rot1deg": Affine.rotation(1.0),
    "rot-1deg": Affine.rotation(-1.0),
    "shear-x": Affine(1.0, EPS3, 0.0, 0.0, 1.0, 0.0),
    "shear-y": Affine(1.0, 0.0, 0.0, EPS3, 1.0, 0.0),
    "mirror-x": Affine.scale(-1.0, 1.0),
    "mirror-y": Affine.scale(1.0, -1.0),
    "transpose": Affine(0.0, 1.0, 0.0, 1.0, 0.0, 0.0),
    "rot90": Affine.rotation(90.0),
    # COMBINED differences: each is a product of single differences whose effects cancel in the determinant
    # or in any one-number summary of the linear part
    "combined-mirror-both": Affine.scale(-1.0, -1.0),
    "combined-rot180": Affine.rotation(180.0),
    "combined-scale-2-by-half": Affine.scale(2.0, 0.5),
    "combined-scale-half-by-2": Affine.scale(0.5, 2.0),
    "combined-scale-4-by-quarter": Affine.scale(4.0, 0.25),
    "combined-scale-neg2-by-neghalf": Affine.scale(-2.0, -0.5),
    "combined-scale-1e-3-reciprocal": Affine.scale(1 + EPS3, 1 / (1 + EPS3)),
    "combined-mirror-transpose": Affine(0.0, 1.0, 0.0, 1.0, 0.0, 0.0) * Affine.scale(-1.0, 1.0),
    "combined-transpose-mirror-both": Affine(0.0, -1.0, 0.0, -1.0, 0.0, 0.0),
    "combined-rot90-mirror-x": Affine.rotation(90.0) * Affine.scale(-1.0, 1.0),
    "combined-rot90-mirror-y": Affine.rotation(90.0) * Affine.scale(1.0, -1.0),
    "combined-rot270": Affine.rotation(270.0),
    "combined-shears-cancel-0.5": Affine(1.0, 0.5, 0.0, 0.0, 1.0, 0.0) * Affine(1.0, 0.0, 0.0, -0.5, 1.0, 0.0),
    "combined-shears-cancel-1e-3": Affine(1.0, EPS3, 0.0, 0.0, 1.0, 0.0) * Affine(1.0, 0.0, 0.0, EPS3, 1.0, 0.0),
    "combined-shears-unimodular-2-1-1-1": Affine(2.0, 1.0, 0.0, 1.0, 1.0, 0.0),
}
RESIDUES_D = (0.0, EPS3, -EPS3, 0.25, -0.25, 0.5, -0.5)
RESIDUES_R = (0.0, 1e-3, -1e-3, 0.25, -0.25, 0.5, -0.5)
TINY = (2.0**-30, -(2.0**-30), 1e-9, -1e-9)  # below the documented alignment tolerance (1e-8 px)

REJ_A = ((0, 0, 2, 3), (1, -2, 0, 2), (-3, 2, 3, 1))
REJ_B = ((0, 0, 2, 2), (2, -1, 0, 3), (-1, 1, 3, 2))


def gen_reject():
    for base in BASE_NAMES:
        res = RESIDUES_D if is_exact(base) else RESIDUES_R
        for ma in REJ_A:
            # origin on the opposite corner of a, same shape: for mirror-both / rot180 exactly the footprint of a
            for name in LINEAR:
                yield (base, ma, (ma[0] + ma[3], ma[1] + ma[2], ma[2], ma[3]), ("linear", name, 0.0, 0.0))
            for mb in REJ_B:
                for name in LINEAR:
                    yield (base, ma, mb, ("linear", name, 0.0, 0.0))
                    yield (base, ma, mb, ("linear", name, 0.25, 0.0))
                for rx in res:
                    for ry in res:
                        if rx != 0.0 or ry != 0.0:
                            yield (base, ma, mb, ("residue", "", rx, ry))
                for t in TINY:
                    yield (base, ma, mb, ("tiny", "", t, 0.0))
                    yield (base, ma, mb, ("tiny", "", 0.0, t))
                    yield (base, ma, mb, ("tiny", "", t, -t))


def run_reject(case):
    base, ma, mb, (kind, name, rx, ry) = case
    a = gb(base, ma)
    a2 = gb(base, (ma[0] + 1, ma[1] - 1, 2, 2))  # a compatible companion for the n-ary forms
    tx, ty, ny, nx = mb
    A = BASES[base][0] * Affine.translation(tx + rx, ty + ry)
    if kind == "linear":
        A = A * LINEAR[name]
    b = GeoBox((ny, nx), A, crs_of(base))
    ops = {
        "a|b": lambda: a | b,
        "b|a": lambda: b | a,
        "a&b": lambda: a & b,
        "b&a": lambda: b & a,
        "a.overlap_roi(b)": lambda: a.overlap_roi(b),
        "b.overlap_roi(a)": lambda: b.overlap_roi(a),
        "union([a,a2,b])": lambda: geobox_union_conservative([a, a2, b]),
        "intersection([a,a2,b])": lambda: geobox_intersection_conservative([a, a2, b]),
        "bounding_box_in_pixel_domain(b,a)": lambda: bounding_box_in_pixel_domain(b, a),
    }
    got = {k: call(f) for k, f in ops.items()}
    cls = name if kind == "linear" else (
        "residue-" + "+".join(f"{ax}{abs(v):g}" for ax, v in (("x", rx), ("y", ry)) if v != 0.0))
    what = f"base={base} a=shift({ma[0]},{ma[1]}) shape({ma[2]},{ma[3]}) b=shift({tx}+{rx!r},{ty}+{ry!r}) shape({ny},{nx}) {kind} {name}"
    if kind != "tiny":
        etypes = sorted({type(v[1]).__name__ for v in got.values() if v[0] == "raised"})
        r = R(outcome=f"{base}:{kind}:{'+'.join(etypes) or 'accepted'}")
        for k, v in got.items():
            if v[0] != "raised":
                opn = k.split("(")[0] if "(" in k else k
                r.fail(f"reject:accepted-incompatible-grid:{opn}:{cls}:{base}",
                       f"{k} returned {v[1]!r} although the grids are not related by a whole-pixel shift; {what}")
        return r
    # |residue| ~1e-9 px is below the documented alignment tolerance: either outcome is fine, but an
    # accepted result must be the answer on the common grid (1e-6 px)
    n_ok = sum(v[0] == "ok" for v in got.values())
    r = R(outcome=f"{base}:tiny:{'accepted' if n_ok == len(got) else 'rejected' if n_ok == 0 else 'mixed'}")
    ra, rb = rect(ma), rect(mb)
    for k, rects in (("a|b", [ra, rb]), ("b|a", [rb, ra])):
        if got[k][0] == "ok":
            judge_union(r, base, got[k], rects, "tiny-residue", f"{k} {what}", TOL_PX, TOL_LIN)
    for k, rects in (("a&b", [ra, rb]), ("b&a", [rb, ra])):
        if got[k][0] == "ok":
            judge_inter(r, base, got[k], rects, "tiny-residue", f"{k} {what}", TOL_PX, TOL_LIN)
    return r


# ---------------------------------------------------------------------------------------------
# slice "reject-nary": an incompatible operand must be rejected wherever it stands in the list, also when the
# compatible operands already have no pixel in common (gap) or one of them is empty
# ---------------------------------------------------------------------------------------------
NARY_A = (0, 0, 2, 3)
NARY_B = {
    "gap-both-axes": (5, -6, 2, 2),
    "gap-x-only": (6, 0, 2, 2),
    "gap-y-only": (1, 5, 3, 2),
    "empty-rows": (1, 1, 0, 2),
    "empty-cols-far": (7, 7, 3, 0),
    "overlapping": (1, 1, 2, 2),
}
NARY_BAD = ("subpixel-x0.25", "subpixel-y0.5", "subpixel-1e-3", "pixel-x2", "scale-1e-3", "rot1deg", "mirror-both", "other-crs")
NARY_BAD_AT = ((1, 1, 2, 2), (-4, 9, 1, 3))
OTHER_CRS = "EPSG:3577"


def _bad_geobox(base, bad, m):
    tx, ty, ny, nx = m
    A0 = BASES[base][0]
    crs = crs_of(base)
    if bad == "subpixel-x0.25":
        A = A0 * Affine.translation(tx + 0.25, ty)
    elif bad == "subpixel-y0.5":
        A = A0 * Affine.translation(tx, ty + 0.5)
    elif bad == "subpixel-1e-3":
        A = A0 * Affine.translation(tx + EPS3, ty - EPS3)
    elif bad == "pixel-x2":
        A = A0 * Affine.translation(tx, ty) * Affine.scale(2.0, 2.0)
    elif bad == "scale-1e-3":
        A = A0 * Affine.translation(tx, ty) * Affine.scale(1 + EPS3, 1 + EPS3)
    elif bad == "rot1deg":
        A = A0 * Affine.translation(tx, ty) * Affine.rotation(1.0)
    elif bad == "mirror-both":
        A = A0 * Affine.translation(tx + nx, ty + ny) * Affine.scale(-1.0, -1.0)
    elif bad == "other-crs":
        A = A0 * Affine.translation(tx, ty)
        if OTHER_CRS not in _CRS:
            _CRS[OTHER_CRS] = CRS(OTHER_CRS)
        crs = _CRS[OTHER_CRS]
    else:
        raise ValueError(bad)
    return GeoBox((ny, nx), A, crs)


def gen_reject_nary():
    for base in BASE_NAMES:
        for bname in NARY_B:
            for bad in NARY_BAD:
                for at in range(len(NARY_BAD_AT)):
                    for order in itertools.permutations("abX"):
                        yield (base, bname, bad, at, "".join(order))


def run_reject_nary(case):
    base, bname, bad, at, order = case
    objs = {"a": gb(base, NARY_A), "b": gb(base, NARY_B[bname]), "X": _bad_geobox(base, bad, NARY_BAD_AT[at])}
    lst = [objs[c] for c in order]
    got = {
        "union": call(geobox_union_conservative, lst),
        "intersection": call(geobox_intersection_conservative, lst),
    }
    r = R(outcome=f"{base}:{bname}:X-at-{order.index('X')}:"
                  + ("+".join(sorted({type(v[1]).__name__ for v in got.values() if v[0] == 'raised'})) or "accepted"))
    what = (f"base={base} list order {order} with a=shift(0,0) shape(2,3), b={bname} {NARY_B[bname]}, "
            f"X={bad} at {NARY_BAD_AT[at]} (not on the common grid)")
    for op, v in got.items():
        if v[0] != "raised":
            r.fail(f"reject:nary-accepted-incompatible-operand:{op}:{bad}:order-{order}:{bname}:{base}",
                   f"{op} returned {v[1]!r} although operand X is not related to the others by a whole-pixel shift; {what}")
    return r


# ---------------------------------------------------------------------------------------------
# slice "snap": snap_to moves by at most half a pixel onto the other grid
# ---------------------------------------------------------------------------------------------
PERT_D = (0.0, 2.0**-30, -(2.0**-30), EPS3, -EPS3, 0.25, -0.25, 0.5, -0.5)
PERT_R = (0.0, 1e-9, -1e-9, 1e-3, -1e-3, 0.25, -0.25, 0.5, -0.5)


def perts(base):
    return PERT_D if is_exact(base) else PERT_R


def gen_snap():
    for base in BASE_NAMES:
        for shape in ((2, 3), (0, 1)):
            for k, l in itertools.product((-2, 0, 3), repeat=2):
                for dx in perts(base):
                    for dy in perts(base):
                        for mb in ((0, 0, 3, 3), (5, -7, 1, 0)):
                            yield (base, shape, (k, l), (dx, dy), mb)


def run_snap(case):
    base, shape, (k, l), (dx, dy), mb = case
    a = GeoBox(shape, BASES[base][0] * Affine.translation(k + dx, l + dy), crs_of(base))
    b = gb(base, mb)

    def mag(d):
        d = abs(d)
        return "0" if d == 0 else "tiny" if d < 1e-8 else "1e-3" if d < 0.01 else f"{d:g}"

    r = R(outcome=f"{base}:dx{mag(dx)}:dy{mag(dy)}", nontrivial=(dx, dy) != (0.0, 0.0))
    what = f"base={base} a=shift({k}+{dx!r},{l}+{dy!r}) shape{shape} snap_to b=shift({mb[0]},{mb[1]})"
    got = call(a.snap_to, b)
    if got[0] == "raised":
        return r.fail(f"snap_to:raised:{base}", f"{what}: {type(got[1]).__name__}: {got[1]}")
    s = got[1]
    if not isinstance(s, GeoBox) or tuple(s.shape) != tuple(shape) or s.crs != a.crs:
        return r.fail(f"snap_to:shape-or-crs-changed:{base}", f"{what}: {s!r}")
    # movement, in pixels of a (exact rational arithmetic on the float affines)
    ma_, mb_, mc, md, me, mf = mul6(inv6(fr6(a.affine)), fr6(s.affine))
    _, tl = tols(base)
    if abs(ma_ - 1) > tl or abs(mb_) > tl or abs(md) > tl or abs(me - 1) > tl:
        r.fail(f"snap_to:not-a-translation:{base}", f"{what}: {s!r}")
    half = Fr(1, 2) + (Fr(0) if is_exact(base) else TOL_PX)
    if abs(mc) > half or abs(mf) > half:
        r.fail(f"snap_to:moves-more-than-half-pixel:dx{mag(dx)}:dy{mag(dy)}:{base}",
               f"{what}: moved by ({float(mc)!r}, {float(mf)!r}) pixels")
    # on the grid of b: exact on D unless the offset is below the alignment tolerance (1e-8 px), where
    # staying put is accepted within 1e-6 px
    tiny = any(0 < abs(d) < 1e-8 for d in (dx, dy))
    tol = Fr(0) if (is_exact(base) and not tiny) else TOL_PX
    st, _, _ = locate(base, s, tol, tl)
    if st != "ok":
        r.fail(f"snap_to:result-off-grid:dx{mag(dx)}:dy{mag(dy)}:{base}", f"{what}: {s!r} ({st})")
    else:
        # once snapped the two are on a common grid: the set operations must take them
        u = call(lambda: s | b)
        if u[0] == "raised":
            r.fail(f"snap_to:snapped-geobox-rejected-by-union:dx{mag(dx)}:dy{mag(dy)}:{base}", f"{what}: (a.snap_to(b)) | b raised {u[1]}")
        else:
            stu, gu, _ = locate(base, u[1], TOL_PX, tl if tl else TOL_LIN)
            if stu != "ok" or (not r_empty(rect(mb)) and not contains(gu, rect(mb))):
                r.fail(f"snap_to:union-after-snap-wrong:{base}", f"{what}: (a.snap_to(b)) | b = {u[1]!r} ({stu}, {gu})")
    return r


# ---------------------------------------------------------------------------------------------
# slice "enclosing": same-CRS regions
# ---------------------------------------------------------------------------------------------
def enc_space(tier):
    if tier == "thorough":
        return dict(pert=range(9), wh=(0, 1, 3), origin=((-2, 1), (3, -4)))
    return dict(pert=(0, 1, 2, 5, 6, 7, 8), wh=(0, 2), origin=((-2, 1),))


def gen_enclosing(tier):
    sp = enc_space(tier)

    def gen():
        for base in BASE_NAMES:
            for (x0, y0) in sp["origin"]:
                for w, h in itertools.product(sp["wh"], repeat=2):
                    for d in itertools.product(sp["pert"], repeat=4):
                        for kind in ("bbox", "poly"):
                            yield (base, (x0, y0, w, h), d, kind)

    return gen


def _world(base, px, py):
    """World position of base-pixel location (px, py) as floats; exact on D (asserted)."""
    A = BASES[base][0]
    if is_exact(base):
        wx, wy = apply6(fr6(A), Fr(px), Fr(py))
        fx, fy = float(wx), float(wy)
        if Fr(fx) != wx or Fr(fy) != wy:
            raise AssertionError(f"dyadic alphabet not exact in binary64: {base} {px} {py}")
        return fx, fy
    return A * (px, py)


def _judge_enclosing(r, base, got, tb, tol, keytail, what):
    """tb = true pixel bounding box of the region (exact or sampled) in base pixels."""
    if got[0] == "raised":
        r.fail(f"enclosing:raised:{keytail}", f"{what}: {type(got[1]).__name__}: {got[1]}")
        return None
    st, g, _ = locate(base, got[1])
    if st != "ok":
        r.fail(f"enclosing:{st}:{keytail}", f"{what}: {got[1]!r} is not on the source grid ({st})")
        return None
    sides = (("xmin", tb[0] - g[0]), ("ymin", tb[1] - g[1]), ("xmax", g[2] - tb[2]), ("ymax", g[3] - tb[3]))
    for side, excess in sides:
        if excess < -tol:
            r.fail(f"enclosing:region-not-covered:{side}:{keytail}",
                   f"{what}: result pixel rectangle {g} does not cover the region, whose pixel bounding box is "
                   f"{tuple(float(v) for v in tb)} ({side} short by {float(-excess):.3g} px)")
        elif not excess < 1 + tol:
            r.fail(f"enclosing:excess-1px-or-more:{side}:{keytail}",
                   f"{what}: result pixel rectangle {g} exceeds the region's pixel bounding box "
                   f"{tuple(float(v) for v in tb)} by {float(excess):.9g} px at {side}")
    return g


def run_enclosing(case):
    base, (x0, y0, w, h), d, kind = case
    P = perts(base)
    X0, Y0, X1, Y1 = x0 + P[d[0]], y0 + P[d[1]], x0 + w + P[d[2]], y0 + h + P[d[3]]
    if not (X1 > X0 and Y1 > Y0):
        return R(outcome="skipped:region-without-area", nontrivial=False)
    ring = [_world(base, px, py) for px, py in ((X0, Y0), (X1, Y0), (X1, Y1), (X0, Y1))]
    crs = crs_of(base)
    if kind == "poly":
        verts = ring
        region = geom.polygon(ring + ring[:1], crs)
    else:
        xs, ys = [p[0] for p in ring], [p[1] for p in ring]
        bb = (min(xs), min(ys), max(xs), max(ys))
        verts = [(bb[0], bb[1]), (bb[2], bb[1]), (bb[2], bb[3]), (bb[0], bb[3])]
        region = BoundingBox(*bb, crs)
    # true pixel bounding box: exact image of the region's (float) vertices under the inverse base affine
    inv = base_inv(base)
    pts = [apply6(inv, Fr(x), Fr(y)) for x, y in verts]
    tb = (min(p[0] for p in pts), min(p[1] for p in pts), max(p[0] for p in pts), max(p[1] for p in pts))
    src = gb(base, (1, -2, 2, 3))
    tol = tols(base)[0]
    span = "sub-pixel" if (tb[2] - tb[0] < 1 or tb[3] - tb[1] < 1) else "multi-pixel"
    r = R(outcome=f"{base}:{kind}:{span}")
    what = f"base={base} src=shift(1,-2) region={kind} pixel-corners=({X0!r},{Y0!r})..({X1!r},{Y1!r}) world={verts}"
    got = call(src.enclosing, region)
    _judge_enclosing(r, base, got, tb, tol, f"{kind}:{base}", what)
    return r


# ---------------------------------------------------------------------------------------------
# slice "enclosing-xcrs": regions given in another CRS
# ---------------------------------------------------------------------------------------------
XGRIDS = {
    "utm30m": (Affine(30.0, 0.0, 512345.0, 0.0, -30.0, 6012345.0), "EPSG:32633"),
    "utm30m-rot30": (Affine.translation(500000.0, 6000000.0) * Affine.rotation(30.0) * Affine.scale(30.0, -30.0), "EPSG:32633"),
    "webmerc100m": (Affine(100.0, 0.0, 1650000.0, 0.0, -100.0, 7250000.0), "EPSG:3857"),
}
# (name, crs, (x0, y0, x1, y1)) boxes in their own CRS
XBOXES = (
    ("lonlat-0.5deg-across-central-meridian", "EPSG:4326", (14.75, 54.0, 15.25, 54.2)),
    ("lonlat-0.1deg", "EPSG:4326", (15.1, 54.1, 15.2, 54.15)),
    ("lonlat-1deg", "EPSG:4326", (16.0, 53.0, 17.0, 54.0)),
    ("lonlat-0.002deg", "EPSG:4326", (14.999, 54.2, 15.001, 54.201)),
    ("utm-20km", "EPSG:32633", (510000.0, 6000000.0, 530000.0, 6020000.0)),
    ("webmerc-20km", "EPSG:3857", (1650000.0, 7200000.0, 1670000.0, 7220000.0)),
)
_TR = {}


def _tr(src, dst):
    k = (src, dst)
    if k not in _TR:
        _TR[k] = pyproj.Transformer.from_crs(pyproj.CRS.from_user_input(src), pyproj.CRS.from_user_input(dst), always_xy=True)
    return _TR[k]


def _pix_of(inv_f, tr, xs, ys):
    X, Y = tr.transform(np.asarray(xs, dtype="float64"), np.asarray(ys, dtype="float64"))
    a, b, c, d, e, f = inv_f
    return a * X + b * Y + c, d * X + e * Y + f


def region_pixel_bbox(ring, tr, inv_f, n=129, rounds=3):
    """Pixel bounding box of a polygon whose edges are straight in its own CRS: brute force over points of
    every edge (n per edge), refined around each extreme.  -> (vertex bbox, boundary bbox)"""
    ring = list(ring)
    edges = list(zip(ring, ring[1:] + ring[:1]))
    t = np.linspace(0.0, 1.0, n)
    PX, PY = [], []
    for (p, q) in edges:
        px, py = _pix_of(inv_f, tr, p[0] + t * (q[0] - p[0]), p[1] + t * (q[1] - p[1]))
        PX.append(px)
        PY.append(py)
    PX, PY = np.asarray(PX), np.asarray(PY)
    vb = (PX[:, 0].min(), PY[:, 0].min(), PX[:, 0].max(), PY[:, 0].max())
    out = []
    for arr_i, fn in ((0, np.argmin), (1, np.argmin), (0, np.argmax), (1, np.argmax)):
        arr = (PX, PY)[arr_i]
        ei, ti = np.unravel_index(fn(arr), arr.shape)
        best = arr[ei, ti]
        lo, hi = t[max(ti - 1, 0)], t[min(ti + 1, n - 1)]
        p, q = edges[ei]
        for _ in range(rounds):
            tt = np.linspace(lo, hi, n)
            v = _pix_of(inv_f, tr, p[0] + tt * (q[0] - p[0]), p[1] + tt * (q[1] - p[1]))[arr_i]
            j = int(fn(v))
            best = min(best, v[j]) if fn is np.argmin else max(best, v[j])
            lo, hi = tt[max(j - 1, 0)], tt[min(j + 1, n - 1)]
        out.append(float(best))
    return vb, tuple(out)


XQ_PERT = (0.0, 1e-9, -1e-9, 1e-3, -1e-3, 0.25, -0.5)

# regions given in a PROJECTED CRS on grids in a different CRS (geographic or projected), north-up and mirrored,
# coarse and fine, so that the same region spans a few pixels on one grid and several hundred on another
PGRIDS = {
    "lonlat0.1deg": (Affine(0.1, 0.0, 0.03, 0.0, -0.1, 70.07), "EPSG:4326"),
    "lonlat0.01deg-mirrored": (Affine(-0.01, 0.0, 40.003, 0.0, 0.01, 30.007), "EPSG:4326"),
    "webmerc10km": (Affine(10000.0, 0.0, 1000123.0, 0.0, -10000.0, 8000456.0), "EPSG:3857"),
    "webmerc1km-mirrored": (Affine(1000.0, 0.0, 1000123.0, 0.0, 1000.0, 6000456.0), "EPSG:3857"),
    "utm10km": (Affine(10000.0, 0.0, 200123.0, 0.0, -10000.0, 6500456.0), "EPSG:32633"),
    "utm1km-mirrored": (Affine(-1000.0, 0.0, 900123.0, 0.0, -1000.0, 6500456.0), "EPSG:32633"),
    "laea10km": (Affine(10000.0, 0.0, 4000123.0, 0.0, -10000.0, 3600456.0), "EPSG:3035"),
}
PREGION_CRS = {"utm33n": "EPSG:32633", "laea3035": "EPSG:3035", "webmerc": "EPSG:3857"}
PCENTRES = ((15.0, 52.0), (19.0, 54.0), (12.3, 47.5))  # lon, lat of the box centre (on / off the UTM central meridian)
PWIDTHS_KM = (30, 100, 300, 600)
PASPECT = (1.0, 0.5)  # height / width


def _proj_box(rname, ci, w_km, aspect):
    """Box in the projected CRS `rname`, centred near PCENTRES[ci] (centre snapped to a km + 123 m)."""
    rcrs = PREGION_CRS[rname]
    cx, cy = _tr("EPSG:4326", rcrs).transform(*PCENTRES[ci])
    cx, cy = round(float(cx), -3) + 123.0, round(float(cy), -3) + 123.0
    hw, hh = w_km * 500.0, w_km * 500.0 * aspect
    return rcrs, (cx - hw, cy - hh, cx + hw, cy + hh)


def gen_xcrs():
    for grid in XGRIDS:
        for name, crs, _ in XBOXES:
            if crs != XGRIDS[grid][1]:
                for kind in ("bbox", "poly"):
                    yield ("box", grid, name, kind)
    # small quadrilaterals whose vertices sit at perturbed pixel corners of the grid, expressed in lon/lat
    for grid in ("utm30m", "utm30m-rot30"):
        for (x0, y0, w, h) in ((-2, 1, 1, 3), (40, -30, 0, 2)):
            for d in itertools.product(range(len(XQ_PERT)), repeat=4):
                yield ("quad", grid, (x0, y0, w, h), d)
    # boxes in a projected CRS on grids of another CRS
    for grid in PGRIDS:
        for rname, rcrs in PREGION_CRS.items():
            if rcrs == PGRIDS[grid][1]:
                continue
            for ci in range(len(PCENTRES)):
                for w_km in PWIDTHS_KM:
                    for aspect in PASPECT:
                        for kind in ("bbox", "poly"):
                            yield ("proj", grid, rname, ci, w_km, aspect, kind)


def run_xcrs(case):
    fam, grid = case[0], case[1]
    A, gcrs = XGRIDS[grid] if grid in XGRIDS else PGRIDS[grid]
    if gcrs not in _CRS:
        _CRS[gcrs] = CRS(gcrs)
    src = GeoBox((4, 5), A * Affine.translation(3, -2), _CRS[gcrs])
    inv = inv6(fr6(A))
    inv_f = tuple(float(v) for v in inv)
    if fam == "box":
        _, _, name, kind = case
        _, rcrs, bb = next(b for b in XBOXES if b[0] == name)
        ring = [(bb[0], bb[1]), (bb[2], bb[1]), (bb[2], bb[3]), (bb[0], bb[3])]
        region = BoundingBox(*bb, rcrs) if kind == "bbox" else geom.polygon(ring + ring[:1], rcrs)
        regname = name
        what = f"grid={grid} region={kind} {name} {bb} in {rcrs}"
    elif fam == "proj":
        _, _, rname, ci, w_km, aspect, kind = case
        rcrs, bb = _proj_box(rname, ci, w_km, aspect)
        ring = [(bb[0], bb[1]), (bb[2], bb[1]), (bb[2], bb[3]), (bb[0], bb[3])]
        region = BoundingBox(*bb, rcrs) if kind == "bbox" else geom.polygon(ring + ring[:1], rcrs)
        regname = f"projected-region-{rname}-{w_km}km"
        what = f"grid={grid} ({gcrs}) region={kind} {bb} in {rcrs} (projected CRS, {w_km} km wide, centre near lon/lat {PCENTRES[ci]})"
    else:
        _, _, (x0, y0, w, h), d = case
        P = XQ_PERT
        X0, Y0, X1, Y1 = x0 + P[d[0]], y0 + P[d[1]], x0 + w + P[d[2]], y0 + h + P[d[3]]
        if not (X1 > X0 and Y1 > Y0):
            return R(outcome="skipped:region-without-area", nontrivial=False)
        rcrs = "EPSG:4326"
        back = _tr(gcrs, rcrs)
        ring = []
        for px, py in ((X0, Y0), (X1, Y0), (X1, Y1), (X0, Y1)):
            wx, wy = A * (px, py)
            lon, lat = back.transform(wx, wy)
            ring.append((float(lon), float(lat)))
        region = geom.polygon(ring + ring[:1], rcrs)
        regname = "lonlat-quad-few-pixels"
        what = f"grid={grid} region=polygon {ring} in EPSG:4326 (pixel corners ({X0!r},{Y0!r})..({X1!r},{Y1!r}))"
    vb, tb = region_pixel_bbox(ring, _tr(rcrs, gcrs), inv_f)
    r = R(outcome=f"{grid}:{fam}")
    if fam == "proj":
        span = max(tb[2] - tb[0], tb[3] - tb[1])
        r.outcome += f":{case[2]}:" + ("<10px" if span < 10 else "<100px" if span < 100 else ">=100px")
    got = call(src.enclosing, region)
    if got[0] == "raised":
        return r.fail(f"enclosing:raised:other-crs:{grid}", f"{what}: {type(got[1]).__name__}: {got[1]}")
    # locate on the grid (the three grids are not in BASES: do it by hand)
    g = got[1]
    if not isinstance(g, GeoBox):
        return r.fail(f"enclosing:not-a-geobox:other-crs:{grid}", f"{what}: {g!r}")
    m = mul6(inv, fr6(g.affine))
    rx, ry = round(m[2]), round(m[5])
    if (g.crs != src.crs or abs(m[0] - 1) > TOL_LIN or abs(m[1]) > TOL_LIN or abs(m[3]) > TOL_LIN
            or abs(m[4] - 1) > TOL_LIN or abs(m[2] - rx) > TOL_PX or abs(m[5] - ry) > TOL_PX):
        return r.fail(f"enclosing:off-grid:other-crs:{grid}", f"{what}: {g!r} is not on the source grid")
    ny, nx = g.shape
    gr = (rx, ry, rx + nx, ry + ny)
    tol = float(TOL_PX)
    r.outcome += ":curved-edge-matters" if any(abs(a - b) > tol for a, b in zip(vb, tb)) else ":vertices-are-extreme"
    for i, side in enumerate(("xmin", "ymin", "xmax", "ymax")):
        sgn = 1 if i < 2 else -1
        ex_v = sgn * (vb[i] - gr[i])  # distance by which the result extends beyond the vertex bounding box
        ex_t = sgn * (tb[i] - gr[i])  # ... beyond the region's true bounding box (curved edges)
        if ex_v < -tol:
            r.fail(f"enclosing:vertex-not-covered:other-crs:{grid}",
                   f"{what}: result pixel rectangle {gr} misses a vertex of the region at {side} by {-ex_v:.3g} px")
        elif ex_t < -tol:
            r.fail(f"enclosing:curved-edge-not-covered:other-crs:{grid}:{regname}",
                   f"{what}: result pixel rectangle {gr} covers the region's vertices (pixel bbox {vb}) but not its edges, "
                   f"which are curved in the grid's CRS (pixel bbox of the boundary {tb}): {side} short by {-ex_t:.3g} px")
        if not ex_t < 1 + tol:
            r.fail(f"enclosing:excess-1px-or-more:other-crs:{grid}:{regname}",
                   f"{what}: result pixel rectangle {gr} exceeds the region's pixel bounding box {tb} by {ex_t:.9g} px at {side}")
    return r


# ---------------------------------------------------------------------------------------------
# slices "bbox-pairs" / "bbox-triples": lattice laws of BoundingBox | and &
# ---------------------------------------------------------------------------------------------
def bbox_alphabet(tier):
    return (-2, -0.5, 0, 1, 3) if tier == "thorough" else (-2, 0, 1, 3)


def boxes(tier):
    v = bbox_alphabet(tier)
    iv = [(a, b) for a in v for b in v if a <= b]
    return [(x0, y0, x1, y1) for (x0, x1) in iv for (y0, y1) in iv]


BB_CRS = (None, "EPSG:3857")
_BOXES = {}


def _boxes(tier):
    if tier not in _BOXES:
        _BOXES[tier] = boxes(tier)
    return _BOXES[tier]


def gen_bbox_pairs(tier, ncrs=len(BB_CRS)):
    def gen():
        n = len(_boxes(tier))
        for c in range(ncrs):
            for i in range(n):
                for j in range(n):
                    yield (c, i, j)

    return gen


def _bb_is_empty(t):
    return t[0] > t[2] or t[1] > t[3]


def _bb_cls(a, b):
    i = (max(a[0], b[0]), max(a[1], b[1]), min(a[2], b[2]), min(a[3], b[3]))
    if _bb_is_empty(i):
        return "disjoint"
    if i[0] == i[2] or i[1] == i[3]:
        return "touching"
    if i in (a, b):
        return "nested"
    return "overlapping"


def _bb_ok(r, x, crs, key, what):
    if not isinstance(x, BoundingBox) or x.crs != crs:
        r.fail(key + ":type-or-crs", f"{what}: {x!r}")
        return False
    return True


def make_run_bbox_pair(tier):
    def run(case):
        c, i, j = case
        B = _boxes(tier)
        crs = BB_CRS[c] if BB_CRS[c] is None else CRS(BB_CRS[c])
        ta, tb = B[i], B[j]
        a, b = BoundingBox(*ta, crs), BoundingBox(*tb, crs)
        cls = _bb_cls(ta, tb)
        r = R(outcome=f"bbox:{cls}", nontrivial=i != j)
        what = f"a={ta} b={tb} crs={BB_CRS[c]}"
        u, u2, n, n2 = a | b, b | a, a & b, b & a
        for x, k in ((u, "union"), (u2, "union"), (n, "intersection"), (n2, "intersection")):
            if not _bb_ok(r, x, crs, f"bbox-{k}", what):
                return r
        if u != u2 or hash(u) != hash(u2):
            r.fail(f"bbox-union:not-commutative:{cls}", f"{what}: a|b={u} b|a={u2}")
        if n != n2:
            r.fail(f"bbox-intersection:not-commutative:{cls}", f"{what}: a&b={n} b&a={n2}")
        # union is the smallest box containing both; intersection is the set of shared points
        want_u = (min(ta[0], tb[0]), min(ta[1], tb[1]), max(ta[2], tb[2]), max(ta[3], tb[3]))
        if tuple(u) != want_u:
            r.fail(f"bbox-union:not-smallest-enclosing:{cls}", f"{what}: a|b={tuple(u)} want {want_u}")
        for o, name in ((ta, "a"), (tb, "b")):
            if not contains(tuple(u), o):
                r.fail(f"bbox-union:does-not-contain-operand:{cls}", f"{what}: a|b={tuple(u)} does not contain {name}")
            if not _bb_is_empty(tuple(n)) and not contains(o, tuple(n)):
                r.fail(f"bbox-intersection:not-contained-in-operand:{cls}", f"{what}: a&b={tuple(n)} not inside {name}")
        want_n = (max(ta[0], tb[0]), max(ta[1], tb[1]), min(ta[2], tb[2]), min(ta[3], tb[3]))
        if _bb_is_empty(want_n):
            if not _bb_is_empty(tuple(n)):
                r.fail(f"bbox-intersection:disjoint-but-not-empty:{cls}", f"{what}: a&b={tuple(n)}")
        elif tuple(n) != want_n:
            r.fail(f"bbox-intersection:wrong-box:{cls}", f"{what}: a&b={tuple(n)} want {want_n}")
        # idempotent, absorbing
        if (a | a) != a or (a & a) != a:
            r.fail("bbox:not-idempotent", f"a={ta}: a|a={a | a} a&a={a & a}")
        if (a | (a & b)) != a:
            r.fail(f"bbox:absorption-union-over-intersection:{cls}", f"{what}: a|(a&b)={a | (a & b)}")
        if (a & (a | b)) != a:
            r.fail(f"bbox:absorption-intersection-over-union:{cls}", f"{what}: a&(a|b)={a & (a | b)}")
        # function forms on lists and generators
        if bbox_union([a, b]) != u or bbox_union(x for x in (a, b)) != u:
            r.fail("bbox-union:function-form", f"{what}")
        if bbox_intersection([a, b]) != n or bbox_intersection(x for x in (a, b)) != n:
            r.fail("bbox-intersection:function-form", f"{what}")
        return r

    return run


def make_run_bbox_triples(tier):
    def run(case):
        """case = ordered pair; the third operand ranges over the whole alphabet inside."""
        c, i, j = case
        B = _boxes(tier)
        crs = BB_CRS[c] if BB_CRS[c] is None else CRS(BB_CRS[c])
        a, b = BoundingBox(*B[i], crs), BoundingBox(*B[j], crs)
        ab_u, ab_n = a | b, a & b
        r = R(outcome=f"bbox3:{_bb_cls(B[i], B[j])}", nontrivial=i != j)
        bad_u = bad_n = bad_nary = None
        for tc in B:
            cc = BoundingBox(*tc, crs)
            l_u, r_u = ab_u | cc, a | (b | cc)
            l_n, r_n = ab_n & cc, a & (b & cc)
            if l_u != r_u and bad_u is None:
                bad_u = (tc, l_u, r_u)
            if l_n != r_n and bad_n is None:
                bad_n = (tc, l_n, r_n)
            if (bbox_union([a, b, cc]) != l_u or bbox_intersection([a, b, cc]) != l_n) and bad_nary is None:
                bad_nary = (tc, bbox_union([a, b, cc]), bbox_intersection([a, b, cc]))
        r.counts = dict(bbox_triples=len(B))
        if bad_u:
            r.fail("bbox-union:not-associative", f"a={B[i]} b={B[j]} c={bad_u[0]}: (a|b)|c={bad_u[1]} a|(b|c)={bad_u[2]}")
        if bad_n:
            r.fail("bbox-intersection:not-associative", f"a={B[i]} b={B[j]} c={bad_n[0]}: (a&b)&c={bad_n[1]} a&(b&c)={bad_n[2]}")
        if bad_nary:
            r.fail("bbox:nary-differs-from-binary", f"a={B[i]} b={B[j]} c={bad_nary[0]}: {bad_nary[1]} {bad_nary[2]}")
        return r

    return run


# =============================================================================================
# Self-review additions: alphabets the first version was blind to (lessons of the seeding rounds)
# =============================================================================================
import copy as _copy  # noqa: E402
import functools as _functools  # noqa: E402

from odc.geo import wh_  # noqa: E402
from odc.geo.types import shape_  # noqa: E402

EXTRA_BASES = {
    # single mirrored axis (the main mirrored bases mirror both = a 180 degree turn), shear, non-square pixels
    "D-flipx": (Affine(-8.0, 0.0, 524288.0, 0.0, -8.0, 6291456.0), "EPSG:32633", True),
    "D-yup": (Affine(0.5, 0.0, 96.0, 0.0, 0.5, -32.0), "EPSG:4326", True),
    "D-sheared": (Affine(8.0, 2.0, 1024.0, 0.0, -8.0, 2048.0), "EPSG:3857", True),
    "D-nonsquare": (Affine(8.0, 0.0, 524288.0, 0.0, -2.0, 6291456.0), "EPSG:32633", True),
    "R-rot45": (Affine.translation(500000.0, 6000000.0) * Affine.rotation(45.0) * Affine.scale(30.0, -30.0), "EPSG:32633", False),
    # tiny / huge pixels, origins near 1e7, origins within 1e-3 of / half a pixel off whole numbers, cm pixels in UTM
    "R-tiny": (Affine(4.5e-6, 0.0, 140.3, 0.0, -4.5e-6, -35.7), "EPSG:4326", False),
    "R-huge": (Affine(1.0e5, 0.0, -1.0e7, 0.0, -1.0e5, 1.0e7), "EPSG:3857", False),
    "R-1e7": (Affine(30.0, 0.0, 9999990.0, 0.0, -30.0, 10000020.0), "EPSG:3857", False),
    "R-offwhole": (Affine(10.0, 0.0, 500000.0005, 0.0, -10.0, 5999995.0), "EPSG:32633", False),
    "R-cm-utm": (Affine(0.01, 0.0, 512345.1, 0.0, -0.01, 6012345.7), "EPSG:32633", False),
}
# small origins: 1e-11 px (0.001 x the alignment tolerance) is far above the float resolution of the pixel coordinates
EDGE_BASES = {
    "E-northup": (Affine(1.0, 0.0, 3.0, 0.0, -1.0, -2.0), "EPSG:3857", True),
    "E-mirrored": (Affine(-0.5, 0.0, 16.0, 0.0, 0.5, -8.0), "EPSG:3857", True),
    "E-rot45": (Affine(4.0, 4.0, 32.0, 4.0, -4.0, 64.0), "EPSG:3857", True),
    "E-real": (Affine(0.1, 0.0, 1.3, 0.0, -0.1, -2.7), "EPSG:4326", False),
}
BASES.update(EXTRA_BASES)
BASES.update(EDGE_BASES)
EXTRA_NAMES = tuple(EXTRA_BASES)
EDGE_NAMES = tuple(EDGE_BASES)


# -- pairs / triples on the extra bases; portrait and landscape operands -------------------------------
def gen_pairs_extra(tier):
    shifts = range(-4, 5) if tier == "thorough" else (-4, -1, 0, 3)

    def gen():
        for base in EXTRA_NAMES:
            for ma in ((0, 0, 2, 3), (0, 0, 3, 1)):
                for btx, bty in itertools.product(shifts, repeat=2):
                    for bny, bnx in itertools.product((0, 1, 3), repeat=2):
                        yield (base, ma, (btx, bty, bny, bnx))

    return gen


def gen_pairs_aspect(tier):
    bases = BASE_NAMES + (EXTRA_NAMES if tier == "thorough" else ())

    def gen():
        for base in bases:
            for ma in ((0, 0, 2, 7), (0, 0, 7, 2)):  # landscape / portrait, (ny, nx)
                for bny, bnx in ((2, 7), (7, 2), (1, 1), (3, 3)):
                    for btx, bty in itertools.product((-8, -5, -3, 0, 3, 5, 8), repeat=2):
                        yield (base, ma, (btx, bty, bny, bnx))

    return gen


def gen_triples_extra(tier):
    xs = ((0, 2), (1, 2), (2, 0)) + (((-2, 1),) if tier == "thorough" else ())
    ys = ((0, 3), (-3, 2)) + (((2, 1), (0, 0)) if tier == "thorough" else ())
    mem = tuple((x0, y0, ny, nx) for (x0, nx) in xs for (y0, ny) in ys)

    def gen():
        for base in EXTRA_NAMES:
            for a, b, c in itertools.product(mem, repeat=3):
                yield (base, a, b, c)

    return gen


# -- every whole-pixel shift up to +-300 px on grids whose pixel coordinates are large numbers ------------------------
SWEEP_BASES = ("R-cm-utm", "R-tiny", "R-1e7", "R-offwhole", "R-huge", "R-rot45")


def gen_sweep(tier):
    span = 1000 if tier == "thorough" else 300

    def gen():
        for base in SWEEP_BASES:
            for k in range(-span, span + 1):
                yield (base, (k, 0))
                yield (base, (0, k))

    return gen


def run_sweep(case):
    base, (kx, ky) = case
    ma, mb = (0, 0, 3, 4), (kx, ky, 2, 5)
    a, b = gb(base, ma), GeoBox((2, 5), member_affine(base, kx, ky), crs_of(base))
    ra, rb = rect(ma), rect(mb)
    r = R(outcome=f"{base}:{rel_of(ra, rb)}", nontrivial=(kx, ky) != (0, 0))
    what = show(base, ma, mb)
    tag = "sweep"
    judge_union(r, base, call(lambda: a | b), [ra, rb], tag, f"a|b {what}")
    judge_inter(r, base, call(lambda: b & a), [rb, ra], tag, f"b&a {what}")
    judge_roi(r, base, a, b, ma, mb, "a")
    return r


# -- both edges of the alignment tolerance --------------------------------------------------------------
EDGE_F = (0.9, 0.999, 1.001, 1.1, 10.0)
EDGE_AX = (0.0,) + tuple(s * f for f in EDGE_F for s in (1.0, -1.0))  # residue on one axis, in units of the tolerance
EDGE_T = {"default": 1e-8, "explicit-1e-8": 1e-8, "1e-3": 1e-3, "1e-10": 1e-10}
EDGE_ZERO = (0.0, 5e-9, -5e-9, 1e-3)  # residues (px) used with tol=0 given explicitly
EDGE_PAIRS = (((0, 0, 2, 3), (1, -1, 2, 2)), ((0, 0, 3, 2), (4, 1, 1, 3)))
BAND = Fr(5, 10000)  # |residue - tol| <= 5e-4 tol is not judged (float evaluation of the residue)


def gen_tol_edges():
    for base in EDGE_NAMES:
        for pi in range(len(EDGE_PAIRS)):
            for tcfg in EDGE_T:
                for ix, iy in itertools.product(range(len(EDGE_AX)), repeat=2):
                    if ix or iy:
                        yield (base, tcfg, ix, iy, pi)
            for ix, iy in itertools.product(range(len(EDGE_ZERO)), repeat=2):
                yield (base, "zero", ix, iy, pi)


def _fcls(v):
    return "0" if v == 0 else f"{abs(v):g}"


def run_tol_edges(case):
    base, tcfg, ix, iy, pi = case
    ma, mb = EDGE_PAIRS[pi]
    if tcfg == "zero":
        T = 0.0
        rx, ry = EDGE_ZERO[ix], EDGE_ZERO[iy]
        cls = f"x{_fcls(rx)}:y{_fcls(ry)}"
    else:
        T = EDGE_T[tcfg]
        rx, ry = EDGE_AX[ix] * T, EDGE_AX[iy] * T
        cls = f"x{_fcls(EDGE_AX[ix])}T:y{_fcls(EDGE_AX[iy])}T"
    a = gb(base, ma)
    a2 = gb(base, (ma[0] + 1, ma[1] - 1, 2, 2))
    tx, ty, ny, nx = mb
    b = GeoBox((ny, nx), BASES[base][0] * Affine.translation(tx + rx, ty + ry), crs_of(base))
    # exact residue of b on a's grid (rational arithmetic on the float affines actually used)
    m = mul6(inv6(fr6(a.affine)), fr6(b.affine))
    ex, ey = abs(m[2] - round(m[2])), abs(m[5] - round(m[5]))
    big, Tf = max(ex, ey), Fr(T)
    if T == 0.0:
        # tol=0 given explicitly is not "tol not given": a real offset (5e-9 px, 1e-3 px) must be rejected; float noise of a
        # non-dyadic grid (1e-16 px) need not
        expect = "reject" if big >= Fr(1, 10**9) else "either"
    elif big <= Tf * (1 - BAND):
        expect = "accept"
    elif big >= Tf * (1 + BAND):
        expect = "reject"
    else:
        expect = "either"
    kw = {} if tcfg == "default" else {"tol": T}
    ops = {
        "a.overlap_roi(b)": lambda: a.overlap_roi(b, **kw),
        "b.overlap_roi(a)": lambda: b.overlap_roi(a, **kw),
        "bounding_box_in_pixel_domain(b,a)": lambda: bounding_box_in_pixel_domain(b, a, **kw),
        "bounding_box_in_pixel_domain(a,b)": lambda: bounding_box_in_pixel_domain(a, b, **kw),
    }
    if tcfg == "default":
        ops.update({
            "a|b": lambda: a | b, "b|a": lambda: b | a, "a&b": lambda: a & b, "b&a": lambda: b & a,
            "union([a,a2,b])": lambda: geobox_union_conservative([a, a2, b]),
            "union([b,a,a2])": lambda: geobox_union_conservative([b, a, a2]),
            "intersection([a,a2,b])": lambda: geobox_intersection_conservative([a, a2, b]),
            "intersection([a2,b,a])": lambda: geobox_intersection_conservative([a2, b, a]),
        })
    got = {k: call(f) for k, f in ops.items()}
    r = R(outcome=f"{base}:tol={tcfg}:{expect}:" + ("raised" if all(v[0] == "raised" for v in got.values())
                                                    else "accepted" if all(v[0] == "ok" for v in got.values()) else "mixed"))
    what = (f"base={base} a=shift({ma[0]},{ma[1]}) shape({ma[2]},{ma[3]}) b=shift({tx}+{rx!r},{ty}+{ry!r}) shape({ny},{nx}); "
            f"exact residue ({float(ex):.6g}, {float(ey):.6g}) px, tol={'default (1e-8)' if tcfg == 'default' else T!r}")
    ra, rb, ra2 = rect(ma), rect(mb), rect((ma[0] + 1, ma[1] - 1, 2, 2))
    tp = Fr(T) * 2 + TOL_PX
    for k, v in got.items():
        opn = k.split("(")[0] if "(" in k else k
        if expect == "reject" and v[0] != "raised":
            r.fail(f"tol-edge:accepted-outside-tolerance:{opn}:tol={tcfg}:{cls}",
                   f"{k} returned {v[1]!r} for a sub-pixel offset above the alignment tolerance; {what}")
        if expect == "accept" and v[0] == "raised":
            r.fail(f"tol-edge:rejected-inside-tolerance:{opn}:tol={tcfg}:{cls}",
                   f"{k} raised {type(v[1]).__name__}: {v[1]} for a sub-pixel offset below the alignment tolerance; {what}")
    if expect != "reject":
        # accepted results must be the common-grid answers
        for k, first, rects in (("a|b", a, [ra, rb]), ("b|a", b, [rb, ra]), ("union([a,a2,b])", a, [ra, ra2, rb]),
                                ("union([b,a,a2])", b, [rb, ra, ra2])):
            if k in got and got[k][0] == "ok":
                judge_union(r, base, got[k], rects, "tol-edge", f"{k} {what}", tp, TOL_LIN)
        for k, rects in (("a&b", [ra, rb]), ("b&a", [rb, ra]), ("intersection([a,a2,b])", [ra, ra2, rb]),
                         ("intersection([a2,b,a])", [ra2, rb, ra])):
            if k in got and got[k][0] == "ok":
                judge_inter(r, base, got[k], rects, "tol-edge", f"{k} {what}", tp, TOL_LIN)
        if got["a.overlap_roi(b)"][0] == "ok":
            judge_roi(r, base, a, b, ma, mb, "a", kw)
        if got["b.overlap_roi(a)"][0] == "ok":
            judge_roi(r, base, b, a, mb, ma, "b", kw)
        for k, want in (("bounding_box_in_pixel_domain(b,a)", (rb[0] - ra[0], rb[1] - ra[1], rb[2] - ra[0], rb[3] - ra[1])),
                        ("bounding_box_in_pixel_domain(a,b)", (ra[0] - rb[0], ra[1] - rb[1], ra[2] - rb[0], ra[3] - rb[1]))):
            if got[k][0] == "ok" and tuple(got[k][1]) != want:
                r.fail(f"tol-edge:bounding_box_in_pixel_domain:value:tol={tcfg}", f"{k} -> {tuple(got[k][1])} want {want}; {what}")
    if tcfg == "explicit-1e-8":
        # the option given explicitly with its default value answers like the option omitted
        for k, f in (("a.overlap_roi(b)", lambda: a.overlap_roi(b)), ("bounding_box_in_pixel_domain(b,a)", lambda: bounding_box_in_pixel_domain(b, a))):
            d = call(f)
            same = d[0] == got[k][0] and (d[0] == "raised" or tuple(d[1]) == tuple(got[k][1]))
            if not same:
                r.fail(f"tol-edge:explicit-default-differs:{k.split('(')[0]}", f"{k}: tol omitted -> {d!r}, tol=1e-8 -> {got[k]!r}; {what}")
    if tcfg == "default":
        # snap_to: the result is on the other grid as far as the library's own alignment test (1e-8 px) is concerned
        for who, x, y, mx, my in (("b.snap_to(a)", b, a, mb, ma), ("a.snap_to(b)", a, b, ma, mb)):
            s = call(x.snap_to, y)
            if s[0] == "raised":
                r.fail(f"tol-edge:snap_to:raised:{cls}", f"{who}: {s[1]}; {what}")
                continue
            s = s[1]
            mv = mul6(inv6(fr6(x.affine)), fr6(s.affine))
            og = mul6(inv6(fr6(y.affine)), fr6(s.affine))
            if abs(mv[2]) > Fr(1, 2) or abs(mv[5]) > Fr(1, 2):
                r.fail(f"tol-edge:snap_to:moves-more-than-half-pixel:{cls}", f"{who} moved by ({float(mv[2])!r},{float(mv[5])!r}); {what}")
            off = max(abs(og[2] - round(og[2])), abs(og[5] - round(og[5])))
            if off > Fr(1e-8) * (1 + BAND):
                r.fail(f"tol-edge:snap_to:result-off-grid-by-more-than-alignment-tolerance:{cls}",
                       f"{who} -> {s!r} is {float(off):.6g} px off the other grid; {what}")
            u = call(lambda: s | y)  # pylint: disable=cell-var-from-loop
            if u[0] == "raised":
                r.fail(f"tol-edge:snap_to:snapped-geobox-rejected-by-union:{cls}", f"({who}) | other raised {u[1]}; {what}")
    return r


# -- deviations below a per-pixel tolerance that add up over a long raster ------------------------------------
LONG_SHAPES = {"landscape-1x2000": (1, 2000), "portrait-2000x1": (2000, 1), "2500x3000": (2500, 3000), "landscape-1x200000": (1, 200000)}
LONG_DEV = {
    "aligned": Affine.identity(),
    "scale-x+9e-4": Affine.scale(1 + 9e-4, 1.0), "scale-x-9e-4": Affine.scale(1 - 9e-4, 1.0),
    "scale-y+9e-4": Affine.scale(1.0, 1 + 9e-4), "scale-y-9e-4": Affine.scale(1.0, 1 - 9e-4),
    "shear-x-9e-4": Affine(1.0, 9e-4, 0.0, 0.0, 1.0, 0.0), "shear-y-9e-4": Affine(1.0, 0.0, 0.0, 9e-4, 1.0, 0.0),
    "rot+0.05deg": Affine.rotation(0.05), "rot-0.05deg": Affine.rotation(-0.05),
    "scale-x+9e-6": Affine.scale(1 + 9e-6, 1.0), "scale-x-9e-6": Affine.scale(1 - 9e-6, 1.0),
    "scale-both+9e-6": Affine.scale(1 + 9e-6, 1 + 9e-6), "scale-y+9e-6": Affine.scale(1.0, 1 + 9e-6),
    "scale-x+1e-12": Affine.scale(1 + 1e-12, 1.0),
}
LONG_BASES = ("D-northup", "D-rot45", "D-flipx", "R-northup", "R-rot30", "R-tiny")
LONG_SHIFTS = ((0, 0), (1999, -3), (-2001, 1))


def gen_long():
    for base in LONG_BASES:
        for sname in LONG_SHAPES:
            for dev in LONG_DEV:
                for sh in LONG_SHIFTS:
                    yield (base, sname, dev, sh)


def run_long(case):
    base, sname, dev, (sx, sy) = case
    ny, nx = LONG_SHAPES[sname]
    ma, mb = (0, 0, ny, nx), (sx, sy, ny, nx)
    a = gb(base, ma)
    b = GeoBox((ny, nx), BASES[base][0] * Affine.translation(sx, sy) * LONG_DEV[dev], crs_of(base))
    # largest displacement of a corner of one raster from the whole-pixel lattice of the other one
    drift = Fr(0)
    for x, y in ((a, b), (b, a)):
        rel = mul6(inv6(fr6(y.affine)), fr6(x.affine))
        t0 = (round(rel[2]), round(rel[5]))
        for cx, cy in ((0, 0), (nx, 0), (0, ny), (nx, ny)):
            px, py = apply6(rel, Fr(cx), Fr(cy))
            drift = max(drift, abs(px - cx - t0[0]), abs(py - cy - t0[1]))
    a2 = gb(base, (1, -1, 2, 2))
    ops = {
        "a|b": ("binary", lambda: a | b), "b|a": ("binary", lambda: b | a),
        "a&b": ("binary", lambda: a & b), "b&a": ("binary", lambda: b & a),
        "a.overlap_roi(b)": ("overlap_roi", lambda: a.overlap_roi(b)), "b.overlap_roi(a)": ("overlap_roi", lambda: b.overlap_roi(a)),
        "union([a,a2,b])": ("nary", lambda: geobox_union_conservative([a, a2, b])),
        "intersection([a,a2,b])": ("nary", lambda: geobox_intersection_conservative([a, a2, b])),
        "bounding_box_in_pixel_domain(b,a)": ("pixel-domain", lambda: bounding_box_in_pixel_domain(b, a)),
    }
    got = {k: call(f) for k, (_, f) in ops.items()}
    expect = "accept" if dev == "aligned" else ("reject" if drift >= Fr(1, 2) else "either")
    acc = sum(v[0] == "ok" for v in got.values())
    r = R(outcome=f"{base}:{sname}:{expect}:{'accepted' if acc == len(got) else 'rejected' if acc == 0 else 'mixed'}",
          nontrivial=expect != "either")
    what = (f"base={base} a=shape({ny},{nx}) b=a shifted by ({sx},{sy}) px then {dev}: corners drift up to "
            f"{float(drift):.4g} px from the other raster's pixel lattice")
    if expect == "reject":
        for k, v in got.items():
            if v[0] != "raised":
                r.fail(f"long:accepted-grid-drifting-half-pixel-or-more:{ops[k][0]}:{dev}:{sname}",
                       f"{k} returned {v[1]!r}; {what}")
    elif expect == "accept":
        ra, rb, ra2 = rect(ma), rect(mb), rect((1, -1, 2, 2))
        judge_union(r, base, got["a|b"], [ra, rb], "long", f"a|b {what}")
        judge_union(r, base, got["b|a"], [rb, ra], "long", f"b|a {what}")
        judge_inter(r, base, got["a&b"], [ra, rb], "long", f"a&b {what}")
        judge_inter(r, base, got["b&a"], [rb, ra], "long", f"b&a {what}")
        judge_union(r, base, got["union([a,a2,b])"], [ra, ra2, rb], "long-nary", f"union([a,a2,b]) {what}")
        judge_inter(r, base, got["intersection([a,a2,b])"], [ra, ra2, rb], "long-nary", f"intersection([a,a2,b]) {what}")
        for who, x, y, mx, my in (("a", a, b, ma, mb), ("b", b, a, mb, ma)):
            g = got[f"{who}.overlap_roi({'b' if who == 'a' else 'a'})"]
            if g[0] == "raised":
                r.fail(f"overlap_roi:raised-on-common-grid:{base}", f"{who}.overlap_roi {what}: {g[1]}")
                continue
            w = inter([rect(mx), rect(my)])
            rm = rect(mx)
            want = ((0, 0), (0, 0)) if r_empty(w) else ((w[1] - rm[1], w[3] - rm[1]), (w[0] - rm[0], w[2] - rm[0]))
            sel = tuple(s.indices(n)[:2] for s, n in zip(g[1], (mx[2], mx[3])))
            sel = tuple((lo, max(lo, hi)) for lo, hi in sel)
            bad = not any(hi == lo for lo, hi in sel) if r_empty(w) else sel != want
            if bad:
                r.fail(f"overlap_roi:wrong-pixels:long:{base}", f"{who}.overlap_roi -> {g[1]} want rows/cols {want}; {what}")
    return r


# -- four operands in every order ----------------------------------------------------------------------------------
N4 = ((0, 0, 2, 3), (1, 1, 2, 2), (5, -6, 2, 2), (1, 1, 0, 2), (-2, -1, 4, 6), (3, 0, 2, 2), (7, 7, 3, 0))


def gen_nary4(tier):
    bases = BASE_NAMES + EXTRA_NAMES if tier == "thorough" else ("D-northup", "D-rot45", "R-mirrored", "D-sheared")

    def gen():
        for base in bases:
            for combo in itertools.combinations(range(len(N4)), 4):
                yield (base, combo)

    return gen


class _Once:
    """R wrapper that records a finding key once per case."""

    def __init__(self, r):
        self.r, self.seen = r, set()

    def fail(self, key, msg):
        if key not in self.seen:
            self.seen.add(key)
            self.r.fail(key, msg)


def run_nary4(case):
    base, combo = case
    ms = [N4[i] for i in combo]
    rects = [rect(m) for m in ms]
    n_empty = sum(r_empty(x) for x in rects)
    has_i = not r_empty(inter(rects))
    r = R(outcome=f"{base}:empty-operands{n_empty}:{'shared' if has_i else 'no-shared'}")
    ro = _Once(r)
    seen = {"union": set(), "intersection": set()}
    n = 0
    for perm in itertools.permutations(range(4)):
        gs = [gb(base, ms[i]) for i in perm]
        rs = [rects[i] for i in perm]
        what = f"order {[ms[i] for i in perm]} base={base}"
        res = {
            ("union", "nary"): call(geobox_union_conservative, gs),
            ("intersection", "nary"): call(geobox_intersection_conservative, gs),
            ("union", "fold"): call(lambda: _functools.reduce(lambda x, y: x | y, gs)),  # pylint: disable=cell-var-from-loop
            ("intersection", "fold"): call(lambda: _functools.reduce(lambda x, y: x & y, gs)),  # pylint: disable=cell-var-from-loop
        }
        n += 4
        for (op, form), v in res.items():
            if op == "union":
                g = judge_union(ro, base, v, rs, f"nary4-{form}", f"{form} union {what}")
                if g is not None and not r_empty(g):
                    seen[op].add(g)
            else:
                g = judge_inter(ro, base, v, rs, f"nary4-{form}", f"{form} intersection {what}")
                if g is not None and g[0] == "rect":
                    seen[op].add(g[1])
    for op, s in seen.items():
        if len(s) > 1:
            r.fail(f"nary4:{op}:result-depends-on-order:{base}", f"operands {ms}: results {sorted(s)} depending on the order")
    r.counts = dict(nary4_orderings=n)
    return r


# -- lazily cached state, call histories, derived views, same / equal objects ---------------------------------------
HIST_BASES = ("D-northup", "D-rot45", "D-sheared", "R-northup", "R-mirrored")
HIST_PAIRS = (((0, 0, 2, 3), (1, -1, 2, 2)), ((0, 0, 3, 2), (4, 1, 1, 3)), ((-1, 2, 2, 2), (0, 2, 0, 3)))
HIST_VARIANTS = ("warm-extent", "warm-all", "sequence-twice", "derived-from-parent", "same-object", "equal-object")


def gen_history():
    for base in HIST_BASES:
        for pi in range(len(HIST_PAIRS)):
            for v in HIST_VARIANTS:
                yield (base, pi, v)


def _canon(v):
    if v[0] == "raised":
        return ("raised", type(v[1]).__name__)
    x = v[1]
    if isinstance(x, GeoBox):
        return ("geobox", tuple(x.shape), tuple(x.affine)[:6], str(x.crs))
    if isinstance(x, tuple) and all(isinstance(s, slice) for s in x):
        return ("roi", tuple((s.start, s.stop, s.step) for s in x))
    return ("other", repr(x))


def _fresh(base, m):
    tx, ty, ny, nx = m
    return GeoBox((ny, nx), member_affine(base, tx, ty), CRS(BASES[base][1]))


def _snapshot(g):
    return (tuple(g.shape), tuple(g.affine)[:6], str(g.crs), g.extent.geom.wkt, tuple(g.boundingbox))


HIST_OPS = ("a|b", "b|a", "a&b", "b&a", "a.overlap_roi(b)", "b.overlap_roi(a)", "a.snap_to(b)", "a.enclosing(b.extent)",
            "union([a,b,a])", "intersection([b,a])", "a.snap_to(b moved by 1/4,-1/2 px)", "b.snap_to(a moved by -1/4,1/4 px)")


def _hist_op(name, a, b):
    return {
        "a|b": lambda: a | b, "b|a": lambda: b | a, "a&b": lambda: a & b, "b&a": lambda: b & a,
        "a.overlap_roi(b)": lambda: a.overlap_roi(b), "b.overlap_roi(a)": lambda: b.overlap_roi(a),
        "a.snap_to(b)": lambda: a.snap_to(b), "a.enclosing(b.extent)": lambda: a.enclosing(b.extent),
        "union([a,b,a])": lambda: geobox_union_conservative([a, b, a]),
        "intersection([b,a])": lambda: geobox_intersection_conservative([b, a]),
        # snapping that really moves the GeoBox: the result must not keep anything computed for the original
        "a.snap_to(b moved by 1/4,-1/2 px)": lambda: a.snap_to(GeoBox(tuple(b.shape), b.affine * Affine.translation(0.25, -0.5), b.crs)),
        "b.snap_to(a moved by -1/4,1/4 px)": lambda: b.snap_to(GeoBox(tuple(a.shape), a.affine * Affine.translation(-0.25, 0.25), a.crs)),
    }[name]


def run_history(case):
    base, pi, variant = case
    ma, mb = HIST_PAIRS[pi]
    if variant in ("same-object", "equal-object"):
        mb = ma
    r = R(outcome=f"{base}:{variant}")
    what = f"{variant}: {show(base, ma, mb)}"
    # cold reference: every operation on its own pair of fresh objects
    cold = {}
    for k in HIST_OPS:
        cold[k] = _canon(call(_hist_op(k, _fresh(base, ma), _fresh(base, mb))))
    a = _fresh(base, ma)
    if variant == "same-object":
        b = a
    elif variant == "derived-from-parent":
        parent = GeoBox((14, 14), member_affine(base, -6, -6), CRS(BASES[base][1]))
        _ = parent.extent, parent.boundingbox, parent.geographic_extent
        a = parent[ma[1] + 6:ma[1] + 6 + ma[2], ma[0] + 6:ma[0] + 6 + ma[3]]
        b = parent[mb[1] + 6:mb[1] + 6 + mb[2], mb[0] + 6:mb[0] + 6 + mb[3]]
        for nm, g, m in (("a", a, ma), ("b", b, mb)):
            st, gr, _ = locate(base, g)
            if st != "ok" or gr != rect(m):
                return r.fail(f"history:crop-of-parent-is-not-the-member:{base}", f"{what}: parent[...] -> {g!r} ({st} {gr}) want {rect(m)}")
    else:
        b = _fresh(base, mb)
    if variant in ("warm-extent", "warm-all", "sequence-twice", "same-object", "equal-object"):
        _ = a.extent, b.extent
    if variant == "warm-all":
        for g in (a, b):
            for read in (lambda: g.boundingbox, lambda: g.geographic_extent, lambda: hash(g), lambda: g.resolution,
                         lambda: g.is_empty(), lambda: repr(g), lambda: g.center_pixel, lambda: g.footprint("EPSG:4326", npoints=10)):
                try:
                    read()
                except Exception:  # pylint: disable=broad-except
                    pass  # the reads are history only; what they return is not this property's business
    before = (_snapshot(a), _snapshot(b))
    want_snap = (_snapshot(_fresh(base, ma)), _snapshot(_fresh(base, mb)))
    if variant != "derived-from-parent" and before != want_snap:
        r.fail(f"history:operand-state-differs-from-fresh:{variant}:{base}", f"{what}: {before} vs {want_snap}")
    order = list(HIST_OPS) + (list(reversed(HIST_OPS)) if variant == "sequence-twice" else [])
    derived = variant == "derived-from-parent"
    for k in order:
        v = call(_hist_op(k, a, b))
        c = _canon(v)
        opn = k.split("(")[0] if "(" in k else k
        if derived:
            # a crop of the parent carries other rounding than base * translation: compare as grid locations, and
            # leave out enclosing(b.extent), whose region sides sit exactly on pixel lines
            if k == "a.enclosing(b.extent)" and not is_exact(base):
                continue
            c0 = call(_hist_op(k, _fresh(base, ma), _fresh(base, mb)))
            if c[0] == "geobox" and c0[0] == "ok" and isinstance(c0[1], GeoBox):
                l1, l0 = locate(base, v[1]), locate(base, c0[1])
                same = (l1[0], l1[1]) == (l0[0], l0[1]) or (0 in tuple(v[1].shape) and tuple(v[1].shape) == tuple(c0[1].shape))
                if not same:
                    r.fail(f"history:answer-differs-from-cold-call:{opn}:{variant}:{base}", f"{what}: {k} -> {v[1]!r} but on fresh objects {c0[1]!r}")
                c = cold[k]
        if c != cold[k]:
            r.fail(f"history:answer-differs-from-cold-call:{opn}:{variant}:{base}", f"{what}: {k} -> {c} but on fresh objects {cold[k]}")
        if v[0] == "ok" and isinstance(v[1], GeoBox):
            g = v[1]
            twin = GeoBox(tuple(g.shape), g.affine, CRS(BASES[base][1]))
            if g.extent.geom.wkt != twin.extent.geom.wkt or tuple(g.boundingbox) != tuple(twin.boundingbox):
                r.fail(f"history:result-carries-stale-extent:{opn}:{variant}:{base}",
                       f"{what}: {k} -> {g!r} reports extent {g.extent.geom.wkt[:120]} but a GeoBox of the same shape/affine has {twin.extent.geom.wkt[:120]}")
    if (_snapshot(a), _snapshot(b)) != before:
        r.fail(f"history:operand-modified:{variant}:{base}", f"{what}: operands changed by the operations")
    # state independent clauses on the warm objects
    ra, rb = rect(ma), rect(mb)
    tag = "history"
    judge_union(r, base, call(lambda: a | b), [ra, rb], tag, f"a|b {what}")
    judge_inter(r, base, call(lambda: a & b), [ra, rb], tag, f"a&b {what}")
    judge_roi(r, base, a, b, ma, mb, "a")
    return r


# -- enclosing of regions that are not the usual polygon ------------------------------------------------------------------
EK_BASES = ("D-northup", "D-rot45", "R-northup", "D-flipx")
EK_POINTS = (((1.5, 1.5), (3.25, 1.5), (3.25, 2.75)), ((1.0, 1.0), (3.0, 1.0), (3.0, 3.0)), ((-2.25, 0.5), (0.75, 0.5), (0.75, 4.0)))
EK_KINDS = ("point", "line", "line3", "multipoint", "multiline", "triangle", "triangle-repeated-vertices", "ring",
            "multipolygon-1", "multipolygon-2", "collection", "polygon-with-hole", "bbox-vs-polygon", "empty-polygon",
            "empty-collection", "empty-point", "no-crs")


def gen_enclosing_kinds():
    for base in EK_BASES:
        for pi in range(len(EK_POINTS)):
            for kind in EK_KINDS:
                yield (base, pi, kind)


def run_enclosing_kinds(case):
    import shapely.geometry as sg  # pylint: disable=import-outside-toplevel

    base, pi, kind = case
    crs = crs_of(base)
    src = gb(base, (1, -2, 2, 3))
    P = EK_POINTS[pi]
    W = [_world(base, px, py) for px, py in P]
    far = [_world(base, px + 6, py - 3) for px, py in P]
    r = R(outcome=f"{base}:{kind}")
    what = f"base={base} src=shift(1,-2) region={kind} at pixel locations {P}"
    if kind.startswith("empty") or kind == "no-crs":
        region = {
            "empty-polygon": lambda: geom.Geometry(sg.Polygon(), crs),
            "empty-collection": lambda: geom.Geometry(sg.GeometryCollection(), crs),
            "empty-point": lambda: geom.Geometry(sg.Point(), crs),
            "no-crs": lambda: geom.polygon(W + W[:1], None),
        }[kind]()
        got = call(src.enclosing, region)
        r.outcome += ":raised" if got[0] == "raised" else ":returned"
        if got[0] == "ok":
            if kind == "no-crs":
                r.fail("enclosing:region-without-crs-accepted", f"{what}: {got[1]!r}")
            elif locate(base, got[1])[0] != "ok":
                r.fail(f"enclosing:empty-region:result-not-on-source-grid:{kind}", f"{what}: {got[1]!r}")
        return r
    verts = list(W)
    if kind == "point":
        verts = W[:1]
        region = geom.point(*W[0], crs)
    elif kind == "line":
        verts = W[:2]
        region = geom.line(W[:2], crs)
    elif kind == "line3":
        region = geom.line(W, crs)
    elif kind == "multipoint":
        region = geom.multipoint(W, crs)
    elif kind == "multiline":
        region = geom.multiline([W[:2], W[1:]], crs)
    elif kind == "triangle":
        region = geom.polygon(W + W[:1], crs)
    elif kind == "triangle-repeated-vertices":
        region = geom.polygon([p for p in W for _ in (0, 1)] + W[:1] + W[:1], crs)
    elif kind == "ring":
        region = geom.polygon(W + W[:1], crs).exterior
    elif kind == "multipolygon-1":
        region = geom.multipolygon([[W + W[:1]]], crs)
    elif kind == "multipolygon-2":
        verts = W + far
        region = geom.multipolygon([[W + W[:1]], [far + far[:1]]], crs)
    elif kind == "collection":
        verts = W + far[:1]
        region = geom.Geometry(sg.GeometryCollection([sg.Polygon(W), sg.Point(far[0])]), crs)
    elif kind == "polygon-with-hole":
        big = [_world(base, px, py) for px, py in ((-5.5, -4.25), (9.25, -4.25), (9.25, 8.5), (-5.5, 8.5))]
        verts = big
        region = geom.polygon(big + big[:1], crs, W + W[:1])
    elif kind == "bbox-vs-polygon":
        xs, ys = [p[0] for p in W], [p[1] for p in W]
        bb = (min(xs), min(ys), max(xs), max(ys))
        verts = [(bb[0], bb[1]), (bb[2], bb[1]), (bb[2], bb[3]), (bb[0], bb[3])]
        region = BoundingBox(*bb, crs)
        alt = call(src.enclosing, geom.polygon(verts + verts[:1], crs))
    else:
        raise ValueError(kind)
    got = call(src.enclosing, region)
    if got[0] == "raised":
        return r.fail(f"enclosing:raised:{kind}:{base}", f"{what}: {type(got[1]).__name__}: {got[1]}")
    if kind == "bbox-vs-polygon" and _canon(alt) != _canon(got):
        r.fail(f"enclosing:bbox-and-its-polygon-differ:{base}", f"{what}: BoundingBox -> {got[1]!r}, its polygon -> {alt[1]!r}")
    st, g, _ = locate(base, got[1])
    if st != "ok":
        return r.fail(f"enclosing:{st}:{kind}:{base}", f"{what}: {got[1]!r} is not on the source grid ({st})")
    inv = base_inv(base)
    pts = [apply6(inv, Fr(x), Fr(y)) for x, y in verts]
    tol = tols(base)[0]
    for ax, (g0, g1) in (("x", (g[0], g[2])), ("y", (g[1], g[3]))):
        i = 0 if ax == "x" else 1
        lo, hi = min(p[i] for p in pts), max(p[i] for p in pts)
        if g0 > lo + tol or g1 < hi - tol:
            r.fail(f"enclosing:region-not-covered:{ax}:{kind}:{base}",
                   f"{what}: result pixel rectangle {g} does not cover [{float(lo)!r}, {float(hi)!r}] on {ax}")
        elif hi - lo > tol:
            if not (lo - g0 < 1 + tol and g1 - hi < 1 + tol):
                r.fail(f"enclosing:excess-1px-or-more:{ax}:{kind}:{base}",
                       f"{what}: result pixel rectangle {g} exceeds [{float(lo)!r}, {float(hi)!r}] on {ax} by a pixel or more")
        elif g1 - g0 > 1:  # no extent on this axis: the documented minimum of one pixel, not more
            r.fail(f"enclosing:more-than-one-pixel-for-zero-extent:{ax}:{kind}:{base}",
                   f"{what}: result pixel rectangle {g}, region has no extent on {ax} (at {float(lo)!r})")
    return r


# -- the same value in another encoding ----------------------------------------------------------------------------------
ENC_BASES = {"D-northup": 32633, "R-northup": 4326, "D-sheared": 3857}
ENC_PAIRS = (((0, 0, 2, 3), (1, -1, 2, 2)), ((0, 0, 3, 2), (4, 1, 1, 3)))
ENC_SAME = ("shape-list", "shape-np-int64", "shape-Shape2d", "shape-wh", "affine-int-entries", "affine-np-float64", "affine-neg-zero",
            "crs-int", "crs-lower", "crs-upper", "crs-urn", "crs-wkt2", "crs-wkt1", "crs-projjson", "crs-pyproj", "crs-object", "crs-pickled")
ENC_OTHER = ("crs-stale-id-wkt", "crs-edited-wkt-no-id", "crs-none")
_PP = {}


def _pp(code):
    if code not in _PP:
        _PP[code] = pyproj.CRS.from_epsg(code)
    return _PP[code]


def _edited_wkt(code, keep_id):
    import re  # pylint: disable=import-outside-toplevel

    w = _pp(code).to_wkt()
    if code == 32633:
        w2 = w.replace('"Longitude of natural origin",15', '"Longitude of natural origin",16')
    else:
        w2 = w.replace("6378137", "6378136", 1)
    if w2 == w:
        raise AssertionError("WKT edit did not apply")
    if not keep_id:
        w2 = re.sub(r',\s*ID\["EPSG",%d\]\]\s*$' % code, "]", w2)
    if pyproj.CRS.from_wkt(w2) == _pp(code):
        return None  # PROJ itself takes the edited text for the same CRS (it does for EPSG:3857): nothing to judge
    return w2


def gen_encodings():
    for base in ENC_BASES:
        for pi in range(len(ENC_PAIRS)):
            for enc in ENC_SAME + ENC_OTHER:
                yield (base, pi, enc)


def run_encodings(case):
    import pickle  # pylint: disable=import-outside-toplevel

    base, pi, enc = case
    code = ENC_BASES[base]
    ma, mb = ENC_PAIRS[pi]
    a = gb(base, ma)
    tx, ty, ny, nx = mb
    A = member_affine(base, tx, ty)
    shape, crs = (ny, nx), crs_of(base)
    r = R(outcome=f"{base}:{enc}")
    if enc == "shape-list":
        shape = [ny, nx]
    elif enc == "shape-np-int64":
        shape = (np.int64(ny), np.int64(nx))
    elif enc == "shape-Shape2d":
        shape = shape_((ny, nx))
    elif enc == "shape-wh":
        shape = wh_(nx, ny)
    elif enc == "affine-int-entries":
        if any(float(v) != int(v) for v in tuple(A)[:6]):
            r.outcome += ":not-integral"
            r.nontrivial = False
        else:
            A = Affine(*(int(v) for v in tuple(A)[:6]))
    elif enc == "affine-np-float64":
        A = Affine(*(np.float64(v) for v in tuple(A)[:6]))
    elif enc == "affine-neg-zero":
        A = Affine(*((-0.0 if v == 0 else v) for v in tuple(A)[:6]))
    elif enc == "crs-int":
        crs = code
    elif enc == "crs-lower":
        crs = f"epsg:{code}"
    elif enc == "crs-upper":
        crs = f"EPSG:{code}"
    elif enc == "crs-urn":
        crs = f"urn:ogc:def:crs:EPSG::{code}"
    elif enc == "crs-wkt2":
        crs = _pp(code).to_wkt()
    elif enc == "crs-wkt1":
        crs = _pp(code).to_wkt("WKT1_GDAL")
    elif enc == "crs-projjson":
        crs = _copy.deepcopy(_pp(code).to_json_dict())
    elif enc == "crs-pyproj":
        crs = pyproj.CRS.from_epsg(code)
    elif enc == "crs-object":
        crs = CRS(f"EPSG:{code}")
    elif enc == "crs-pickled":
        crs = pickle.loads(pickle.dumps(CRS(_pp(code).to_wkt())))
    elif enc == "crs-stale-id-wkt":
        crs = _edited_wkt(code, True)
    elif enc == "crs-edited-wkt-no-id":
        crs = _edited_wkt(code, False)
    elif enc == "crs-none":
        crs = None
    if crs is None and enc != "crs-none":
        return R(outcome=f"{base}:{enc}:skipped-proj-says-equal", nontrivial=False)
    b = GeoBox(shape, A, crs)
    a2 = gb(base, (ma[0] + 1, ma[1] - 1, 2, 2))
    ops = {
        "a|b": lambda: a | b, "b|a": lambda: b | a, "a&b": lambda: a & b, "b&a": lambda: b & a,
        "a.overlap_roi(b)": lambda: a.overlap_roi(b), "b.overlap_roi(a)": lambda: b.overlap_roi(a),
        "union([a,a2,b])": lambda: geobox_union_conservative([a, a2, b]),
        "intersection([a2,b,a])": lambda: geobox_intersection_conservative([a2, b, a]),
        "bounding_box_in_pixel_domain(b,a)": lambda: bounding_box_in_pixel_domain(b, a),
    }
    got = {k: call(f) for k, f in ops.items()}
    what = f"base={base} {show(base, ma, mb)}; b built with {enc}"
    if enc in ENC_OTHER:
        for k, v in got.items():
            if v[0] != "raised":
                r.fail(f"encodings:accepted-other-crs:{k.split('(')[0] if '(' in k else k}:{enc}",
                       f"{k} returned {v[1]!r} although b is in another CRS ({enc}); {what}")
        return r
    ra, rb, ra2 = rect(ma), rect(mb), rect((ma[0] + 1, ma[1] - 1, 2, 2))
    tag = f"encoding-{enc}"
    judge_union(r, base, got["a|b"], [ra, rb], tag, f"a|b {what}")
    judge_union(r, base, got["b|a"], [rb, ra], tag, f"b|a {what}")
    judge_inter(r, base, got["a&b"], [ra, rb], tag, f"a&b {what}")
    judge_inter(r, base, got["b&a"], [rb, ra], tag, f"b&a {what}")
    judge_union(r, base, got["union([a,a2,b])"], [ra, ra2, rb], tag, f"union([a,a2,b]) {what}")
    judge_inter(r, base, got["intersection([a2,b,a])"], [ra2, rb, ra], tag, f"intersection([a2,b,a]) {what}")
    judge_roi(r, base, a, b, ma, mb, "a")
    judge_roi(r, base, b, a, mb, ma, "b")
    v = got["bounding_box_in_pixel_domain(b,a)"]
    want = (rb[0] - ra[0], rb[1] - ra[1], rb[2] - ra[0], rb[3] - ra[1])
    if v[0] == "raised" or tuple(v[1]) != want:
        r.fail(f"bounding_box_in_pixel_domain:{tag}", f"{v!r} want {want}; {what}")
    return r


# -- BoundingBox: inverted / degenerate boxes, CRS-less x CRS, tuples, number types -----------------------------------------
BBM_VALUES = (0, 1, 3)
BBM_BOXES = tuple((x0, y0, x1, y1) for x0, x1 in itertools.product(BBM_VALUES, repeat=2) for y0, y1 in itertools.product(BBM_VALUES, repeat=2))
BBM_FEW = ((0, 0, 1, 1), (0, 0, 3, 3), (1, 1, 3, 3), (1, 0, 3, 1), (0, 0, 0, 3), (3, 3, 3, 3), (3, 0, 1, 1))
BBM_CRS3 = ((0, 0, None), (0, 0, 1), (None, None, 0), (0, None, None), (0, 1, 1), (0, 1, None), (0, 0, 0), (None, None, None))
BBM_TRIPLES = ((0, 2, 1), (0, 3, 1), (3, 4, 5), (0, 5, 6))  # indices into BBM_FEW; first two operands overlapping / disjoint / ...
BBM_CRS = ("EPSG:3857", "EPSG:4326")
BBM_ENC = ("float", "np.float64", "np.int64", "np.float32", "neg-zero", "np.int8")
BBM_TUPLE = ("tuple", "list", "ndarray")


def gen_bbox_more(tier="quick"):
    n = len(BBM_BOXES)
    for i in range(n):
        for j in range(n):
            yield ("laws", i, j)
    for ti in range(len(BBM_TRIPLES)):
        for ci in range(len(BBM_CRS3)):
            yield ("crs-mix", ti, ci)
    m = len(BBM_FEW)
    for i in range(m):
        for j in range(m):
            for e in range(len(BBM_ENC)):
                yield ("number-types", i, j, e)
            for e in range(len(BBM_TUPLE)):
                yield ("tuple-operand", i, j, e)


_BBM_TIER = ["quick"]


def _set_empty(t):
    return t[0] > t[2] or t[1] > t[3]


def _bb_out(v):
    if v[0] == "raised":
        return ("raised",)
    x = v[1]
    return ("value", tuple(x), None if x.crs is None else str(x.crs)) if isinstance(x, BoundingBox) else ("other", repr(x))


def run_bbox_more(case):
    fam = case[0]
    if fam == "laws":
        _, i, j = case
        ta, tb = BBM_BOXES[i], BBM_BOXES[j]
        a, b = BoundingBox(*ta), BoundingBox(*tb)
        cls = ("inverted" if _set_empty(ta) else "valid") + "-" + ("inverted" if _set_empty(tb) else "valid")
        r = R(outcome=f"bbox-laws:{cls}", nontrivial=i != j)
        what = f"a={ta} b={tb}"
        u, n = a | b, a & b
        if u != (b | a):
            r.fail(f"bbox-union:not-commutative:{cls}", f"{what}: {u} vs {b | a}")
        if n != (b & a):
            r.fail(f"bbox-intersection:not-commutative:{cls}", f"{what}: {n} vs {b & a}")
        if (a | a) != a or (a & a) != a:
            r.fail(f"bbox:not-idempotent:{cls}", f"a={ta}: {a | a} {a & a}")
        if (a | n) != a:
            r.fail(f"bbox:absorption-union-over-intersection:{cls}", f"{what}: a|(a&b)={a | n}")
        if (a & u) != a:
            r.fail(f"bbox:absorption-intersection-over-union:{cls}", f"{what}: a&(a|b)={a & u}")
        for o, name in ((ta, "a"), (tb, "b")):
            if not _set_empty(o) and not contains(tuple(u), o):
                r.fail(f"bbox-union:does-not-contain-operand:{cls}", f"{what}: a|b={tuple(u)} does not contain {name}")
            if not _set_empty(tuple(n)) and not contains(o, tuple(n)):
                r.fail(f"bbox-intersection:not-contained-in-operand:{cls}", f"{what}: a&b={tuple(n)} is not inside {name}")
        # the set of common points, by brute force over the half-integer lattice spanned by the alphabet
        pts = [k / 2 for k in range(-1, 8)]
        common = any(ta[0] <= x <= ta[2] and tb[0] <= x <= tb[2] for x in pts) and any(ta[1] <= y <= ta[3] and tb[1] <= y <= tb[3] for y in pts)
        if common == _set_empty(tuple(n)):
            r.fail(f"bbox-intersection:emptiness-wrong:{cls}", f"{what}: a&b={tuple(n)}, operands {'share' if common else 'share no'} points")
        bad = None
        third = BBM_BOXES if _BBM_TIER[0] == "thorough" else BBM_BOXES[(i + j) % 3::3]  # quick: every third box, rotating
        for tc in third:
            c = BoundingBox(*tc)
            if ((u | c) != (a | (b | c)) or (n & c) != (a & (b & c)) or bbox_union([a, b, c]) != (u | c)
                    or bbox_intersection(iter([a, b, c])) != (n & c)) and bad is None:
                bad = tc
        r.counts = dict(bbox_triples=len(third))
        if bad is not None:
            r.fail(f"bbox:not-associative-or-nary-differs:{cls}", f"{what} c={bad}")
        return r
    if fam == "crs-mix":
        _, ti, ci = case
        crss = [None if c is None else CRS(BBM_CRS[c]) for c in BBM_CRS3[ci]]
        bxs = [BoundingBox(*BBM_FEW[k], crs) for k, crs in zip(BBM_TRIPLES[ti], crss)]
        distinct = {c for c in BBM_CRS3[ci] if c is not None}
        mixed = len(set(BBM_CRS3[ci])) > 1
        r = R(outcome=f"bbox-crs-mix:{BBM_CRS3[ci]}", nontrivial=mixed)
        what = f"boxes {[BBM_FEW[k] for k in BBM_TRIPLES[ti]]} with crs {[None if c is None else BBM_CRS[c] for c in BBM_CRS3[ci]]}"
        for name, fn in (("bbox_union", lambda l: bbox_union(l)), ("bbox_intersection", lambda l: bbox_intersection(l)),
                         ("fold-|", lambda l: _functools.reduce(lambda x, y: x | y, l)),
                         ("fold-&", lambda l: _functools.reduce(lambda x, y: x & y, l)),
                         ("bbox_intersection-of-iterator", lambda l: bbox_intersection(iter(l)))):
            outs = {}
            for perm in itertools.permutations(range(3)):
                outs[perm] = _bb_out(call(fn, [bxs[p] for p in perm]))
            kinds = {o[0] for o in outs.values()}
            if len(distinct) > 1 and kinds != {"raised"}:
                r.fail(f"bbox-crs-mix:two-different-crs-accepted:{name}", f"{name}: {what}: {outs}")
            elif len(kinds) > 1:
                r.fail(f"bbox-crs-mix:outcome-depends-on-order:{name}:{'none-and-crs' if len(distinct) == 1 else 'crs'}",
                       f"{name}: {what}: raises in some orders only: {outs}")
            elif kinds == {"value"} and len(set(outs.values())) > 1:
                r.fail(f"bbox-crs-mix:value-depends-on-order:{name}", f"{name}: {what}: {outs}")
            elif kinds == {"value"} and not mixed:
                pass
        return r
    _, i, j, e = case
    ta, tb = BBM_FEW[i], BBM_FEW[j]
    crs = CRS(BBM_CRS[0])
    a, b = BoundingBox(*ta, crs), BoundingBox(*tb, crs)
    want_u, want_n = tuple(a | b), tuple(a & b)
    if fam == "number-types":
        enc = BBM_ENC[e]
        conv = {"float": float, "np.float64": np.float64, "np.int64": np.int64, "np.float32": np.float32,
                "neg-zero": lambda v: -0.0 if v == 0 else float(v), "np.int8": np.int8}[enc]
        b2 = BoundingBox(*(conv(v) for v in tb), crs)
        r = R(outcome=f"bbox-number-types:{enc}")
        for name, got, want in (("|", call(lambda: a | b2), want_u), ("&", call(lambda: a & b2), want_n),
                                ("| swapped", call(lambda: b2 | a), want_u), ("& swapped", call(lambda: b2 & a), want_n),
                                ("bbox_union", call(bbox_union, [b2, a]), want_u), ("bbox_intersection", call(bbox_intersection, [b2, a]), want_n)):
            if got[0] == "raised" or tuple(got[1]) != want or got[1].crs != crs or not got[1] == BoundingBox(*want, crs):
                r.fail(f"bbox-number-types:{name.split()[0]}:{enc}", f"a={ta} b={tb} as {enc}: {name} -> {got!r} want {want}")
        return r
    form = BBM_TUPLE[e]
    tb2 = {"tuple": tuple(tb), "list": list(tb), "ndarray": np.asarray(tb)}[form]
    r = R(outcome=f"bbox-tuple-operand:{form}")
    outs = []
    for name, got, want in (("|", call(lambda: a | tb2), want_u), ("&", call(lambda: a & tb2), want_n),
                            ("bbox_union", call(bbox_union, [a, tb2]), want_u), ("bbox_intersection", call(bbox_intersection, [a, tb2]), want_n),
                            ("bbox_union-first", call(bbox_union, [tb2, a]), want_u)):
        outs.append(got[0])
        # an operand that is not a BoundingBox: an error is fine, a wrong box is not
        if got[0] == "ok" and (not isinstance(got[1], BoundingBox) or tuple(got[1]) != want):
            r.fail(f"bbox-tuple-operand:wrong-value:{name}:{form}", f"a={ta} other={tb2!r}: {name} -> {got[1]!r} want {want}")
    r.outcome += ":" + ("raised" if set(outs) == {"raised"} else "accepted" if set(outs) == {"ok"} else "mixed")
    return r


# ---------------------------------------------------------------------------------------------
def slices(tier):
    _BBM_TIER[0] = tier
    nm = len(triple_members(tier))
    return [
        e1.Slice("pairs", gen_pairs(tier), run_pair,
                 "6 base grids x first operand (every shape) x second operand (every whole-pixel shift x every shape): "
                 "| & overlap_roi in both orders, pixel_translation, bounding_box_in_pixel_domain"),
        e1.Slice("triples", gen_triples(tier), run_triple,
                 f"6 base grids x all ordered triples of a {nm}-member sub-family: associativity of | and &, n-ary forms"),
        e1.Slice("reject", gen_reject, run_reject,
                 "grids differing in pixel size / orientation / shear / sub-pixel residue must raise in every operation; "
                 "residues ~1e-9 px (below the documented tolerance) may be accepted but then must give the common-grid answer"),
        e1.Slice("reject-nary", gen_reject_nary, run_reject_nary,
                 "geobox_union/intersection_conservative on every ordering of [a, b, X]: a, b on the common grid (disjoint with a "
                 "gap, b empty, or overlapping), X with sub-pixel offset / other pixel size / rotated / mirrored / other CRS"),
        e1.Slice("snap", gen_snap, run_snap, "snap_to over whole-pixel shift + sub-pixel perturbation on both axes"),
        e1.Slice("enclosing", gen_enclosing(tier), run_enclosing,
                 "same-CRS regions (BoundingBox and polygon) with every side at a perturbed pixel line"),
        e1.Slice("enclosing-xcrs", gen_xcrs, run_xcrs,
                 "regions in another CRS: lon/lat, UTM and web-mercator boxes; few-pixel lon/lat quadrilaterals with "
                 "perturbed corners; boxes 30-600 km wide in projected CRSs (UTM 33N, LAEA 3035, web-mercator) on lon/lat, "
                 "web-mercator, UTM and LAEA grids (north-up and mirrored, a few to several hundred pixels); "
                 "oracle = fresh pyproj transformer on densely sampled edges"),
        e1.Slice("bbox-pairs", gen_bbox_pairs(tier), make_run_bbox_pair(tier), "all ordered pairs of valid boxes, crs None / 3857"),
        e1.Slice("bbox-triples", gen_bbox_pairs(tier, 1), make_run_bbox_triples(tier),
                 "all ordered triples of valid boxes, crs None (case = ordered pair, third operand enumerated inside)"),
        # -- self-review additions --
        e1.Slice("pairs-extra", gen_pairs_extra(tier), run_pair,
                 "pairs on 10 further bases: single mirrored axis, y-up, sheared, non-square pixels, rotated 45, tiny (4.5e-6) "
                 "and huge (1e5) pixels, origins near 1e7, origins 5e-4 / half a pixel off whole numbers, 1 cm pixels in UTM"),
        e1.Slice("pairs-aspect", gen_pairs_aspect(tier), run_pair,
                 "landscape (2x7) and portrait (7x2) first operands, second operand in both aspects, offsets 3/5/8 on each axis "
                 "and sign (larger than the shorter / the longer side)"),
        e1.Slice("triples-extra", gen_triples_extra(tier), run_triple, "ordered triples on the 10 further bases"),
        e1.Slice("shift-sweep", gen_sweep(tier), run_sweep,
                 "every whole-pixel shift -300..300 (thorough: -1000..1000) along x and along y on grids whose pixel coordinates are "
                 "large numbers (1 cm UTM, 4.5e-6 deg, origins near 1e7, huge pixels, rotated 45): | & overlap_roi must work"),
        e1.Slice("tol-edges", gen_tol_edges, run_tol_edges,
                 "sub-pixel offsets of f x tol, f in {0.9,0.999,1.001,1.1,10}, per axis and together, both signs; tol = default, "
                 "explicit 1e-8, 1e-3, 1e-10 and explicit 0, for | & overlap_roi n-ary forms bounding_box_in_pixel_domain snap_to"),
        e1.Slice("long", gen_long, run_long,
                 "rasters 2000-200000 px long: per-pixel deviations (scale 1+-9e-4 / 1+-9e-6, shear 9e-4, rotation 0.05 deg) that "
                 "displace the far corners by half a pixel or more must be rejected; whole-pixel shifts of ~2000 px accepted"),
        e1.Slice("nary4", gen_nary4(tier), run_nary4,
                 "all 24 orders of every 4-subset of a 7-member family (empty operands, disjoint, nested, touching): n-ary forms and "
                 "left folds of | and &"),
        e1.Slice("history", gen_history, run_history,
                 "lazy properties read first, all operations in sequence on one pair (twice), operands cropped from a parent, the "
                 "same object / an equal object as both operands: answers equal cold calls on fresh objects, results report their "
                 "own extent, operands unchanged"),
        e1.Slice("enclosing-kinds", gen_enclosing_kinds, run_enclosing_kinds,
                 "enclosing of points, lines, multi-geometries, rings, collections, polygons with repeated vertices / holes, a "
                 "BoundingBox vs its polygon, empty geometries, CRS-less regions"),
        e1.Slice("encodings", gen_encodings, run_encodings,
                 "second operand built from the same values in other encodings (shape list/numpy/Shape2d, affine int/numpy/-0.0, "
                 "CRS int/lower/upper/urn/WKT2/WKT1/PROJJSON/pyproj/pickled) must behave identically; CRS = edited WKT with a "
                 "stale EPSG id / without id / None must be rejected"),
        e1.Slice("bbox-more", gen_bbox_more, run_bbox_more,
                 "BoundingBox laws over all 81 boxes incl. inverted and zero-width ones (triples inside); CRS-less x CRS x other "
                 "CRS operands in every order; coordinates as float/numpy types/-0.0; tuple, list, ndarray operands"),
    ]


def main(ctx):
    ctx.rule = (
        "complete Cartesian products: (base grid, whole-pixel shifts, shapes 0..3) for pairs/triples; (incompatibility "
        "kind, members) for rejection; (shift, sub-pixel perturbation^2) for snap_to; (rectangle, perturbation^4, region "
        "kind) for enclosing; valid boxes over a 4-value alphabet for BoundingBox laws. Non-trivial = operands differ / "
        "perturbation non-zero / region has area; distinct by (slice, case) hash"
    )
    ctx.bounds = {
        "bases": {k: [list(v[0])[:6], v[1], "dyadic" if v[2] else "realistic"] for k, v in BASES.items()},
        "pairs": {k: list(v) for k, v in pair_space(ctx.tier).items()},
        "triple_members": len(triple_members(ctx.tier)),
        "perturbations": {"D": list(PERT_D), "R": list(PERT_R)},
        "incompatible": list(LINEAR) + ["residue in {1e-3 (2^-10 on D), 1/4, 1/2}^2"],
        "incompatible_nary": {"b": list(NARY_B), "bad": list(NARY_BAD), "orders": "all 6"},
        "bbox_alphabet": list(bbox_alphabet(ctx.tier)),
        "tolerance": "D: exact; R: 1e-6 px offsets, 1e-9 linear part",
    }
    ctx.assumptions = [
        "a family member's pixel rectangle in the base grid is known from the integers it was built from; results are "
        "located in the base grid by exact rational arithmetic on the float entries of their affine",
        "union with an operand that has 0 rows/columns: both the hull of all operand rectangles (what the code does) and the "
        "hull of the operands that have pixels are accepted as 'smallest GeoBox containing all operands'",
        "results without pixels (empty intersection) are only required to be empty GeoBoxes (a 0 in the shape, nothing "
        "negative); their location is not compared between orders/bracketings",
        "rejection: any exception counts as 'rejected with an error' (ValueError is what the code documents)",
        "residues of ~1e-9 px are below the alignment tolerance documented by bounding_box_in_pixel_domain (1e-8 px): "
        "acceptance or rejection are both fine; snap_to may leave such an offset in place (judged with 1e-6 px)",
        "enclosing: regions have positive area (the code documents a 1x1 result for point regions)",
        "enclosing across CRSs: a region's edges are straight in the region's own CRS; the oracle samples them densely "
        "(129 points per edge, refined 3x around each extreme) through a fresh pyproj transformer",
        "alignment tolerance: the documented default tol=1e-8 px of bounding_box_in_pixel_domain / overlap_roi is the contract: "
        "offsets <= 0.9995 tol must be accepted, >= 1.0005 tol rejected (exact residue from the float affines, bases with "
        "origins within 100 px of 0 so that float evaluation is 1000x finer than the band); tol=0 given explicitly must reject offsets >= 1e-9 px",
        "long rasters: a grid whose corners lie half a pixel or more off the other raster's pixel lattice is not 'related by a "
        "whole-pixel shift' and must be rejected, whatever per-pixel tolerance the linear part passes",
        "histories: answers are compared with the same call on fresh objects (exact for the same float inputs; as grid locations "
        "for crops of a parent)",
        "BoundingBox operands that are not BoundingBoxes (tuples etc.): an error is fine, a wrong box is not; CRS-less x CRS: the "
        "outcome (error or value) must not depend on the order of the operands; two different CRSs must raise in every order",
        "enclosing of a region without extent on an axis: it must be contained and the result is at most one pixel wide there",
    ]
    sl = slices(ctx.tier)
    if ctx.only:
        sl = [s for s in sl if any(s.name.startswith(o) for o in ctx.only)]
    e1.run_slices(ctx, sl)
    ctx.extra.update(bbox_triples=int(ctx.counters["bbox_triples"]), nary4_orderings=int(ctx.counters["nary4_orderings"]))


def replay(slice_name, case, tier):
    return e1.replay(slices(tier), slice_name, case).fails
