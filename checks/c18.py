"""C18 - part writers: upload initiated exactly once; sinks honour their contract.

E3a: every interleaving (<= preemption bound, line granularity inside cog/_s3.py plus every fake
lock / variable / storage operation) of 2..3 workers doing their first write through the real
DelayedS3Writer, in three set-ups; E1: MPUFileSink finalisation and limit accessors.
"""
from __future__ import annotations

import copy
import itertools
import os
import shutil
import tempfile
from collections import Counter
from pathlib import Path

from vf import core, e1, sched
from vf.core import R

PROPERTY = "C18"
LEVEL = "model_checking"

import distributed  # noqa: E402

from odc.geo.cog import _mpu_fs, _s3  # noqa: E402

S3_FILE = _s3.__file__


# -- cooperative fakes -----------------------------------------------------------------------------
class TransientStorageError(ConnectionError):
    """What the fake S3 client raises for an injected one-off failure of upload_part."""


class FakeS3:
    def __init__(self, s: sched.Sched, fail_at=None):
        self.s = s
        self.calls = []
        self.n = 0
        self.fail_at = fail_at  # index (in call order) of the upload_part call that fails once, or None
        self.nparts_called = 0

    def create_multipart_upload(self, Bucket, Key, **kw):
        self.s.point("s3.create:begin")
        self.n += 1
        uid = f"U{self.n}"
        self.calls.append(("create", uid, Bucket, Key))
        self.s.point("s3.create:end")
        return {"UploadId": uid}

    def upload_part(self, PartNumber, Body, Bucket, Key, UploadId):
        self.s.point("s3.upload_part")
        k = self.nparts_called
        self.nparts_called += 1
        if k == self.fail_at:
            self.calls.append(("part-failed", PartNumber, UploadId, Bucket, Key))
            raise TransientStorageError(f"injected failure of upload_part call #{k}")
        self.calls.append(("part", PartNumber, UploadId, Bucket, Key))
        return {"ETag": f'"e{PartNumber}"'}

    def complete_multipart_upload(self, Bucket, Key, UploadId, MultipartUpload):
        self.s.point("s3.complete")
        self.calls.append(("complete", UploadId, tuple(p["PartNumber"] for p in MultipartUpload["Parts"]), Bucket, Key))
        return {"ETag": '"final"'}


class FakeClient:
    """Stands for the dask cluster: named variables and named locks, sequentially consistent."""

    def __init__(self, s: sched.Sched):
        self.s = s
        self.vars = {}
        self.locks = {}
        self.deleted = []


class FakeVariable:
    def __init__(self, name=None, client=None):
        self.name, self.client = name, client

    def get(self, timeout=None):
        self.client.s.point(("var.get", self.name))
        if self.name not in self.client.vars:
            raise TimeoutError()  # an unset variable blocks until the timeout expires
        return self.client.vars[self.name]

    def set(self, value):
        self.client.s.point(("var.set", self.name))
        self.client.vars[self.name] = value

    def delete(self):
        self.client.s.point(("var.delete", self.name))
        self.client.vars.pop(self.name, None)
        self.client.deleted.append(self.name)

    def __deepcopy__(self, memo):
        return FakeVariable(self.name, self.client)


class FakeDLock:
    def __init__(self, name=None, client=None):
        self.lk = client.locks.setdefault(name, sched.FakeLock(client.s, f"dlock:{name[:12]}"))

    def __enter__(self):
        self.lk.acquire()
        return self

    def __exit__(self, *a):
        self.lk.release()
        return False


class Patch:
    """Attribute replacement with restore (all seams are injected from the harness)."""

    def __init__(self):
        self.saved = []

    def set(self, obj, name, val):
        self.saved.append((obj, name, getattr(obj, name)))
        setattr(obj, name, val)

    def restore(self):
        for obj, name, val in reversed(self.saved):
            setattr(obj, name, val)


SETUPS = ("local-shared", "cluster-shared", "cluster-copies",
          # history: an earlier attempt for the SAME object wrote a part (its upload id was published) and ended without
          # finalise; a new writer is created as a retry and its workers race for the first write
          "local-shared-retry", "cluster-shared-retry", "cluster-copies-retry",
          # environment deviation: the k-th upload_part call (in call order) fails once with a transient error and the
          # worker repeats that write, as a task retry does; still one upload, every stored part under its id
          "local-shared-fault0", "local-shared-fault1", "cluster-shared-fault0", "cluster-shared-fault1",
          "cluster-copies-fault0", "cluster-copies-fault1",
          # TWO different objects written in one session (worker k writes to object k % 2): each object gets its own single
          # upload whatever the two (bucket, key) spellings are - incl. pairs whose joined text coincides
          "cluster-copies-2obj:distinct", "cluster-copies-2obj:same-joined-text", "cluster-copies-2obj:same-joined-text2",
          "cluster-copies-2obj:same-key-other-bucket", "cluster-copies-2obj:same-bucket-other-key", "cluster-copies-2obj:key-prefix",
          "cluster-shared-2obj:same-joined-text", "local-shared-2obj:same-joined-text")

TWO_OBJECTS = {
    "distinct": (("bucket", "a.tif"), ("other", "b.tif")),
    "same-joined-text": (("my-data", "a.tif"), ("my", "data-a.tif")),
    "same-joined-text2": (("bkt", "x/y.tif"), ("bkt/x", "y.tif")),
    "same-key-other-bucket": (("bucket1", "key.tif"), ("bucket2", "key.tif")),
    "same-bucket-other-key": (("bucket", "key1.tif"), ("bucket", "key2.tif")),
    "key-prefix": (("bucket", "key.tif"), ("bucket", "key.tif.ovr")),
}


def make_system(setup: str, nthreads: int, with_finalise: bool):
    def make(prefix):
        s = sched.Sched(prefix, [S3_FILE], exclude_funcs=("__dask_tokenize__",))
        retry = setup.endswith("-retry")
        base_setup = setup[: -len("-retry")] if retry else setup
        fail_at = None
        two = None
        if "-2obj:" in setup:
            base_setup, _, kind2 = setup.partition("-2obj:")
            two = TWO_OBJECTS[kind2]
        if "-fault" in setup:
            base_setup, _, k_ = setup.partition("-fault")
            fail_at = int(k_)
        s3 = FakeS3(s, fail_at)
        client = None if base_setup == "local-shared" else FakeClient(s)
        p = Patch()
        p.set(_s3, "Lock", lambda: sched.FakeLock(s, "local"))
        p.set(_s3, "_state", {})
        p.set(_s3, "_dask_client", lambda: client)
        p.set(_s3.MultiPartUpload, "s3_client", lambda self: s3)
        p.set(distributed, "Lock", FakeDLock)
        p.set(distributed, "Variable", FakeVariable)
        try:
            writers = []
            pre = {"done": not retry}
            ev0 = object()
            s.mark = 0

            def new_writers():
                if two is not None:
                    ws = [_s3.MultiPartUpload(b, k).writer({"ContentType": "image/tiff"}, client=client) for b, k in two]
                    writers[:] = [copy.deepcopy(ws[i % 2]) if base_setup == "cluster-copies" else ws[i % 2] for i in range(nthreads)]
                    return
                mpu = _s3.MultiPartUpload("bucket", "key.tif")
                writer = mpu.writer({"ContentType": "image/tiff"}, client=client)  # prep_client when clustered
                writers[:] = [copy.deepcopy(writer) if base_setup == "cluster-copies" else writer for _ in range(nthreads)]

            def prelude():
                # attempt 1 (sequential: nothing else is enabled while it runs)
                mpu1 = _s3.MultiPartUpload("bucket", "key.tif")
                w1 = mpu1.writer({"ContentType": "image/tiff"}, client=client)
                w1 = copy.deepcopy(w1) if base_setup == "cluster-copies" else w1
                w1(1, b"y" * 8)
                s.mark = len(s3.calls)
                new_writers()  # attempt 2: the retry
                pre["done"] = True
                s.wake(ev0)

            if not retry:
                new_writers()
            done = {"n": 0, "receipts": {}}
            ev = object()

            def body(k):
                def run():
                    while not pre["done"]:
                        s.block(ev0)
                    try:
                        rr = writers[k](k + 1, b"x" * 8)
                    except TransientStorageError:
                        rr = writers[k](k + 1, b"x" * 8)  # the task is retried once
                    done["receipts"][k] = rr
                    done["n"] += 1
                    if done["n"] == nthreads:
                        s.wake(ev)
                    if with_finalise and k == 0:
                        # finalise depends on every write in the task graph: wait for all of them
                        while done["n"] < nthreads:
                            s.block(ev)
                        parts = [done["receipts"][i] for i in range(nthreads)]
                        return writers[k].finalise(parts)
                    return rr

                return run

            if retry:
                s.spawn(prelude, "prelude")
            for k in range(nthreads):
                s.spawn(body(k), f"w{k}")
            s.run()
        finally:
            p.restore()
        s.s3 = s3
        s.client = client
        s.writers = writers
        return s

    return make


FS_FILE = _mpu_fs.__file__


def make_filesink_system(nthreads: int):
    """Workers write their first part through ONE MPUFileSink whose parts directory does not exist yet (the
    exists()/mkdir() pair in _ensure_dst_file is a check-then-act on shared file-system state); worker 0 then
    finalises once all parts are written. Scheduling points: every line of cog/_mpu_fs.py."""

    def make(prefix):
        s = sched.Sched(prefix, [FS_FILE])
        td = tempfile.mkdtemp(prefix="vf-c18s-")
        sink = _mpu_fs.MPUFileSink(os.path.join(td, "out.bin"))
        done = {"n": 0, "receipts": {}}
        ev = object()

        def body(k):
            def run():
                rr = sink(k + 1, bytes([65 + k]) * (3 + k))
                done["receipts"][k] = rr
                done["n"] += 1
                if done["n"] == nthreads:
                    s.wake(ev)
                if k == 0:
                    while done["n"] < nthreads:
                        s.block(ev)
                    return sink.finalise([done["receipts"][i] for i in range(nthreads)])
                return rr

            return run

        try:
            for k in range(nthreads):
                s.spawn(body(k), f"w{k}")
            s.run()
            out = os.path.join(td, "out.bin")
            s.fs_result = open(out, "rb").read() if os.path.exists(out) else None
            s.fs_left = sorted(p for p in os.listdir(td) if p != "out.bin")
        finally:
            shutil.rmtree(td, ignore_errors=True)
        s.nthreads = nthreads
        return s

    return make


def judge_filesink(x: sched.Sched):
    out = []
    if x.deadlock:
        out.append(("deadlock:filesink", "no enabled thread while some are blocked (a worker died before finishing its write)"))
    for name, err in x.errors():
        site = core.raise_site(err) if core.in_repo_tb(err) else None
        if site is None:
            raise err
        out.append((f"worker-exception:{type(err).__name__}@{site}:filesink", f"{name}: {type(err).__name__}: {err}"))
    want = b"".join(bytes([65 + k]) * (3 + k) for k in range(x.nthreads))
    if not out and x.fs_result != want:
        out.append(("filesink:content", f"destination holds {x.fs_result!r}, expected {want!r}"))
    if not out and x.fs_left:
        out.append(("filesink:parts-left", f"{x.fs_left}"))
    return out


def judge(x: sched.Sched, setup: str, nthreads: int, with_finalise: bool):
    if setup == "filesink":
        return judge_filesink(x)
    """-> list[(key, msg)] for one completed schedule"""
    out = []
    if x.livelock:
        out.append((f"livelock:{setup}", "execution exceeded the point horizon"))
    if x.deadlock:
        out.append((f"deadlock:{setup}", "no enabled thread while some are blocked"))
    for name, err in x.errors():
        site = core.raise_site(err) if core.in_repo_tb(err) else None
        if site is None:
            raise err  # harness bug
        out.append((f"worker-exception:{type(err).__name__}@{site}:{setup}", f"{name}: {type(err).__name__}: {err}"))
    calls = x.s3.calls[getattr(x, "mark", 0):]  # for retries: what the NEW writer's workers did
    if "-2obj:" in setup:
        objs = TWO_OBJECTS[setup.partition("-2obj:")[2]]
        for oi, (b, k) in enumerate(objs):
            mine = [c for c in calls if c[-2:] == (b, k)]
            cr = [c for c in mine if c[0] == "create"]
            nworkers = len([i for i in range(nthreads) if i % 2 == oi])
            if len(cr) != 1:
                out.append((f"initiations:{len(cr)}:{setup}", f"object #{oi} s3://{b}/{k}: create_multipart_upload called {len(cr)} times; all calls {calls}"))
                continue
            bad = [c for c in mine if c[0] == "part" and c[2] != cr[0][1]]
            if bad:
                out.append((f"wrong-upload-id:{setup}", f"object #{oi} s3://{b}/{k}: {bad} under upload {cr[0][1]}"))
            np_ = len([c for c in mine if c[0] == "part"])
            if not out and np_ != nworkers:
                out.append((f"parts-missing:{setup}", f"object #{oi} s3://{b}/{k}: {np_} parts uploaded by {nworkers} workers"))
        return out
    creates = [c for c in calls if c[0] == "create"]
    if len(creates) != 1:
        out.append((f"initiations:{len(creates)}:{setup}", f"create_multipart_upload called {len(creates)} times: {calls}"
                                                           + (f" (earlier attempt: {x.s3.calls[:x.mark]})" if getattr(x, "mark", 0) else "")))
    if creates:
        uid = creates[0][1]
        bad = [c for c in calls if c[0] in ("part", "complete") and uid not in c]
        if len(creates) == 1 and bad:
            out.append((f"wrong-upload-id:{setup}", f"{bad} under upload {uid}"))
    nparts = len([c for c in calls if c[0] == "part"])
    if not out and nparts != nthreads:
        out.append((f"parts-missing:{setup}", f"{nparts} parts uploaded by {nthreads} workers"))
    if with_finalise and not out:
        comp = [c for c in calls if c[0] == "complete"]
        if len(comp) != 1 or comp[0][2] != tuple(range(1, nthreads + 1)):
            out.append((f"complete:{setup}", f"{comp}"))
        if x.client is not None and not x.client.deleted:
            out.append((f"cleanup:{setup}", "shared variable not removed after finalise"))
    return out


def describe(x: sched.Sched):
    """Thread switch sequence of a schedule, compressed: [(thread, first label, n points)...]"""
    seq = []
    for tid, lab in x.trace:
        if seq and seq[-1][0] == tid:
            seq[-1][2] += 1
        else:
            seq.append([tid, lab, 1])
    return [(a, b if not isinstance(b, tuple) else ":".join(map(str, b)), c) for a, b, c in seq][:40]


def run_sched_case(case):
    setup, nthreads, with_finalise, bound, part = case
    make = make_filesink_system(nthreads) if setup == "filesink" else make_system(setup, nthreads, with_finalise)
    fails = {}
    outcomes = Counter()
    first = {}

    def check(x):
        res = judge(x, setup, nthreads, with_finalise)
        outcomes[("fail:" + res[0][0]) if res else f"ok:winner=w{_winner(x)}"] += 1
        for key, msg in res:
            if key not in fails:
                # a failing schedule is replayed twice and must reproduce identically
                again = [make(x.choices), make(x.choices)]
                for y in again:
                    if y.trace != x.trace or [k for k, _ in judge(y, setup, nthreads, with_finalise)] != [k for k, _ in res]:
                        raise RuntimeError(f"schedule {x.choices} does not replay deterministically")
                fails[key] = (msg, list(x.choices), describe(x))

    st = sched.explore(make, check, bound, part=(part, NPART))
    r = R(outcome=f"{setup}:{nthreads}t:outs{len(outcomes)}")
    r.counts = dict(
        schedules=st.schedules, transitions=st.points, states=st.distinct_traces,
        deadlocks=st.deadlocks, max_choice_points=0,
    )
    r.detail = dict(by_cost=st.by_cost, outcomes=dict(outcomes), max_choice_points=st.max_choice_points)
    for key, (msg, choices, desc) in fails.items():
        r.fail(key, f"{msg}; setup={setup} threads={nthreads} finalise={with_finalise}; schedule choices={choices}; "
                    f"switches={desc}")
    return r


def _winner(x):
    if not hasattr(x, "s3"):
        return "-"
    for tid, lab in x.trace:
        if lab == "s3.create:begin":
            return tid
    return "?"


NPART = 8


def sched_cases(tier):
    # (setup, threads, with_finalise, preemption bound, part of the schedule tree)
    for setup in SETUPS:
        if "-2obj:" in setup:
            base = [(setup, 2, False, 1), (setup, 3, False, 1)] if tier == "quick" else [(setup, 2, False, 2), (setup, 3, False, 2), (setup, 4, False, 1)]
        elif "-fault" in setup:
            base = [(setup, 2, True, 1)] if tier == "quick" else [(setup, 2, True, 2), (setup, 3, True, 1)]
        elif tier == "quick" and setup.endswith("-retry"):
            base = [(setup, 2, True, 1), (setup, 3, False, 1)]
        elif tier == "quick":
            base = [(setup, 2, False, 2), (setup, 2, True, 2), (setup, 3, False, 1)]
        else:
            base = [(setup, 2, False, 3), (setup, 2, True, 3), (setup, 3, False, 2), (setup, 3, True, 2)]
        for b in base:
            for part in range(NPART):
                yield (*b, part)
    for part in range(NPART):
        yield ("filesink", 2, True, 2 if tier == "quick" else 3, part)
        yield ("filesink", 3, True, 1 if tier == "quick" else 2, part)


def replay_sched(case):
    """case = (setup, nthreads, with_finalise, choices) -> fails"""
    setup, nthreads, with_finalise, choices = case
    x = make_system(setup, nthreads, with_finalise)(choices)
    return [core.Fail(k, m + f"; switches={describe(x)}") for k, m in judge(x, setup, nthreads, with_finalise)]


# -- sinks (E1) ----------------------------------------------------------------------------------------
PART_SIZES = (0, 1, 5, 4096)


def _other_fs():
    d = "/dev/shm"
    try:
        if os.path.isdir(d) and os.access(d, os.W_OK) and os.stat(d).st_dev != os.stat(tempfile.gettempdir()).st_dev:
            return d
    except OSError:
        pass
    return None


def gen_sink():
    bases = ["none", "otherdir"] + (["otherfs"] if _other_fs() else [])
    for n in range(1, 5):
        for sizes in itertools.product(PART_SIZES, repeat=n):
            for base in bases:
                for keep in (False, True):
                    yield (sizes, base, keep)


# part NUMBERS: around every change in the number of digits (part files are named after the number), sparse, zero-based,
# up to the default maximum (10000) and beyond it with a configured maximum; the list handed to finalise is in ascending
# or in descending part order - "the order given" decides, not the numbers
PART_ID_SCHEMES = {
    "1..n": ((1, 2, 3, 4), {}),
    "sparse": ((1, 7, 300, 4242), {}),
    "digits-9-10": ((8, 9, 10, 11), {}),
    "digits-99-100": ((98, 99, 100, 101), {}),
    "digits-999-1000": ((998, 999, 1000, 1001), {}),
    "digits-9999-10000": ((9997, 9998, 9999, 10000), {}),
    "beyond-default-max": ((9999, 10000, 10001, 123456), dict(max_part=200000)),
    "digits-99999-100000": ((99998, 99999, 100000, 100001), dict(max_part=1000000)),
    "zero-based": ((0, 1, 2, 3), dict(min_part=0)),
    "from-min-part": ((7, 8, 9, 10), dict(min_part=7)),
}


def gen_sink_ids():
    for scheme in PART_ID_SCHEMES:
        for n in (2, 3, 4):
            for order in ("ascending", "descending"):
                for base in ("none", "otherdir"):
                    yield ((5, 1, 3, 2)[:n], base, False, scheme, order)


def run_sink(case):
    sizes, base, keep = case[:3]
    scheme, order = (case[3], case[4]) if len(case) > 3 else ("1..n", "ascending")
    ids, limits_kw = PART_ID_SCHEMES[scheme]
    r = R(outcome=f"n{len(sizes)}:{base}:keep{int(keep)}" + (f":{scheme}:{order}" if len(case) > 3 else ""), nontrivial=sum(sizes) > 0)
    td = tempfile.mkdtemp(prefix="vf-c18-")
    extra = None
    try:
        dst = Path(td) / "out.bin"
        parts_base = None
        if base == "otherdir":
            parts_base = Path(td) / "elsewhere"
            parts_base.mkdir()
        elif base == "otherfs":
            extra = tempfile.mkdtemp(prefix="vf-c18-", dir=_other_fs())
            parts_base = extra
        sink = _mpu_fs.MPUFileSink(dst, parts_base=parts_base, **limits_kw)
        datas = [bytes([65 + i]) * sz for i, sz in enumerate(sizes)]
        # written out of order on purpose: finalise must honour the order of the list it is given
        receipts = {}
        for i in reversed(range(len(datas))):
            receipts[i] = sink(ids[i], datas[i])
        parts = [receipts[i] for i in range(len(datas))]
        cls = f"{base}:{'empty-part' if 0 in sizes[1:] else 'empty-first' if sizes[0] == 0 else 'nonempty'}"
        if len(case) > 3:
            cls += f":ids-{scheme}:{order}"
            if order == "descending":
                parts, datas = parts[::-1], datas[::-1]
        try:
            out = sink.finalise(parts, keep_parts=keep) if keep else sink.finalise(parts)
        except Exception as e:  # pylint: disable=broad-except
            if not core.in_repo_tb(e):
                raise
            return r.fail(f"sink:finalise-raised:{type(e).__name__}:{cls}", f"{case}: {type(e).__name__}: {e}")
        want = b"".join(datas)
        got = dst.read_bytes() if dst.exists() else None
        if got != want:
            r.fail(f"sink:content:{cls}", f"{case}: destination holds {got[:40] if got is not None else None!r}... want {want[:40]!r}")
        if Path(out) != dst:
            r.fail("sink:return", f"{case}: finalise returned {out}")
        pdir = sink._parts_dir
        if not keep and pdir.exists():
            r.fail(f"sink:parts-left:{cls}", f"{case}: {pdir} still exists: {sorted(os.listdir(pdir))}")
        return r
    finally:
        shutil.rmtree(td, ignore_errors=True)
        if extra:
            shutil.rmtree(extra, ignore_errors=True)


SINK_IDS_SLICE = ("sink-part-numbers", gen_sink_ids, run_sink,
                  "part numbers around every digit-count change, sparse, zero-based, beyond the default maximum x list order")

LIMITS = {
    # 0 is a legitimate minimum (no lower bound / zero-based part numbers) and must be reported as configured
    "min_write_sz": (0, 1, 4096 * 3),
    "max_write_sz": (1024, 1 << 20, 1 << 33),
    "min_part": (0, 1, 7),
    "max_part": (100, 9999),
}


def gen_limits():
    names = list(LIMITS)
    for mask in range(16):
        chosen = [n for i, n in enumerate(names) if mask >> i & 1]
        for vals in itertools.product(*[LIMITS[n] for n in chosen]):
            yield tuple(zip(chosen, vals))
    yield "S3Limits"
    yield "DelayedS3Writer"
    yield "MultiPartUpload"


def run_limits(case):
    r = R(outcome="limits")
    if isinstance(case, str):
        mpu = _s3.MultiPartUpload("b", "k")
        obj = {"S3Limits": _s3.S3Limits(), "MultiPartUpload": mpu, "DelayedS3Writer": _s3.DelayedS3Writer(mpu, {})}[case]
        vals = (obj.min_write_sz, obj.max_write_sz, obj.min_part, obj.max_part)
        if vals != (5 * (1 << 20), 5 * (1 << 30), 1, 10_000):
            r.fail(f"limits:{case}", f"{vals}")
        return r
    kw = dict(case)
    sink = _mpu_fs.MPUFileSink("/nonexistent/out.bin", **kw)
    defaults = dict(min_write_sz=4096, max_write_sz=5 * (1 << 30), min_part=1, max_part=10_000)
    import pickle  # pylint: disable=import-outside-toplevel

    for who, obj in (("sink", sink), ("pickled-copy", pickle.loads(pickle.dumps(sink)))):
        for name in LIMITS:
            want = kw.get(name, defaults[name])
            got = getattr(obj, name)
            if got != want:
                r.fail(f"limits:filesink:{name}" + ("" if who == "sink" else ":pickled-copy") + (":zero" if want == 0 else ""),
                       f"MPUFileSink(**{kw}) [{who}].{name} == {got}, configured/default {want}")
    configured_ok = kw.get("max_write_sz", defaults["max_write_sz"]) > kw.get("min_write_sz", defaults["min_write_sz"])
    if not r.fails and configured_ok and not (sink.max_write_sz > sink.min_write_sz and sink.max_part > sink.min_part):
        r.fail("limits:filesink:max<=min", f"{kw}")
    return r


def main(ctx):
    ctx.rule = (
        "schedules: every interleaving within the preemption bound of the workers' first writes through the real "
        "DelayedS3Writer (scheduling points: each line of cog/_s3.py and each fake lock/variable/client operation), "
        "per (set-up, thread count, finalise); non-trivial = every schedule with >= 2 workers; sinks: full product of "
        "part counts x sizes x parts directory placement x keep_parts; limits: every subset of limit kwargs"
    )
    bound = "2 threads <=2, 3 threads <=1" if ctx.tier == "quick" else "2 threads <=3, 3 threads <=2"
    ctx.bounds = {"threads": "2..3", "preemption_bound": bound, "setups": SETUPS,
                  "part_sizes": PART_SIZES, "part_counts": "1..4", "other_filesystem": _other_fs()}
    ctx.assumptions = [
        "distributed.Lock / Variable are replaced by sequentially consistent fakes; Variable.get on an unset variable "
        "is modelled as an immediate timeout",
        "finalise runs after every write has completed (its task depends on them)",
        "scheduling granularity: source lines of cog/_s3.py; interleavings inside a single line or inside botocore are not explored",
    ]
    sc = list(sched_cases(ctx.tier))
    details = {}

    def runc(case):
        r = run_sched_case(case)
        return r

    slices = [
        e1.Slice("schedules", lambda: iter(sc), run_sched_case, "E3a preemption-bounded exploration", shards=len(sc)),
        e1.Slice("filesink", gen_sink, run_sink, "MPUFileSink write + finalise"),
        e1.Slice(*SINK_IDS_SLICE),
        e1.Slice("limits", gen_limits, run_limits, "limit accessors"),
    ]
    if ctx.only:
        slices = [s for s in slices if any(s.name.startswith(o) for o in ctx.only)]
    e1.run_slices(ctx, slices)
    c = ctx.counters
    ctx.extra.update(
        states=int(c["states"]), transitions=int(c["transitions"]), schedules=int(c["schedules"]),
        traces_validated_against_impl=int(c["schedules"]), deadlocks=int(c["deadlocks"]),
        explanation="states = distinct thread-switch traces; transitions = scheduling points executed; every schedule "
                    "is an execution of the real writer code under the controlled scheduler",
    )
    # schedules count as distinct non-trivial cases (each is a different interleaving by construction)
    ctx.nontrivial_extra += int(c["schedules"])
    ctx.evaluations += int(c["schedules"])


def replay(slice_name, case, tier):
    sl = {"schedules": run_sched_case, "filesink": run_sink, "limits": run_limits}
    return sl[slice_name](case).fails
