"""C06 - multi-part assembly preserves the byte stream under any schedule.

E2 (interval DP): for each configuration every binary merge tree over the partitions is explored on
the real MPUChunk code (append op, merge-and-spill op, finaliser) against a recording writer.
E3b: the real dask graph built by mpu_write is executed task by task in every order within a
deviation bound and must end in a state the DP reaches, with the same invariants.
"""
from __future__ import annotations

import itertools
import os
from collections import Counter

from vf import core, e1, statespace
from vf.core import R
from vf.statespace import StepError

PROPERTY = "C06"
LEVEL = "model_checking"

from odc.geo.cog import _mpu as M  # noqa: E402

MPUChunk = M.MPUChunk
M_SZ = 4  # writer minimum part size


class RecWriter:
    """Recording PartsWriter with configurable limits."""

    def __init__(self, m=M_SZ, min_part=1, max_part=10_000):
        self._m, self._min_part, self._max_part = m, min_part, max_part
        self.log = []  # (part, bytes) in call order
        self.final = None

    def __call__(self, part, data):
        self.log.append((int(part), bytes(data)))
        return {"PartNumber": int(part), "n": len(data)}

    def finalise(self, parts):
        self.final = [dict(p) for p in parts]
        return ("finalised", len(parts))

    min_write_sz = property(lambda self: self._m)
    max_write_sz = property(lambda self: 1 << 40)
    min_part = property(lambda self: self._min_part)
    max_part = property(lambda self: self._max_part)


# -- canonical immutable state of an MPUChunk (+ multiset of writes made in its interval) ----------
def canon(mpu: MPUChunk, writes) -> tuple:
    return (
        mpu.nextPartId,
        mpu.write_credits,
        bytes(mpu.data),
        bytes(mpu.left_data),
        tuple((p["PartNumber"], p["n"]) for p in mpu.parts),
        tuple(mpu.observed),
        mpu.is_final,
        mpu.lhs_keep,
        tuple(sorted(writes)),
    )


def build(st: tuple) -> MPUChunk:
    obs = list(st[5])
    mpu = MPUChunk(st[0], st[1], is_final=st[6], lhs_keep=st[7])
    mpu.data = bytearray(st[2])
    mpu.left_data = bytearray(st[3])
    mpu.parts = [{"PartNumber": p, "n": n} for p, n in st[4]]
    mpu.observed = obs
    return mpu


def _site(e):
    return core.raise_site(e) if core.in_repo_tb(e) else None


def _call(fn, what):
    try:
        return fn()
    except Exception as e:  # pylint: disable=broad-except
        site = _site(e)
        if site is None:
            raise
        raise StepError(f"exception:{type(e).__name__}@{site}:{what}", f"{type(e).__name__}: {e} at {site} during {what}") from e


# -- configuration ------------------------------------------------------------------------------------
# cfg = (partitions, wpc, spill, header_len, footer_len, min_part, use_writer)
def chunk_bytes(parts):
    """distinct byte value per chunk, so that content identifies position"""
    out, k = [], 0
    for p in parts:
        row = []
        for sz in p:
            k += 1
            # values 1..230 (0xf0 / 0xfe mark header and footer); beyond 230 chunks the value repeats, the chunk id does not
            row.append((bytes([1 + (k - 1) % 230]) * sz, k))
        out.append(row)
    return out


def expected_stream(cfg):
    parts, _, _, hl, fl, _, _ = cfg
    body = b"".join(d for row in chunk_bytes(parts) for d, _ in row)
    return b"\xf0" * hl + body + b"\xfe" * fl


def max_part_for(cfg):
    parts, wpc, _, _, _, min_part, _ = cfg
    # ids: min_part reserved for the left/header part, then wpc per partition
    return min_part + len(parts) * wpc


def judge_writes(cfg, writes, fin, want=None):
    """Invariants on the complete writer log of one finished upload. -> [(key, msg)]"""
    _, wpc, spill, _, _, min_part, _ = cfg
    out = []
    want = expected_stream(cfg) if want is None else want
    ids = [p for p, _ in writes]
    by_id = sorted(writes, key=lambda x: x[0])
    got = b"".join(d for _, d in by_id)
    cls = f"wpc{wpc}"
    if len(set(ids)) != len(ids):
        out.append((f"ids:duplicate:{cls}", f"part ids {ids}"))
    if got != want:
        out.append((f"stream:content:{cls}", f"parts by id give {got!r} want {want!r} (writes {writes})"))
    lo, hi = min_part, max_part_for(cfg)
    if any(not (lo <= p <= hi) for p in ids):
        out.append((f"ids:range:min_part{min_part}", f"part ids {sorted(ids)} outside [{lo},{hi}]"))
    last = max(ids) if ids else None
    small = [(p, len(d)) for p, d in writes if p != last and len(d) < M_SZ]
    if small:
        out.append(
            (f"size:undersized-nonlast:spill{'<m' if 0 < spill < M_SZ else '>=m' if spill else '0'}",
             f"parts {small} smaller than min {M_SZ} and not last (ids {sorted(ids)})"))
    if fin is None:
        out.append(("finalise:not-called", "finalise never called"))
    else:
        fin_ids = [p["PartNumber"] for p in fin]
        if fin_ids != sorted(ids) or [p["n"] for p in fin] != [len(d) for _, d in by_id]:
            out.append(("finalise:parts-list", f"finalise got {fin_ids}, written {sorted(ids)}"))
    return out


def explore_cfg(cfg, want_roots=False, collate=True):
    """Return (stats, fails) for one configuration: all merge trees, then the real finaliser."""
    parts, wpc, spill, hl, fl, min_part, use_writer = cfg
    P = len(parts)
    data = chunk_bytes(parts)
    lhs_keep = M_SZ if use_writer else 0
    mark_final = fl == 0
    fails = []

    def mkw():
        return RecWriter(M_SZ, min_part, max_part_for(cfg)) if use_writer else None

    bunch = list(
        MPUChunk.gen_bunch(min_part + 1, P, writes_per_chunk=wpc, mark_final=mark_final, lhs_keep=lhs_keep)
    )

    def leaf(i):
        w = mkw()
        mpu = bunch[i]
        mpu = MPUChunk(mpu.nextPartId, mpu.write_credits, is_final=mpu.is_final, lhs_keep=mpu.lhs_keep)
        (out,) = _call(lambda: M._mpu_append_chunks_op([mpu], data[i], write=w, spill_sz=spill), "append")
        return canon(out, w.log if w else ())

    def merge(l, r):
        w = mkw()
        a, b = build(l), build(r)
        out = _call(lambda: M._merge_and_spill_op(a, b, write=w, spill_sz=spill), "merge")
        return canon(out, tuple(l[8]) + tuple(r[8]) + tuple(w.log if w else ()))

    dp = statespace.interval_dp(P, leaf, merge)
    for key, msg, tree in dp.errors:
        fails.append((key, f"{msg}; tree={tree}", tree))

    want = expected_stream(cfg)
    want_obs = [(len(d), k) for row in data for d, k in row]
    outcomes = Counter()
    finals = set()
    # sub-streams: every composition of the partitions into >= 2 consecutive groups, every merge tree inside each
    # group (interval DP), then the REAL collate op over the group roots (left fold with spill) - the path mpu_write
    # takes for a list of bags
    roots = [(r, dp.tree(0, P, r)) for r in dp.roots]
    if P >= 2 and collate:
        seen_roots = set(dp.roots)
        for cuts in itertools.chain.from_iterable(itertools.combinations(range(1, P), k) for k in range(1, min(P, 4))):
            bounds = (0, *cuts, P)
            groups = [dp.reach[(a, b)] for a, b in zip(bounds, bounds[1:])]
            for combo in itertools.product(*groups):
                w = mkw()
                subs = [build(st) for st in combo]
                prior = tuple(x for st in combo for x in st[8])
                shape = ("collate", tuple(dp.tree(a, b, st) for (a, b), st in zip(zip(bounds, bounds[1:]), combo)))
                dp.transitions += 1
                try:
                    out = _call(lambda: M._mpu_collate_op(subs, write=w, spill_sz=spill), "collate")
                except StepError as e:
                    fails.append((e.key, f"{e.msg}; tree={shape}", shape))
                    continue
                st = canon(out, prior + tuple(w.log if w else ()))
                if st not in seen_roots:
                    seen_roots.add(st)
                    roots.append((st, shape))
                    outcomes["collate-only-root"] += 1
    for root, tree in roots:
        w = mkw()
        mpu = build(root)
        seen_obs = {}

        def mk_header(observed, **kw):
            seen_obs["h"] = list(observed)
            return b"\xf0" * hl

        def mk_footer(observed, **kw):
            seen_obs["f"] = list(observed)
            return b"\xfe" * fl

        try:
            rr = _call(
                lambda: M._finalizer_dask_op(
                    mpu, write=w, mk_header=mk_header if hl else None, mk_footer=mk_footer if fl else None
                ),
                "finalise",
            )
        except StepError as e:
            fails.append((e.key, f"{e.msg}; tree={tree}", tree))
            outcomes["finalise-raised"] += 1
            continue
        dp.transitions += 1
        for who, obs in seen_obs.items():
            if obs != want_obs:
                fails.append((f"observed:{who}", f"callback saw {obs}, stream is {want_obs}; tree={tree}", tree))
        if not use_writer:
            got = bytes(rr.left_data) + bytes(rr.data)
            if got != want or rr.parts:
                fails.append(("nowriter:stream", f"root holds {got!r} want {want!r}; tree={tree}", tree))
            outcomes["nowriter"] += 1
            continue
        writes = list(root[8]) + w.log
        for key, msg in judge_writes(cfg, writes, w.final):
            fails.append((key, f"{msg}; tree={tree}", tree))
        finals.add((tuple(sorted(writes)), tuple(p["PartNumber"] for p in (w.final or []))))
        ids = [p for p, _ in writes]
        outcomes[f"parts{min(len(ids), 5)}"] += 1
    stats = dict(states=dp.states + len(roots) - len(dp.roots), transitions=dp.transitions, roots=len(roots),
                 trees=statespace.count_trees(P), outcomes=outcomes, finals=finals)
    if want_roots:
        stats["root_states"] = list(dp.roots)
    return stats, fails


# -- the space ------------------------------------------------------------------------------------------
SIZES = (0, 1, 3, 4, 5, 9, 14)  # 0, 1, m-1, m, m+1, 2m+1, 3m+2


def partition_alphabet(tier, P):
    one = [(s,) for s in SIZES]
    two = [(a, b) for a in (1, 5, 20) for b in (0, 3, 9)]
    three = [(1, 1, 1), (5, 0, 14), (9, 9, 9)]
    full = one + two + three  # 19
    small = [(0,), (1,), (3,), (5,), (14,), (1, 3), (20, 3), (5, 9), (5, 0, 14)]  # 9
    tiny = [(1,), (5,), (14,), (20, 3), (3, 9)]
    if tier == "quick":
        return {1: full, 2: full, 3: small, 4: tiny}.get(P, [])
    return {1: full, 2: full, 3: full, 4: small, 5: tiny, 6: [(1,), (5,), (20, 3)]}.get(P, [])


def other_params(tier):
    wpcs = (1, 2, 3)
    spills = (0, 1, M_SZ, M_SZ + 1, 2 * M_SZ + 1, 1 << 30)
    hdrs = (0, 3, M_SZ + 1)
    ftrs = (0, 2)
    min_parts = (1, 5)
    for wpc in wpcs:
        for hl in hdrs:
            for fl in ftrs:
                yield (wpc, 0, hl, fl, 1, False)  # no writer: spill irrelevant
                for spill in spills:
                    for mp in min_parts:
                        yield (wpc, spill, hl, fl, mp, True)


def gen_cfgs(tier):
    def g():
        maxP = 4 if tier == "quick" else 6
        for P in range(1, maxP + 1):
            alpha = partition_alphabet(tier, P)
            for parts in itertools.product(alpha, repeat=P):
                for wpc, spill, hl, fl, mp, uw in other_params(tier):
                    yield (parts, wpc, spill, hl, fl, mp, uw)

    return g


def run_cfg(cfg):
    stats, fails = explore_cfg(cfg)
    parts = cfg[0]
    r = R(outcome=f"P{len(parts)}:roots{min(stats['roots'], 4)}", nontrivial=sum(map(sum, parts)) > 0)
    r.counts = dict(states=stats["states"], transitions=stats["transitions"], merge_trees_covered=stats["trees"])
    seen = set()
    for key, msg, tree in fails:
        if key in seen:
            continue
        seen.add(key)
        r.fail(key, f"cfg(partitions={parts}, wpc={cfg[1]}, spill={cfg[2]}, hdr={cfg[3]}, ftr={cfg[4]}, "
                    f"min_part={cfg[5]}, writer={cfg[6]}): {msg}")
    return r


def main(ctx):
    ctx.rule = (
        "configuration = (partition contents, writes-per-chunk, spill size, header, footer, min_part, writer?); "
        "for each, every binary merge tree over the partitions by interval DP on the real MPUChunk code, then the "
        "real finaliser on every reachable root; non-trivial = stream not empty; distinct by configuration hash"
    )
    ctx.bounds = {
        "min_write_sz": M_SZ, "chunk_sizes": SIZES, "chunks_per_partition": "1..3",
        "partitions": "1..4 (quick) / 1..6 (thorough)", "writes_per_chunk": [1, 2, 3],
        "spill": [0, 1, M_SZ, M_SZ + 1, 2 * M_SZ + 1, "inf"], "header": [0, 3, M_SZ + 1], "footer": [0, 2],
        "min_part": [1, 5], "max_part": "exactly min_part + partitions*writes_per_chunk",
    }
    ctx.assumptions = [
        "sub-streams (collate path) use the same merge+spill transition and consecutive part-id ranges, so every "
        "collate shape is one of the binary trees over the concatenated partitions",
        "the recording writer is sequentially consistent; concurrency of the real writers is C18",
    ]
    sl = [e1.Slice(f"dp-{ctx.tier}", gen_cfgs(ctx.tier), run_cfg,
                   "all configurations x all merge trees (interval DP)")]
    e1.run_slices(ctx, sl)
    try:
        from checks import c06_dask  # pylint: disable=import-outside-toplevel
    except ImportError:
        c06_dask = None
    if c06_dask is not None:
        c06_dask.run(ctx)
    ctx.extra.update({k: int(v) for k, v in ctx.counters.items()})
    ctx.extra["traces_validated_against_impl"] = int(ctx.counters["transitions"])
    ctx.extra["explanation"] = (
        "states/transitions: DP states and real append/merge/finalise calls summed over configurations; every "
        "transition is a call of the implementation, so every explored trace is an implementation trace"
    )


def replay(slice_name, case, tier):
    if slice_name.startswith("dask"):
        from checks import c06_dask  # pylint: disable=import-outside-toplevel

        return c06_dask.replay(case)
    return run_cfg(case).fails
