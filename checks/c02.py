"""C02 - GeoBox views agree with its pixel-to-world mapping.

Reference model written from the docstrings: every view-changing operation is described by the
shape it must produce and by a pixel map M (new pixel -> old pixel, pixel-side operations) or a
world map T (world-side operations); the oracle is R.pix2wld(p) == T(G.pix2wld(M p)) on every
pixel corner and centre, plus the per-GeoBox view relations (inverse mapping, footprint, bounding
box, coordinate labels, resolution).  E1: all operations with full parameter menus on every base
GeoBox.  E2: breadth-first chains of operations (non-initial states), deduplicated on
(shape, affine, crs).
"""
from __future__ import annotations

import itertools
import math
from collections import deque

import numpy as np
from affine import Affine

from vf import core, e1
from vf.core import R

PROPERTY = "C02"
LEVEL = "exploration"

from odc.geo import geobox as gbmod  # noqa: E402
from odc.geo.crs import CRS  # noqa: E402
from odc.geo.gcp import GCPGeoBox, GCPMapping  # noqa: E402
from odc.geo.geobox import GeoBox  # noqa: E402

SHAPES = tuple((h, w) for h in range(1, 5) for w in range(1, 5)) + ((1, 7), (7, 1), (5, 9))
CRSS = (None, "EPSG:4326", "EPSG:3857")

# affine families: D = dyadic coefficients (exact arithmetic), R = realistic
AFF_D = {
    "north-up": Affine(0.5, 0, 16.0, 0, -0.5, 32.0),
    "x-mirrored": Affine(-0.5, 0, 16.0, 0, -0.5, 32.0),
    "y-up": Affine(0.5, 0, 16.0, 0, 0.5, 32.0),
    "both-mirrored": Affine(-0.5, 0, 16.0, 0, 0.5, 32.0),
    "non-square": Affine(0.25, 0, -8.0, 0, -2.0, 4.0),
    "rot90": Affine(0, 0.5, 16.0, 0.5, 0, 32.0),
    "sheared": Affine(0.5, 0.125, 16.0, 0, -0.5, 32.0),
}
AFF_R = {
    "north-up-r": Affine(0.1, 0, 10.3, 0, -0.1, 47.7),
    "utm-30m": Affine(30.0, 0, 500010.0, 0, -30.0, 6000020.0),
    "third": Affine(1 / 3, 0, 1.0, 0, -1 / 3, 2.0),
    "rot30": Affine(0.5, 0, 16.0, 0, -0.5, 32.0) * Affine.rotation(30),
    "rot30-ns": Affine(30.0, 0, 500010.0, 0, -10.0, 6000020.0) * Affine.rotation(-30),
    "sheared-r": Affine(0.1, 0.03, 10.3, 0.01, -0.1, 47.7),
    # scale extremes: half-metre pixels expressed in degrees, and 100 km pixels
    "rot30-tiny": Affine(4.5e-6, 0, 151.2, 0, -4.5e-6, -33.8) * Affine.rotation(30),
    "mirrored-ns-tiny-rot": Affine(-9e-6, 0, 151.2, 0, 3e-6, -33.8) * Affine.rotation(-12),
    "sheared-tiny": Affine(4.5e-6, 1.5e-6, 151.2, 0, -4.5e-6, -33.8),
    "rot30-huge": Affine(1e5, 0, -2.0e6, 0, -1e5, 8.0e6) * Affine.rotation(30),
}


def affines(alpha):
    return {"D": AFF_D, "R": AFF_R, "DR": {**AFF_D, **AFF_R}}[alpha]


def is_dyadic(name):
    return name in AFF_D


def close(a, b, scale, dy):
    """Coordinate comparison: exact on D, R tolerance otherwise."""
    if dy:
        return a == b
    return abs(a - b) <= 1e-9 * (abs(b) + scale)


def pix_scale(A: Affine):
    return max(abs(A.a), abs(A.b), abs(A.d), abs(A.e))


def probe_points(shape):
    ny, nx = shape
    pts = [(x, y) for y in (0, ny) for x in (0, nx)]
    pts += [(x + 0.5, y + 0.5) for y in sorted({0, ny - 1, ny // 2}) for x in sorted({0, nx - 1, nx // 2})]
    return pts


# -- per-GeoBox view relations ------------------------------------------------------------------------------------
def judge_views(g: GeoBox, dy: bool, r: R, what: str, cls: str):
    A = g.affine
    ny, nx = g.shape
    sc = pix_scale(A)
    # mutual inverses
    for (x, y) in probe_points((ny, nx)):
        wx, wy = g.pix2wld(x, y)
        ex, ey = A * (x, y)
        if (wx, wy) != (ex, ey):
            r.fail(f"views:pix2wld:{cls}", f"{what}: pix2wld({x},{y}) = {(wx, wy)} but affine gives {(ex, ey)}")
        bx, by = g.wld2pix(wx, wy)
        if abs(bx - x) > 1e-6 or abs(by - y) > 1e-6:
            r.fail(f"views:inverse:{cls}", f"{what}: wld2pix(pix2wld({x},{y})) = {(bx, by)}")
    corners = [A * p for p in ((0, 0), (nx, 0), (nx, ny), (0, ny))]
    xs, ys = [c[0] for c in corners], [c[1] for c in corners]
    # footprint: exactly the image of the pixel rectangle
    ext = g.extent
    ring = list(ext.exterior.coords)[:-1] if ext.geom.geom_type == "Polygon" else None
    if ring is None or len(ring) != 4 or sorted(ring) != sorted(corners):
        r.fail(f"views:extent:{cls}", f"{what}: extent vertices {ring} != images of the corners {corners}")
    if ext.crs != g.crs:
        r.fail(f"views:extent-crs:{cls}", f"{what}")
    # bounding box: bounding box of the footprint
    bb = g.boundingbox
    want = (min(xs), min(ys), max(xs), max(ys))
    if not all(close(a, b, sc, dy) for a, b in zip(tuple(bb), want)):
        rot = "axis-aligned" if (A.b == 0 and A.d == 0) or (A.a == 0 and A.e == 0) else "rotated-or-sheared"
        r.fail(f"views:boundingbox:{rot}", f"{what}: boundingbox {tuple(bb)} but footprint spans {want}")
    if bb.crs != g.crs:
        r.fail(f"views:boundingbox-crs:{cls}", f"{what}")
    # coordinates: labels are pixel centres (axis aligned only)
    if A.b == 0 and A.d == 0:
        co = g.coordinates
        (yn, yc), (xn, xc) = list(co.items())
        lx = [A * (j + 0.5, 0.5) for j in range(nx)]
        ly = [A * (0.5, i + 0.5) for i in range(ny)]
        if len(xc.values) != nx or len(yc.values) != ny or not all(close(float(v), e[0], sc, dy) for v, e in zip(xc.values, lx)) \
                or not all(close(float(v), e[1], sc, dy) for v, e in zip(yc.values, ly)):
            r.fail(f"views:coordinates:{cls}", f"{what}: labels x={list(xc.values)} y={list(yc.values)}")
        res = g.resolution
        if (res.x, res.y) != (A.a, A.e):
            r.fail(f"views:resolution:axis-aligned:{cls}", f"{what}: resolution {res} affine {(A.a, A.e)}")
    else:
        res = g.resolution
        # rotated / sheared grid: pixel size along x is the length of the first column vector; the y size is the
        # height of the pixel parallelogram over that base (area / base) - the scale part of rotation*shear*scale
        bx_ = math.hypot(A.a, A.d)
        area = abs(A.a * A.e - A.b * A.d)
        if not (abs(abs(res.x) - bx_) <= 1e-9 * bx_ and abs(abs(res.y) - area / bx_) <= 1e-9 * area / bx_):
            r.fail(f"views:resolution:rotated:{cls}", f"{what}: resolution {res}, |column x|={bx_}, area/base={area / bx_}")


# -- reference model of the operations --------------------------------------------------------------------------------
def np_index(n, s):
    """start index and length numpy gives for slice/int s on an axis of length n"""
    idx = np.arange(n)[s]
    idx = np.atleast_1d(idx)
    return (int(idx[0]) if len(idx) else None), len(idx)


def slice_menu(n):
    vals = [None] + list(range(-n, n + 1))
    out = []
    for a in vals:
        for b in vals:
            st, ln = np_index(n, slice(a, b))
            if ln >= 1:
                out.append((a, b))
    return out


def op_menu(shape, tier):
    """All operations with full parameter menus for a GeoBox of this shape (case-encodable tuples)."""
    ny, nx = shape
    ops = []
    ys, xs = slice_menu(ny), slice_menu(nx)
    if tier == "quick" and len(ys) * len(xs) > 400:
        ys = [s for s in ys if s[0] in (None, 1, -2, 0) or s[1] in (None, -1)][:12]
        xs = [s for s in xs if s[0] in (None, 1, -2, 0) or s[1] in (None, -1)][:12]
    for sy in ys:
        for sx in xs:
            ops.append(("getitem", sy, sx))
    for i in range(-ny, ny):
        ops.append(("getitem-int", i))
        ops.append(("getitem-int", i, "np.int64"))  # the same index as a numpy integer
    for sy in ys[:6]:
        ops.append(("getitem-rows", sy))
    ops += [("pad", p, q) for p in (0, 1, 3) for q in (None, 0, 2)]
    ops += [("pad_wh", a, b) for a in (1, 4, 16) for b in (None, 3)]
    ops += [("crop", h, w) for h, w in ((1, 1), (2, 3), (ny + 2, nx + 1))]
    ops += [("expand", ny + 1, nx + 3)]
    ops += [("translate_pix", tx, ty) for tx, ty in ((1, 0), (0, -2), (3, 5), (0.5, 0.25), (-1.75, 2.5))]
    ops += [("flipx",), ("flipy",), ("left",), ("right",), ("top",), ("bottom",), ("center_pixel",)]
    ops += [("rotate", d) for d in (0, 30, 90, 180, -45)]
    ops += [("zoom_out", f) for f in (0.5, 2, 3, 1.5)]
    ops += [("zoom_to_shape", h, w) for h, w in ((1, 1), (3, 5), (2 * ny, 3 * nx), (ny, nx))]
    ops += [("zoom_to_int", n) for n in (1, 3, 8)]
    ops += [("zoom_to_res", k) for k in (0.5, 2, 3)]
    ops += [("scaled_down", n) for n in (2, 3)]
    ops += [("buffered", bx, by) for bx, by in ((0, None), (1, None), (2.5, 0.5), (0.3, 1.2),
                                                 # explicit zeros on either side (0 is not "not given")
                                                 (3.0, 0), (0, 2.0), (0, 0), (1.5, 0.0))]
    ops += [("mul", k) for k in ("T(1,2)", "S(2)", "S(-1,1)T")]
    ops += [("rmul", k) for k in ("T(10,-20)", "S(2)", "R(30)")]
    return ops


PIX_AFF = {"T(1,2)": Affine.translation(1, 2), "S(2)": Affine.scale(2), "S(-1,1)T": Affine.translation(3, 0) * Affine.scale(-1, 1)}
WLD_AFF = {"T(10,-20)": Affine.translation(10, -20), "S(2)": Affine.scale(2), "R(30)": Affine.rotation(30)}


def apply_op(g: GeoBox, op):
    k = op[0]
    if k == "getitem":
        return g[slice(*op[1]), slice(*op[2])]
    if k == "getitem-int":
        return g[np.int64(op[1])] if len(op) > 2 else g[op[1]]
    if k == "getitem-rows":
        return g[slice(*op[1])]
    if k == "pad":
        return g.pad(op[1]) if op[2] is None else g.pad(op[1], op[2])
    if k == "pad_wh":
        return g.pad_wh(op[1]) if op[2] is None else g.pad_wh(op[1], op[2])
    if k == "crop":
        return g.crop((op[1], op[2]))
    if k == "expand":
        return g.expand((op[1], op[2]))
    if k == "translate_pix":
        return g.translate_pix(op[1], op[2])
    if k in ("flipx", "flipy"):
        return getattr(g, k)()
    if k in ("left", "right", "top", "bottom", "center_pixel"):
        return getattr(g, k)
    if k == "rotate":
        return g.rotate(op[1])
    if k == "zoom_out":
        return g.zoom_out(op[1])
    if k == "zoom_to_shape":
        return g.zoom_to((op[1], op[2]))
    if k == "zoom_to_int":
        return g.zoom_to(op[1])
    if k == "zoom_to_res":
        res = g.resolution
        return g.zoom_to(resolution=(abs(res.y) * op[1], abs(res.x) * op[1]) if False else abs(res.x) * op[1])
    if k == "scaled_down":
        return gbmod.scaled_down_geobox(g, op[1])
    if k == "buffered":
        return g.buffered(op[1]) if op[2] is None else g.buffered(op[1], op[2])
    if k == "mul":
        return g * PIX_AFF[op[1]]
    if k == "rmul":
        return WLD_AFF[op[1]] * g
    raise ValueError(op)


def model(g_shape, A: Affine, op):
    """-> dict(shape=..., M=Affine|None, T=Affine|None, covers=bool, special=str|None)"""
    ny, nx = g_shape
    k = op[0]
    I = Affine.identity()
    if k in ("getitem", "getitem-int", "getitem-rows"):
        if k == "getitem":
            sy, sx = slice(*op[1]), slice(*op[2])
        elif k == "getitem-int":
            sy, sx = slice(op[1], op[1] + 1 if op[1] != -1 else None), slice(None)
        else:
            sy, sx = slice(*op[1]), slice(None)
        (ty, hy), (tx, wx) = np_index(ny, sy), np_index(nx, sx)
        return dict(shape=(hy, wx), M=Affine.translation(tx, ty))
    if k == "pad":
        px = op[1]
        py = px if op[2] is None else op[2]
        return dict(shape=(ny + 2 * py, nx + 2 * px), M=Affine.translation(-px, -py), covers=True)
    if k == "pad_wh":
        ax = op[1]
        ay = ax if op[2] is None else op[2]
        up = lambda v, a: -(-v // a) * a  # noqa: E731
        return dict(shape=(up(ny, ay), up(nx, ax)), M=I, covers=True)
    if k in ("crop", "expand"):
        return dict(shape=(op[1], op[2]), M=I)
    if k == "translate_pix":
        return dict(shape=(ny, nx), M=Affine.translation(op[1], op[2]))
    if k == "flipx":
        return dict(shape=(ny, nx), M=Affine.translation(nx, 0) * Affine.scale(-1, 1), same_region=True)
    if k == "flipy":
        return dict(shape=(ny, nx), M=Affine.translation(0, ny) * Affine.scale(1, -1), same_region=True)
    if k == "left":
        return dict(shape=(ny, nx), M=Affine.translation(-nx, 0))
    if k == "right":
        return dict(shape=(ny, nx), M=Affine.translation(nx, 0))
    if k == "top":
        return dict(shape=(ny, nx), M=Affine.translation(0, -ny))
    if k == "bottom":
        return dict(shape=(ny, nx), M=Affine.translation(0, ny))
    if k == "center_pixel":
        return dict(shape=(1, 1), M=Affine.translation(nx // 2, ny // 2))
    if k == "rotate":
        c = A * (nx / 2, ny / 2)
        return dict(shape=(ny, nx), M=I, T=Affine.rotation(op[1], c), approx=op[1] % 90 != 0)
    if k == "zoom_out":
        f = op[1]
        return dict(shape=(max(1, math.ceil(ny / f)), max(1, math.ceil(nx / f))), M=Affine.scale(f), covers=True)
    if k == "zoom_to_shape":
        h, w = op[1], op[2]
        return dict(shape=(h, w), M=Affine.scale(nx / w, ny / h), same_region=True, approx=True)
    if k == "zoom_to_int":
        f = max(ny, nx) / op[1]
        return dict(shape=(max(1, math.ceil(ny / f)), max(1, math.ceil(nx / f))), M=Affine.scale(f), covers=True, approx=True)
    if k == "zoom_to_res":
        return dict(special="zoom_to_res", covers=True)
    if k == "scaled_down":
        n = op[1]
        return dict(shape=(-(-ny // n), -(-nx // n)), M=Affine.scale(n), covers=True)
    if k == "buffered":
        return dict(special="buffered", covers=True)
    if k == "mul":
        return dict(shape=(ny, nx), M=PIX_AFF[op[1]])
    if k == "rmul":
        return dict(shape=(ny, nx), M=I, T=WLD_AFF[op[1]], approx=op[1] == "R(30)")
    raise ValueError(op)


def covers_original(Rg: GeoBox, G: GeoBox):
    """all four corners of G (in world) fall inside R's pixel rectangle (1e-6 px slack)"""
    ny, nx = G.shape
    rh, rw = Rg.shape
    for p in ((0, 0), (nx, 0), (nx, ny), (0, ny)):
        x, y = Rg.wld2pix(*G.pix2wld(*p))
        if not (-1e-6 <= x <= rw + 1e-6 and -1e-6 <= y <= rh + 1e-6):
            return False, (p, (x, y))
    return True, None


def judge_op(G: GeoBox, op, dy: bool, r: R, what: str):
    k = op[0]
    m = model(tuple(G.shape), G.affine, op)
    try:
        Rg = apply_op(G, op)
    except Exception as e:  # pylint: disable=broad-except
        if not core.in_repo_tb(e):
            raise
        r.fail(f"op:{k}:raised:{type(e).__name__}", f"{what}: {type(e).__name__}: {e}")
        return None
    if not isinstance(Rg, GeoBox):
        r.fail(f"op:{k}:type", f"{what}: returned {type(Rg).__name__}")
        return None
    if Rg.crs != G.crs:
        r.fail(f"op:{k}:crs", f"{what}: crs {Rg.crs} != {G.crs}")
    sc = pix_scale(G.affine)
    exact = dy and not m.get("approx")
    if m.get("special") == "zoom_to_res":
        want = abs(G.resolution.x) * op[1]
        res = Rg.resolution
        if not (abs(abs(res.x) - want) <= 1e-9 * want and abs(abs(res.y) - want) <= 1e-9 * want):
            r.fail("op:zoom_to_res:resolution", f"{what}: resolution {res}, requested {want}")
    elif m.get("special") == "buffered":
        bx = op[1]
        by = bx if op[2] is None else op[2]
        res = G.resolution
        # contract: padded by a whole number of pixels on every side, enough to cover the buffer distance minus
        # 0.1 pixel (documented rounding), never more than one extra pixel
        px, py = (Rg.shape[1] - G.shape[1]) / 2, (Rg.shape[0] - G.shape[0]) / 2
        okx = px == int(px) and px * abs(res.x) >= bx - 0.1 * abs(res.x) - 1e-9 and (px - 1) * abs(res.x) < bx - 0.1 * abs(res.x) + 1e-9
        oky = py == int(py) and py * abs(res.y) >= by - 0.1 * abs(res.y) - 1e-9 and (py - 1) * abs(res.y) < by - 0.1 * abs(res.y) + 1e-9
        if not (okx and oky) and px >= 0 and py >= 0:
            r.fail("op:buffered:amount", f"{what}: padded by {(px, py)} px for buffer {(bx, by)} at resolution {res}")
        if px >= 0 and py >= 0:
            x0, y0 = Rg.pix2wld(px, py)
            ex, ey = G.pix2wld(0, 0)
            if not (close(x0, ex, sc, exact) and close(y0, ey, sc, exact)):
                r.fail("op:buffered:location", f"{what}: original origin at pixel {(px, py)} maps to {(x0, y0)} not {(ex, ey)}")
    else:
        if tuple(Rg.shape) != tuple(m["shape"]):
            r.fail(f"op:{k}:shape", f"{what}: shape {tuple(Rg.shape)}, contract {tuple(m['shape'])}")
            return Rg
        M, T = m.get("M") or Affine.identity(), m.get("T")
        for p in probe_points(tuple(Rg.shape)):
            gx, gy = Rg.pix2wld(*p)
            ex, ey = G.pix2wld(*(M * p))
            if T is not None:
                ex, ey = T * (ex, ey)
            if not (close(gx, ex, sc, exact) and close(gy, ey, sc, exact)):
                r.fail(f"op:{k}:location", f"{what}: pixel {p} of the result is at {(gx, gy)}, contract says {(ex, ey)}")
                break
    if m.get("covers"):
        ok, info = covers_original(Rg, G)
        if not ok:
            r.fail(f"op:{k}:does-not-cover", f"{what}: original corner {info[0]} falls at result pixel {info[1]} outside {tuple(Rg.shape)}")
    if m.get("same_region"):
        a = sorted(G.affine * p for p in ((0, 0), (G.shape[1], 0), (G.shape[1], G.shape[0]), (0, G.shape[0])))
        b = sorted(Rg.affine * p for p in ((0, 0), (Rg.shape[1], 0), (Rg.shape[1], Rg.shape[0]), (0, Rg.shape[0])))
        if not all(close(u[0], v[0], sc, exact) and close(u[1], v[1], sc, exact) for u, v in zip(a, b)):
            r.fail(f"op:{k}:region-changed", f"{what}: footprint corners {b} != {a}")
    return Rg


# -- slices ----------------------------------------------------------------------------------------------------
def gen_ops(tier):
    alpha = "DR"

    def g():
        for an in affines(alpha):
            for shape in SHAPES:
                for crs in CRSS if tier == "thorough" else (CRSS if shape in ((3, 4), (1, 7)) else ("EPSG:3857",)):
                    yield (an, shape, crs)

    return g


def run_ops(case):
    an, shape, crs = case
    A = affines("DR")[an]
    dy = is_dyadic(an)
    G = GeoBox(shape, A, crs)
    r = R(outcome=f"{an}:{'1xN' if shape[0] == 1 else 'Nx1' if shape[1] == 1 else 'NxM'}")
    cls = an
    judge_views(G, dy, r, f"GeoBox({shape}, {an}, {crs})", cls)
    n = 0
    for op in op_menu(shape, _TIER[0]):
        what = f"GeoBox({shape}, {an}, {crs}).{op}"
        Rg = judge_op(G, op, dy, r, what)
        n += 1
        # views of the result (G is "warm" here: judge_views above has read every lazy property of it, so a result that
        # inherits cached state from its parent is exposed); getitem only for a sub-menu to bound the cost
        if Rg is not None and Rg.shape[0] > 0 and Rg.shape[1] > 0 and max(Rg.shape) <= 64 and (op[0] != "getitem" or n % 7 == 0):
            rr = R()
            judge_views(Rg, dy and not model(shape, A, op).get("approx") and op[0] not in ("rotate", "rmul"), rr, what + " [views of result]", cls)
            for f in rr.fails:
                r.fail(f.key, f.msg)
    r.counts = dict(op_applications=n)
    return r


_TIER = ["quick"]


def gen_chains(tier):
    depth = 2 if tier == "quick" else 3

    def g():
        for an in ("north-up", "x-mirrored", "rot90", "sheared", "rot30", "utm-30m"):
            for shape in ((3, 4), (1, 3), (2, 1)):
                yield (an, shape, depth)

    return g


CHAIN_OPS = [("getitem", (1, None), (None, None)), ("getitem", (None, None), (None, -1)), ("getitem-int", -1), ("pad", 1, None),
             ("translate_pix", 0.5, 0.25), ("flipx",), ("flipy",), ("rotate", 90), ("rotate", 30), ("zoom_out", 2), ("zoom_out", 0.5),
             ("zoom_to_shape", 3, 5), ("scaled_down", 2), ("right",), ("bottom",), ("center_pixel",), ("mul", "S(-1,1)T"),
             ("rmul", "T(10,-20)"), ("buffered", 1, None), ("pad_wh", 4, None)]


def run_chains(case):
    an, shape, depth = case
    A = affines("DR")[an]
    G0 = GeoBox(shape, A, "EPSG:3857")
    r = R(outcome=f"chain:{an}")
    seen = {(tuple(G0.shape), tuple(G0.affine)[:6])}
    frontier = deque([(G0, 0, ())])
    states = transitions = 0
    while frontier:
        G, d, hist = frontier.popleft()
        if d >= depth:
            continue
        for op in CHAIN_OPS:
            if op[0].startswith("getitem"):
                # keep only selections that leave at least one pixel
                try:
                    mm = model(tuple(G.shape), G.affine, op)
                except Exception:  # pylint: disable=broad-except
                    continue
                if 0 in mm["shape"] or (op[0] == "getitem-int" and not -G.shape[0] <= op[1] < G.shape[0]):
                    continue
            transitions += 1
            what = f"GeoBox({shape}, {an}) after {list(hist)} then {op}"
            # chained states are never exact: compare with the R tolerance
            Rg = judge_op(G, op, False, r, what)
            if Rg is None or 0 in tuple(Rg.shape) or max(Rg.shape) > 64:
                continue
            k = (tuple(Rg.shape), tuple(round(v, 9) for v in tuple(Rg.affine)[:6]))
            if k in seen:
                continue
            seen.add(k)
            states += 1
            rr = R()
            judge_views(Rg, False, rr, what + " [views]", an)
            for f in rr.fails:
                r.fail(f.key, f.msg)
            frontier.append((Rg, d + 1, hist + (op,)))
    r.counts = dict(states=states, transitions=transitions, op_applications=transitions)
    return r


# -- GCP geoboxes ----------------------------------------------------------------------------------------------------
def gen_gcp(tier):
    def g():
        for kind in ("affine", "quadratic"):
            for npts in (3, 4, 9, 16):
                for shape in ((8, 10), (1, 10), (8, 1)):
                    yield (kind, npts, shape)

    return g


def run_gcp(case):
    kind, npts, shape = case
    ny, nx = shape
    A = Affine(0.25, 0.05, 100.0, -0.03, -0.25, 50.0)
    k = {3: None, 4: 2, 9: 3, 16: 4}[npts]
    if k is None:
        pix = [(0.0, 0.0), (10.0, 0.0), (0.0, 8.0)]
    else:
        pix = [(x, y) for y in np.linspace(0, 8, k) for x in np.linspace(0, 10, k)]
    q = 0.0 if kind == "affine" else 1e-3

    def truth(x, y):
        wx, wy = A * (x, y)
        return wx + q * x * y, wy + q * x * x

    wld = [truth(x, y) for x, y in pix]
    r = R(outcome=f"gcp:{kind}:{npts}")
    if kind == "quadratic" and npts < 9:
        r.nontrivial = False
        return r  # fit order below the truth: nothing exact to compare
    m = GCPMapping(np.asarray(pix), np.asarray(wld), "EPSG:4326")
    G = GCPGeoBox(shape, m)
    # fit residual at the control points bounds the error
    res = max(max(abs(a - b) for a, b in zip(G.pix2wld(x, y), w)) for (x, y), w in zip(pix, wld))
    tol = max(1e-9, 10 * res) if kind == "affine" else max(1e-6, 50 * res)
    # res is measured on the code under test, so it must not be left to vouch for itself: both truths judged here lie
    # in the class that is fitted (affine for any count, x*y and x*x for >= 9 points), the least-squares residual at
    # the control points is zero and pix2wld reproduces them within the R tolerance 1e-9*(|value| + pixel)
    if res > 1e-9 * (100.0 + 0.25):
        r.fail(f"gcp:base:control-points:{kind}", f"GCPGeoBox({shape}, {kind}, {npts} pts): pix2wld misses its control points by {res:g}")
    # the inverse is a separate polynomial fit: exact for affine control points, otherwise bounded by a fraction
    # (5%) of the largest non-affine displacement of the control-point model, in pixels (q*10*8 / 0.25)
    tol_inv = 1e-6 if kind == "affine" else 0.05 * (q * 10 * 8 / 0.25)
    what = f"GCPGeoBox({shape}, {kind}, {npts} pts)"

    def check(g, M, label):
        for p in probe_points(tuple(g.shape)):
            ox_, oy_ = M * p
            if kind != "affine" and not (-3 <= ox_ <= 13 and -3 <= oy_ <= 11):
                continue  # far outside the control points a polynomial fit extrapolates: no claim
            gx, gy = g.pix2wld(*p)
            ex, ey = truth(*(M * p))
            if abs(gx - ex) > tol or abs(gy - ey) > tol:
                r.fail(f"gcp:{label}:location:{kind}", f"{what} {label}: pixel {p} at {(gx, gy)}, control-point model {(ex, ey)} (tol {tol:g})")
                return
            bx, by = g.wld2pix(gx, gy)
            if abs(bx - p[0]) > tol_inv or abs(by - p[1]) > tol_inv:
                r.fail(f"gcp:{label}:inverse:{kind}", f"{what} {label}: wld2pix(pix2wld({p})) = {(bx, by)}")
                return
        if g.crs != CRS("EPSG:4326"):
            r.fail(f"gcp:{label}:crs", what)
        # resolution of THIS view: one pixel step under its own pix2wld (same decomposition as for affine boxes:
        # |step along x| and parallelogram area / |step along x|), measured at the centre of the view
        cx, cy = g.shape[1] / 2, g.shape[0] / 2
        ox_, oy_ = M * (cx, cy)
        if kind == "affine" or (-1 <= ox_ <= 11 and -1 <= oy_ <= 9):
            p0, px_, py_ = g.pix2wld(cx, cy), g.pix2wld(cx + 1, cy), g.pix2wld(cx, cy + 1)
            ux, uy = (px_[0] - p0[0], px_[1] - p0[1]), (py_[0] - p0[0], py_[1] - p0[1])
            bx_ = math.hypot(*ux)
            area = abs(ux[0] * uy[1] - ux[1] * uy[0])
            res = g.resolution
            rtol = 1e-6 if kind == "affine" else 0.05
            if abs(abs(res.x) - bx_) > rtol * bx_ or abs(abs(res.y) - area / bx_) > rtol * area / bx_:
                r.fail(f"gcp:{'base' if label == 'base' else 'derived-view'}:resolution:{kind}",
                       f"{what} {label}: resolution {res} but one pixel step of this view measures ({bx_:.6g}, {area / bx_:.6g})")

    check(G, Affine.identity(), "base")
    # chains of view operations (non-initial states): the composed pixel map must hold after every step
    ops = [("crop", lambda g: g[1:-1, 2:] if g.shape[0] > 2 and g.shape[1] > 2 else None, lambda g: Affine.translation(2, 1)),
           ("croplast", lambda g: g[-1:, :], lambda g: Affine.translation(0, g.shape[0] - 1)),
           ("pad", lambda g: g.pad(2), lambda g: Affine.translation(-2, -2)),
           ("pad13", lambda g: g.pad(1, 3), lambda g: Affine.translation(-1, -3)),
           ("zoom_out2", lambda g: g.zoom_out(2), lambda g: Affine.scale(2)),
           ("zoom_out.5", lambda g: g.zoom_out(0.5), lambda g: Affine.scale(0.5)),
           ("zoom_to45", lambda g: g.zoom_to((4, 5)), lambda g: Affine.scale(g.shape[1] / 5, g.shape[0] / 4)),
           ("pad_wh4", lambda g: g.pad_wh(4), lambda g: Affine.identity())]
    depth = 2 if _TIER[0] == "quick" else 3
    frontier = [(G, Affine.identity(), ())]
    seen_labels = set()
    for _ in range(depth):
        nxt = []
        for g, M, hist in frontier:
            for name, fn, mfn in ops:
                g2 = fn(g)
                if g2 is None or max(g2.shape) > 80:
                    continue
                M2 = M * mfn(g)
                label = "+".join(hist + (name,))
                check(g2, M2, label if len(hist) == 0 else f"{hist[-1]}-then-{name}")
                nxt.append((g2, M2, hist + (name,)))
                seen_labels.add(label)
        frontier = nxt
    r.counts = dict(op_applications=len(seen_labels))
    return r


# -- GCP geoboxes: aspect ratio of the control-point clouds ------------------------------------------------------------
# The raster (= pixel-side control-point cloud) and the world-side cloud are elongated independently: every pixel cloud
# W x H is combined with every world cloud EX x EY (pixel size EX/W by EY/H, so non-square pixels come with it) whose
# pixel-size anisotropy stays within GCPX_BOUND, under every orientation of the world axes.
GCPX_BOUND = 500  # pixel cloud, world cloud and pixel size each at most 500:1
GCPX_SHORT = 24  # pixels along the short side of the raster
GCPX_EXTENT = 240.0  # metres along the short side of the world cloud
GCPX_EPS = 1e-3  # non-affine displacement of the control points, as a fraction of the raster extent along each axis
GCPX_LAYOUT = {3: None, 4: (2, 2), 6: (2, 3), 9: (3, 3), 12: (3, 4), 15: (5, 3), 16: (4, 4), 24: (4, 6)}  # rows x cols
GCPX_ORI = {
    "north-up": Affine.scale(1, -1),
    "rot30": Affine.rotation(30) * Affine.scale(1, -1),
    "axes-swapped": Affine(0, 1, 0, 1, 0, 0),
    "x-mirrored-y-up": Affine.scale(-1, 1),
    # the diagonal: x*y is constant on the corners of a rectangle turned by 45 degrees (rank-deficient bilinear fit, F02-10)
    "rot45": Affine.rotation(45) * Affine.scale(1, -1),
    "rot-60-mirrored": Affine.rotation(-60) * Affine.scale(-1, -1),
    "rot135-y-up": Affine.rotation(135),
}
GCPX_CRS = "EPSG:32633"


def gcpx_alphabets(tier):
    ratios = (1, 3, 10, 11, 50, 500) if tier == "quick" else (1, 2, 3, 5, 9, 10, 11, 20, 50, 100, 500)
    aspects = [(1, 1)] + [(q, 1) for q in ratios[1:]] + [(1, q) for q in ratios[1:]]
    pix = [(GCPX_SHORT * a, GCPX_SHORT * b) for a, b in aspects] + [(64, 1), (1, 64)]  # (W, H); single row / column
    npts = (3, 4, 6, 9, 12, 24) if tier == "quick" else tuple(GCPX_LAYOUT)
    oris = tuple(GCPX_ORI)[:5] if tier == "quick" else tuple(GCPX_ORI)
    return pix, aspects, npts, oris


def gcpx_kinds(npts, tier):
    # the truth must lie in the class the fit uses for this many points: affine (3), bilinear (4..8), biquadratic (>= 9)
    if tier == "quick":  # non-affine truths: the smallest and the largest point count of each fit class
        return ("affine",) + (("bilinear",) if npts in (4, 6, 24) else ()) + (("quadratic",) if npts in (9, 24) else ())
    return ("affine",) + (("bilinear",) if npts >= 4 else ()) + (("quadratic",) if npts >= 9 else ())


def gen_gcp_aspect(tier):
    pix, aspects, npts_menu, oris = gcpx_alphabets(tier)

    def g():
        for npts in npts_menu:
            for kind in gcpx_kinds(npts, tier):
                for (W, H) in pix:
                    for (ax, ay) in aspects:
                        an = (ax / W) / (ay / H)  # pixel size x : pixel size y
                        if not 1 / GCPX_BOUND * (1 - 1e-9) <= an <= GCPX_BOUND * (1 + 1e-9):
                            continue
                        for ori in oris:
                            yield (kind, npts, (W, H), (ax, ay), ori)

    return g


def _aspect_class(a, b):
    return "compact" if max(a, b) <= 3 * min(a, b) else ("long-in-x" if a > b else "long-in-y")


def _ring_distance(pts, ring):
    """distance of every point (Nx2) to the closed polyline through ring (Kx2), plain numpy"""
    a = ring
    b = np.roll(ring, -1, axis=0)
    ab = b - a
    ap = pts[:, None, :] - a[None, :, :]
    ll = (ab * ab).sum(axis=1)
    t = np.clip((ap * ab[None, :, :]).sum(axis=2) / np.where(ll > 0, ll, 1), 0, 1)
    d = ap - t[:, :, None] * ab[None, :, :]
    return np.sqrt((d * d).sum(axis=2)).min(axis=1)


def run_gcp_aspect(case):
    kind, npts, (W, H), (ax, ay), ori = case
    EX, EY = GCPX_EXTENT * ax, GCPX_EXTENT * ay
    A = Affine.translation(500010.0, 6000020.0) * GCPX_ORI[ori] * Affine.scale(EX / W, EY / H)
    sc = pix_scale(A)
    eps = 0.0 if kind == "affine" else GCPX_EPS

    def truth(x, y):
        u, v = x / W, y / H
        if kind == "quadratic":
            return A * (x + eps * W * u * v, y + eps * H * (u * u - v * v))
        return A * (x + eps * W * u * v, y - eps * H * u * v)

    lay = GCPX_LAYOUT[npts]
    if lay is None:
        pix = [(0.0, 0.0), (float(W), 0.0), (0.0, float(H))]
    else:
        pix = [(float(x), float(y)) for y in np.linspace(0, H, lay[0]) for x in np.linspace(0, W, lay[1])]
    wld = [truth(x, y) for x, y in pix]
    pcls, wcls = _aspect_class(W, H), _aspect_class(ax, ay)
    fit = "fit3" if npts < 4 else "fit4" if npts < 9 else "fit9"  # the polynomial class odc-geo documents for this count
    cls = f"{kind}:{fit}:{ori}:pix-{pcls}:wld-{wcls}"
    r = R(outcome=f"gcpx:{kind}:{npts}:pix-{pcls}:wld-{wcls}:{ori}")
    G = GCPGeoBox((H, W), GCPMapping(np.asarray(pix), np.asarray(wld), GCPX_CRS))
    what = f"GCPGeoBox({(H, W)}, {npts} control points {kind}, world cloud {EX:g} x {EY:g} m, {ori})"
    axis_parallel = all(v == 0 for v in (A.b, A.d)) or all(v == 0 for v in (A.a, A.e))
    # wld2pix in ORIGINAL pixels: the R tolerance 1e-6 px, relative 1e-9 of the raster size for long rasters.  Non-affine
    # control points: the inverse of a polynomial is not a polynomial, the separate world->pixel fit is held to 5% of the
    # largest non-affine displacement along each axis (as in the gcp slice), inside the control-point hull, for world
    # grids parallel to the axes (a polynomial in the world axes has no such bound on a rotated long thin cloud)
    tol_aff = max(1e-6, 1e-9 * max(W, H))
    if not axis_parallel:
        # world cloud of aspect q turned against the world axes: the world->pixel fit is a polynomial in the WORLD axes, whose
        # higher monomials are collinear on such a cloud up to 1/q^2 - its condition number, and with it the rounding error of
        # an exact fit, grows like q^2 (measured on the diagonal: 9e-8 px at 10:1, 3.6e-7 at 50:1, 3.8e-6 at 500:1; below
        # 1e-8 px for every axis-parallel cloud).  Allowance (q/10)^2 beyond 10:1 so that no verdict hangs on a factor 3
        tol_aff *= max(1.0, (max(ax, ay) / (10 * min(ax, ay))) ** 2)
    tol_inv = (tol_aff, tol_aff) if kind == "affine" else (0.05 * eps * W, 0.05 * eps * H)

    def wclose(g_, e_):
        return all(abs(a - b) <= 1e-9 * (abs(b) + sc) for a, b in zip(g_, e_))

    def check(g, M, label, extra=()):
        key = f"gcp-aspect:{label}"
        for p in tuple(probe_points(tuple(g.shape))) + tuple(extra):
            ox_, oy_ = M * p
            inside = 0 <= ox_ <= W and 0 <= oy_ <= H
            if not (-0.25 * W <= ox_ <= 1.25 * W and -0.25 * H <= oy_ <= 1.25 * H):
                # more than a quarter of the cloud outside the control points: a polynomial fit extrapolates (the rounding
                # residue of the higher-order coefficients too, 16 raster heights away on a padded 1 x N strip): no claim
                continue
            got = g.pix2wld(*p)
            want = truth(ox_, oy_)
            if not wclose(got, want):
                r.fail(f"{key}:location:{cls}", f"{what} {label}: pixel {p} at {tuple(got)}, control points say {want}")
                return
            if kind != "affine" and not (inside and axis_parallel):
                continue
            bx, by = g.wld2pix(*got)
            ex_, ey_ = M * (bx, by)  # back in original pixels
            if abs(ex_ - ox_) > tol_inv[0] or abs(ey_ - oy_) > tol_inv[1]:
                r.fail(f"{key}:inverse:{cls}", f"{what} {label}: wld2pix(pix2wld({p})) = {(bx, by)}, "
                       f"{(ex_ - ox_, ey_ - oy_)} original pixels off (tolerance {tol_inv})")
                return
        if g.crs != CRS(GCPX_CRS):
            r.fail(f"{key}:crs", what)
        if kind != "affine":
            return
        h, w = g.shape
        # resolution of this view: its pixel -> world map is the affine A*M
        V = A * M
        bx_ = math.hypot(V.a, V.d)
        area = abs(V.a * V.e - V.b * V.d)
        res = g.resolution
        # a pixel size is a difference of world coordinates (each good to the R tolerance) divided by the pixel count
        # of the raster: relative 1e-6, or twice the world tolerance over the extent of the cloud along that pixel axis
        cmax = max(abs(A.c), abs(A.f)) + sc
        rtx, rty = max(1e-6, 2e-9 * cmax / EX), max(1e-6, 2e-9 * cmax / EY)
        if abs(abs(res.x) - bx_) > rtx * bx_ or abs(abs(res.y) - area / bx_) > rty * area / bx_:
            r.fail(f"gcp-aspect:{'base' if label == 'base' else 'derived-view'}:resolution:{cls}",
                   f"{what} {label}: resolution {res}, the control points say ({bx_:.9g}, {area / bx_:.9g})")
        if label not in ("base", "crop", "zoom_out2-then-crop"):
            return
        # footprint: the image of the pixel rectangle (here a parallelogram; vertices along the edges are welcome)
        corners = np.asarray([V * q for q in ((0, 0), (w, 0), (w, h), (0, h))])
        o = corners[0]
        ext = g.extent
        ring = np.asarray(ext.exterior.coords)[:-1, :2] if ext.geom.geom_type == "Polygon" else None
        tolw = 2e-9 * (float(np.abs(corners).max()) + sc)
        ok = ring is not None and len(ring) >= 4
        if ok:
            xs, ys = (ring - o).T
            got_area = 0.5 * abs(float((xs * np.roll(ys, -1) - np.roll(xs, -1) * ys).sum()))
            ok = float(_ring_distance(ring - o, corners - o).max()) <= tolw and \
                float(_ring_distance(corners - o, ring - o).max()) <= tolw and abs(got_area - area * w * h) <= 1e-6 * area * w * h
        if not ok or ext.crs != g.crs:
            r.fail(f"gcp-aspect:{'base' if label == 'base' else 'derived-view'}:extent:{cls}",
                   f"{what} {label}: footprint {None if ring is None else ring[:4].tolist()}... is not the image of the pixel "
                   f"rectangle {corners.tolist()}")

    Id = Affine.identity()
    check(G, Id, "base", extra=pix + [(W / 3, H / 7), (0.5, 0.5)])
    if r.fails:
        return r  # every view shares the mapping: a wrong base says it all
    cy0, cx0 = H // 4, (1 if W >= 2 else 0)
    views = [
        ("crop", lambda g: g[cy0:max(cy0 + 1, H - 1), cx0:max(cx0 + 1, W // 2 + 1)], Affine.translation(cx0, cy0)),
        ("croplast", lambda g: g[-1:, :], Affine.translation(0, H - 1)),
        ("pad21", lambda g: g.pad(2, 1), Affine.translation(-2, -1)),
        ("zoom_out2", lambda g: g.zoom_out(2), Affine.scale(2)),
        ("zoom_out.5", lambda g: g.zoom_out(0.5), Affine.scale(0.5)),
        ("zoom_to45", lambda g: g.zoom_to((4, 5)), Affine.scale(W / 5, H / 4)),
        ("pad_wh16", lambda g: g.pad_wh(16), Id),
        ("center_pixel", lambda g: g.center_pixel, Affine.translation(W // 2, H // 2)),
    ]
    n = 0
    for name, fn, M in views:
        g2 = fn(G)
        check(g2, M, name)
        n += 1
        if name == "zoom_out2":  # a non-initial state: crop the last row and the right half of the zoomed view
            h2, w2 = g2.shape
            check(g2[-1:, w2 // 2:], M * Affine.translation(w2 // 2, h2 - 1), "zoom_out2-then-crop")
            n += 1
    r.counts = dict(op_applications=n)
    return r


def slices(tier):
    _TIER[0] = tier
    return [
        e1.Slice("ops", gen_ops(tier), run_ops, "every base GeoBox x every operation with its parameter menu + view relations"),
        e1.Slice("chains", gen_chains(tier), run_chains, "E2: BFS chains of operations from 18 start GeoBoxes", shards=18),
        e1.Slice("gcp", gen_gcp(tier), run_gcp, "GCP GeoBoxes: exact (affine) and quadratic control points through crop/pad/zoom"),
        e1.Slice("gcp-aspect", gen_gcp_aspect(tier), run_gcp_aspect,
                 "GCP GeoBoxes: aspect ratio of the pixel-side and of the world-side control-point cloud (1:1 .. 500:1, both ways, "
                 "independently) x orientation x number of control points x affine/bilinear/quadratic truth, base + derived views"),
    ]


def main(ctx):
    ctx.rule = (
        "ops: complete product base GeoBox (13 affines x 19 shapes x CRS) x operation menu (all slice pairs with indices in "
        "[-n,n], all int indices, pad/zoom/rotate/... parameter menus); chains: BFS over 20 operations from 18 start boxes, "
        "dedup on (shape, affine); gcp-aspect: complete product control-point count x truth class the fit can represent "
        "(affine / bilinear / quadratic) x pixel-side cloud W x H x world-side cloud aspect x orientation of the world axes, "
        "kept where the pixel-size anisotropy is within the bound, each through 9 derived views; "
        "non-trivial = every case; evaluations count cases, op_applications counts operation calls"
    )
    gx_pix, gx_asp, gx_n, gx_ori = gcpx_alphabets(ctx.tier)
    ctx.bounds = dict(shapes=SHAPES, affines_dyadic=list(AFF_D), affines_realistic=list(AFF_R), crs=CRSS,
                      chain_depth=2 if ctx.tier == "quick" else 3, chain_ops=[str(o) for o in CHAIN_OPS],
                      gcp_aspect=dict(pixel_clouds_WxH=gx_pix, world_cloud_aspects=gx_asp, control_points=gx_n, orientations=gx_ori,
                                      kinds={n: gcpx_kinds(n, ctx.tier) for n in gx_n}, max_ratio=GCPX_BOUND,
                                      nonaffine_displacement=GCPX_EPS))
    ctx.assumptions = [
        "dyadic affines: exact ==; realistic affines, rotations by non-multiples of 90 deg, zoom_to and chained states: "
        "tolerance 1e-9*(|coordinate| + pixel size)",
        "rotated/sheared resolution contract: |first column| and pixel area / |first column| (the scale part of rotation*shear*scale)",
        "buffered(): documented rounding ceil((buffer - 0.1 px)/px) whole pixels per side",
        "gcp-aspect: pixel cloud, world cloud and pixel size each within 500:1; probes up to a quarter of the cloud outside the "
        "control points; pix2wld: 1e-9*(|coordinate| + pixel size) for every truth (all lie in the fitted class); wld2pix in original "
        "pixels: max(1e-6, 1e-9*raster size) for affine control points (times (q/10)^2 for world clouds of aspect q > 10 that are "
        "turned against the world axes: condition number of a fit in world-axis monomials), 5% of the non-affine displacement for bilinear/quadratic control points inside "
        "the hull on axis-parallel world grids (no bound is claimed for the world->pixel polynomial on rotated thin clouds: with "
        "4 control points 0.1% off affine on a 30 deg, 500:1 strip it is thousands of pixels off between the points)",
        "gcp-aspect resolution: relative 1e-6 or twice the world tolerance over the extent of the cloud along that pixel axis",
    ]
    sl = slices(ctx.tier)
    if ctx.only:
        sl = [s for s in sl if any(s.name.startswith(o) for o in ctx.only)]
    e1.run_slices(ctx, sl)
    ctx.extra.update({k: int(v) for k, v in ctx.counters.items()})


def replay(slice_name, case, tier):
    return e1.replay(slices(tier), slice_name, case).fails
