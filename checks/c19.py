"""C19 - value objects: equality, hashing, pickling, tokens and caches are coherent.

E1: all ordered pairs and triples of families of near-identical values per type.
E2: breadth-first search over histories of CRS construction / dropping / garbage collection /
transformer requests on the real module-level caches, with a differential oracle (empty-cache
observations) and a weak-reference liveness invariant for identity-keyed transformer entries.
"""
from __future__ import annotations

import copy
import gc
import itertools
import pickle
import weakref
from collections import Counter

import numpy as np
from affine import Affine
from dask.base import tokenize

from vf import core, e1, introspect, statespace
from vf.core import R

PROPERTY = "C19"
LEVEL = "model_checking"

import pyproj  # noqa: E402

from odc.geo import crs as crsmod  # noqa: E402
from odc.geo import geom, wh_  # noqa: E402
from odc.geo.crs import CRS  # noqa: E402
from odc.geo.gcp import GCPGeoBox, GCPMapping  # noqa: E402
from odc.geo.geobox import GeoBox, GeoboxTiles  # noqa: E402
from odc.geo.gridspec import GridSpec  # noqa: E402
from odc.geo.roi import Tiles, VariableSizedTiles  # noqa: E402
from odc.geo.types import ixy_, iyx_, res_, resxy_, shape_, xy_, yx_  # noqa: E402

CODES = (4326, 3857, 32633, 3577)
_PP = {c: pyproj.CRS.from_epsg(c) for c in CODES}
_WKT = {c: _PP[c].to_wkt() for c in CODES}
_JSON = {c: _PP[c].to_json_dict() for c in CODES}


def crs_by_route(route, code):
    if route == "int":
        return CRS(code)
    if route == "EPSG":
        return CRS(f"EPSG:{code}")
    if route == "epsg":
        return CRS(f"epsg:{code}")
    if route == "wkt":
        return CRS(_WKT[code])
    if route == "json":
        return CRS(copy.deepcopy(_JSON[code]))
    if route == "pyproj":
        return CRS(_PP[code])
    if route == "pyproj-new":
        return CRS(pyproj.CRS.from_epsg(code))
    if route == "crs":
        return CRS(CRS(code))
    if route == "pickle":
        return pickle.loads(pickle.dumps(CRS(f"EPSG:{code}")))
    if route == "pickle-wkt":
        return pickle.loads(pickle.dumps(CRS(_WKT[code])))
    if route in ("wkt+e", "pyproj-new+e", "EPSG+e", "json+e"):
        # same specification, but the lazily filled EPSG slot has been evaluated on this object (the library does
        # that itself when a GeoBox with this CRS is wrapped into xarray)
        c = crs_by_route(route[:-2], code)
        _ = c.epsg
        _ = c.to_epsg()
        return c
    raise ValueError(route)


ROUTES = ("int", "EPSG", "epsg", "wkt", "json", "pyproj", "pyproj-new", "crs", "pickle", "pickle-wkt",
          "wkt+e", "pyproj-new+e", "EPSG+e", "json+e")

A0 = Affine(10.0, 0.0, 500000.0, 0.0, -10.0, 6000000.0)


def _gcp_mapping(k=0, crs="EPSG:4326", enc="f8"):
    """enc: how the same control-point values are encoded when handed in (the constructor keeps arrays as given):
    f8 | i8-pix (integer pixel coordinates) | f4 (all values are exactly representable in float32) |
    negzero (-0.0 where the value is 0) | list (nested python lists) | fortran (column-major) | strided (view)."""
    pix = [(0, 0), (10, 0), (0, 10), (10, 10), (5, 5)]
    wld = [(x * 0.5 + 100 + k, 20 - y * 0.25) for x, y in pix]
    if enc == "i8-pix":
        return GCPMapping(np.asarray(pix, dtype='int64'), np.asarray(wld, dtype='float64'), crs)
    if enc == "f4":
        return GCPMapping(np.asarray(pix, dtype='float32'), np.asarray(wld, dtype='float32'), crs)
    if enc == "negzero":
        p = np.asarray(pix, dtype='float64')
        p[p == 0] = -0.0
        return GCPMapping(p, np.asarray(wld, dtype='float64'), crs)
    if enc == "fortran":
        return GCPMapping(np.asfortranarray(np.asarray(pix, dtype='float64')), np.asfortranarray(np.asarray(wld, dtype='float64')), crs)
    if enc == "strided":
        big_p = np.zeros((5, 4), dtype='float64')
        big_w = np.zeros((5, 4), dtype='float64')
        big_p[:, ::2] = pix
        big_w[:, ::2] = wld
        return GCPMapping(big_p[:, ::2], big_w[:, ::2], crs)
    return GCPMapping(np.asarray(pix, dtype='float64'), np.asarray(wld, dtype='float64'), crs)


def families():
    """type -> list of (label, value_id, builder). Same value_id <=> intended to be the same value."""
    F = {}
    F["CRS"] = [(f"{r}:{c}", c, (lambda r=r, c=c: crs_by_route(r, c))) for c in CODES for r in ROUTES]
    poly = [(0, 0), (0, 10), (10, 10), (10, 0), (0, 0)]
    F["Geometry"] = [
        ("poly-4326", 1, lambda: geom.polygon(poly, "EPSG:4326")),
        ("poly-4326-wkt", 1, lambda: geom.polygon(poly, CRS(_WKT[4326]))),
        ("poly-4326-again", 1, lambda: geom.polygon(list(poly), "epsg:4326")),
        ("poly-3857", 2, lambda: geom.polygon(poly, "EPSG:3857")),
        ("poly-nocrs", 3, lambda: geom.polygon(poly, None)),
        ("poly-moved", 4, lambda: geom.polygon([(x + 1, y) for x, y in poly], "EPSG:4326")),
        ("poly-hole", 5, lambda: geom.polygon(poly, "EPSG:4326", [(2, 2), (2, 3), (3, 3), (2, 2)])),
        ("line", 6, lambda: geom.line(poly, "EPSG:4326")),
        ("point", 7, lambda: geom.point(0, 10, "EPSG:4326")),
        ("point-3857", 8, lambda: geom.point(0, 10, "EPSG:3857")),
        ("multipoint", 9, lambda: geom.multipoint(poly[:3], "EPSG:4326")),
        ("box", 10, lambda: geom.box(0, 0, 10, 10.5, "EPSG:4326")),
        ("poly-eps1", 11, lambda: geom.polygon([(x + (1e-9 if i == 1 else 0), y) for i, (x, y) in enumerate(poly)], "EPSG:4326")),
        ("poly-eps2", 12, lambda: geom.polygon([(x + (2e-9 if i == 1 else 0), y) for i, (x, y) in enumerate(poly)], "EPSG:4326")),
        # geometry types no helper constructor produces: rings (from .exterior / .interiors), multi-part, collections, empty
        ("ring", 13, lambda: geom.polygon(poly, "EPSG:4326").exterior),
        ("ring-again", 13, lambda: geom.polygon(list(poly), "epsg:4326").exterior),
        ("ring-interior", 14, lambda: geom.polygon(poly, "EPSG:4326", [(2, 2), (2, 3), (3, 3), (2, 2)]).interiors[0]),
        ("ring-nocrs", 15, lambda: geom.polygon(poly, None).exterior),
        ("ring-geobox", 16, lambda: GeoBox((4, 5), A0, "EPSG:32633").extent.exterior),
        ("line-closed-as-ring-geobox", 17, lambda: geom.line(list(GeoBox((4, 5), A0, "EPSG:32633").extent.exterior.coords), "EPSG:32633")),
        ("multipolygon-1", 18, lambda: geom.multipolygon([[poly]], "EPSG:4326")),
        ("multipolygon-2", 19, lambda: geom.multipolygon([[poly], [[(20, 20), (20, 21), (21, 21), (20, 20)]]], "EPSG:4326")),
        ("multiline-1", 20, lambda: geom.multiline([poly], "EPSG:4326")),
        ("collection", 21, lambda: geom.multigeom([geom.point(0, 10, "EPSG:4326"), geom.point(1, 10, "EPSG:4326")]) | geom.line(poly[:2], "EPSG:4326")),
        ("empty-polygon", 22, lambda: geom.polygon(poly, "EPSG:4326") - geom.polygon(poly, "EPSG:4326")),
        ("empty-point-like", 23, lambda: geom.point(0, 10, "EPSG:4326") & geom.point(5, 5, "EPSG:4326")),
    ]
    BB = geom.BoundingBox
    F["BoundingBox"] = [
        ("bb", 1, lambda: BB(0, 1, 2, 3, "EPSG:4326")),
        ("bb-wkt", 1, lambda: BB(0, 1, 2, 3, CRS(_WKT[4326]))),
        ("bb-float", 1, lambda: BB(0.0, 1.0, 2.0, 3.0, "epsg:4326")),
        ("bb-3857", 2, lambda: BB(0, 1, 2, 3, "EPSG:3857")),
        ("bb-nocrs", 3, lambda: BB(0, 1, 2, 3, None)),
        ("bb-left", 4, lambda: BB(-1, 1, 2, 3, "EPSG:4326")),
        ("bb-bottom", 5, lambda: BB(0, 0, 2, 3, "EPSG:4326")),
        ("bb-right", 6, lambda: BB(0, 1, 2.5, 3, "EPSG:4326")),
        ("bb-top", 7, lambda: BB(0, 1, 2, 4, "EPSG:4326")),
        ("bb-eps1", 8, lambda: BB(0, 1, 2, 3 + 1e-9, "EPSG:4326")),
        ("bb-eps2", 9, lambda: BB(0, 1, 2, 3 + 2e-9, "EPSG:4326")),
        ("bb-eps-left", 10, lambda: BB(1e-12, 1, 2, 3, "EPSG:4326")),
    ]
    F["GeoBox"] = [
        ("gb", 1, lambda: GeoBox((4, 5), A0, "EPSG:32633")),
        ("gb-wkt", 1, lambda: GeoBox((4, 5), A0, CRS(_WKT[32633]))),
        ("gb-wh", 1, lambda: GeoBox(wh_(5, 4), Affine(*A0[:6]), "epsg:32633")),
        ("gb-shape-t", 2, lambda: GeoBox((5, 4), A0, "EPSG:32633")),
        ("gb-rows", 3, lambda: GeoBox((3, 5), A0, "EPSG:32633")),
        ("gb-crs", 4, lambda: GeoBox((4, 5), A0, "EPSG:3857")),
        ("gb-nocrs", 5, lambda: GeoBox((4, 5), A0, None)),
        ("gb-tx", 6, lambda: GeoBox((4, 5), A0 * Affine.translation(1, 0), "EPSG:32633")),
        ("gb-ty", 7, lambda: GeoBox((4, 5), A0 * Affine.translation(0, 1), "EPSG:32633")),
        ("gb-scale", 8, lambda: GeoBox((4, 5), A0 * Affine.scale(2), "EPSG:32633")),
        ("gb-flip", 9, lambda: GeoBox((4, 5), A0 * Affine.scale(1, -1), "EPSG:32633")),
        ("gb-rot", 10, lambda: GeoBox((4, 5), A0 * Affine.rotation(30), "EPSG:32633")),
        # near-identical: translation / scale changed by far less than a pixel (three steps expose a tolerance in ==)
        ("gb-eps-tx1", 12, lambda: GeoBox((4, 5), Affine(10.0, 0.0, 500000.0 + 4e-6, 0.0, -10.0, 6000000.0), "EPSG:32633")),
        ("gb-eps-tx2", 13, lambda: GeoBox((4, 5), Affine(10.0, 0.0, 500000.0 + 8e-6, 0.0, -10.0, 6000000.0), "EPSG:32633")),
        ("gb-eps-tx3", 14, lambda: GeoBox((4, 5), Affine(10.0, 0.0, 500000.0 + 1.2e-5, 0.0, -10.0, 6000000.0), "EPSG:32633")),
        ("gb-eps-scale", 15, lambda: GeoBox((4, 5), Affine(10.0 + 1e-9, 0.0, 500000.0, 0.0, -10.0, 6000000.0), "EPSG:32633")),
        ("gb-eps-shear", 16, lambda: GeoBox((4, 5), Affine(10.0, 1e-12, 500000.0, 0.0, -10.0, 6000000.0), "EPSG:32633")),
        ("gb-sliced", 11, lambda: GeoBox((4, 5), A0, "EPSG:32633")[1:, :]),
        ("gb-sliced-same", 11, lambda: GeoBox((3, 5), A0 * Affine.translation(0, 1), "EPSG:32633")),
    ]
    m_shared = _gcp_mapping()
    F["GCPGeoBox"] = [
        ("gcp", 1, lambda: GCPGeoBox((11, 11), m_shared)),
        ("gcp-samevalue-mapping", 1, lambda: GCPGeoBox((11, 11), _gcp_mapping())),
        ("gcp-shape", 2, lambda: GCPGeoBox((10, 11), m_shared)),
        ("gcp-affine", 3, lambda: GCPGeoBox((11, 11), m_shared, Affine.translation(1, 0))),
        ("gcp-crop", 3, lambda: GCPGeoBox((11, 12), m_shared)[:, 1:]),
        ("gcp-mapping", 4, lambda: GCPGeoBox((11, 11), _gcp_mapping(1))),
        ("gcp-crs", 5, lambda: GCPGeoBox((11, 11), _gcp_mapping(0, "EPSG:4283"))),
        ("gcp-evaluated", 1, lambda: _evaluated(GCPGeoBox((11, 11), m_shared))),
        ("gcp-eps-affine", 6, lambda: GCPGeoBox((11, 11), m_shared, Affine.translation(1e-9, 0))),
        ("gcp-eps-point", 7, lambda: GCPGeoBox((11, 11), _gcp_mapping(1e-9))),
        # same control-point values handed in under another array encoding
        ("gcp-enc-i8pix", 1, lambda: GCPGeoBox((11, 11), _gcp_mapping(enc="i8-pix"))),
        ("gcp-enc-f4", 1, lambda: GCPGeoBox((11, 11), _gcp_mapping(enc="f4"))),
        ("gcp-enc-negzero", 1, lambda: GCPGeoBox((11, 11), _gcp_mapping(enc="negzero"))),
        ("gcp-enc-fortran", 1, lambda: GCPGeoBox((11, 11), _gcp_mapping(enc="fortran"))),
        ("gcp-enc-strided", 1, lambda: GCPGeoBox((11, 11), _gcp_mapping(enc="strided"))),
        ("gcp-enc-f4-mapping1", 4, lambda: GCPGeoBox((11, 11), _gcp_mapping(1, enc="f4"))),
    ]
    F["Tiles"] = [
        ("t-10-4", 1, lambda: Tiles((10, 10), (4, 4))),
        ("t-10-4-shape", 1, lambda: Tiles(shape_((10, 10)), shape_((4, 4)))),
        ("t-11-4", 2, lambda: Tiles((11, 11), (4, 4))),  # same tile count, other base
        ("t-12-4", 3, lambda: Tiles((12, 12), (4, 4))),
        ("t-10x11-4", 4, lambda: Tiles((10, 11), (4, 4))),
        ("t-11x10-4", 5, lambda: Tiles((11, 10), (4, 4))),
        ("t-10-5", 6, lambda: Tiles((10, 10), (5, 5))),
        ("t-10-4x5", 7, lambda: Tiles((10, 10), (4, 5))),
        ("t-10-5x4", 8, lambda: Tiles((10, 10), (5, 4))),
        ("t-9-4", 9, lambda: Tiles((9, 9), (4, 4))),
        # tile at least as large as the base on some axis: differ only there
        ("t-10-16", 10, lambda: Tiles((10, 10), (16, 16))),
        ("t-10-32", 11, lambda: Tiles((10, 10), (32, 32))),
        ("t-10-10", 12, lambda: Tiles((10, 10), (10, 10))),
        ("t-10-11x10", 13, lambda: Tiles((10, 10), (11, 10))),
        ("t-10-4x16", 14, lambda: Tiles((10, 10), (4, 16))),
        ("t-10-4x32", 15, lambda: Tiles((10, 10), (4, 32))),
    ]
    V = VariableSizedTiles
    F["VariableSizedTiles"] = [
        ("v-a", 1, lambda: V(((4, 4, 2), (5, 5)))),
        ("v-a-list", 1, lambda: V(([4, 4, 2], [5, 5]))),
        ("v-perm", 2, lambda: V(((4, 2, 4), (5, 5)))),  # same lengths, same total
        ("v-swap", 3, lambda: V(((5, 5), (4, 4, 2)))),
        ("v-x", 4, lambda: V(((4, 4, 2), (5, 4, 1)))),
        ("v-one", 5, lambda: V(((10,), (10,)))),
        ("v-y-last", 6, lambda: V(((4, 4, 3), (5, 5)))),
        ("v-merge", 7, lambda: V(((8, 2), (5, 5)))),
        ("v-regular", 8, lambda: V(((4, 4, 2), (4, 4, 2)))),
        # > 1000 chunks: differ only in the middle (text form of a large array is abbreviated)
        ("v-big", 9, lambda: V(((1,) * 1500, (5,)))),
        ("v-big-mid", 10, lambda: V(((1,) * 700 + (2, 0) + (1,) * 798, (5,)))),
    ]
    gb = lambda: GeoBox((10, 10), A0, "EPSG:32633")  # noqa: E731
    F["GeoboxTiles"] = [
        ("gt", 1, lambda: GeoboxTiles(gb(), (4, 4))),
        ("gt-again", 1, lambda: GeoboxTiles(GeoBox((10, 10), A0, CRS(_WKT[32633])), (4, 4))),
        ("gt-tile", 2, lambda: GeoboxTiles(gb(), (5, 5))),
        ("gt-var", 3, lambda: GeoboxTiles(gb(), ((4, 4, 2), (4, 4, 2)))),
        ("gt-var2", 4, lambda: GeoboxTiles(gb(), ((4, 2, 4), (4, 4, 2)))),
        ("gt-base11", 5, lambda: GeoboxTiles(GeoBox((11, 11), A0, "EPSG:32633"), (4, 4))),
        ("gt-crs", 6, lambda: GeoboxTiles(GeoBox((10, 10), A0, "EPSG:3857"), (4, 4))),
        ("gt-moved", 7, lambda: GeoboxTiles(GeoBox((10, 10), A0 * Affine.translation(1, 0), "EPSG:32633"), (4, 4))),
        ("gt-tile16", 10, lambda: GeoboxTiles(gb(), (16, 16))),
        ("gt-tile32", 11, lambda: GeoboxTiles(gb(), (32, 32))),
        ("gt-tile4x16", 12, lambda: GeoboxTiles(gb(), (4, 16))),
        ("gt-tile4x32", 13, lambda: GeoboxTiles(gb(), (4, 32))),
        ("gt-eps1", 8, lambda: GeoboxTiles(GeoBox((10, 10), Affine(10.0, 0.0, 500000.0 + 4e-6, 0.0, -10.0, 6000000.0), "EPSG:32633"), (4, 4))),
        ("gt-eps2", 9, lambda: GeoboxTiles(GeoBox((10, 10), Affine(10.0, 0.0, 500000.0 + 8e-6, 0.0, -10.0, 6000000.0), "EPSG:32633"), (4, 4))),
        # irregular chunkings with the same tile count, same first tile and same total
        ("gt-var3", 14, lambda: GeoboxTiles(gb(), ((4, 3, 3), (4, 4, 2)))),
        ("gt-var4", 15, lambda: GeoboxTiles(gb(), ((4, 4, 2), (4, 2, 4)))),
        # tiled GCP GeoBoxes: same shape and tiling, other window / other control points / other CRS
        ("gt-gcp", 16, lambda: GeoboxTiles(GCPGeoBox((11, 11), m_shared), (4, 4))),
        ("gt-gcp-again", 16, lambda: GeoboxTiles(GCPGeoBox((11, 11), _gcp_mapping()), (4, 4))),
        ("gt-gcp-window", 17, lambda: GeoboxTiles(GCPGeoBox((11, 12), m_shared)[:, 1:], (4, 4))),
        ("gt-gcp-mapping", 18, lambda: GeoboxTiles(GCPGeoBox((11, 11), _gcp_mapping(1)), (4, 4))),
        ("gt-gcp-crs", 19, lambda: GeoboxTiles(GCPGeoBox((11, 11), _gcp_mapping(0, "EPSG:4283")), (4, 4))),
        ("gt-gcp-var", 20, lambda: GeoboxTiles(GCPGeoBox((11, 11), m_shared), ((4, 4, 3), (4, 4, 3)))),
        ("gt-gcp-var2", 21, lambda: GeoboxTiles(GCPGeoBox((11, 11), m_shared), ((4, 3, 4), (4, 4, 3)))),
    ]
    F["XY"] = [
        ("xy12", 1, lambda: xy_(1, 2)),
        ("yx21", 1, lambda: yx_(2, 1)),
        ("xy12-tuple", 1, lambda: xy_((1, 2))),
        ("xy21", 2, lambda: xy_(2, 1)),
        ("xy11", 3, lambda: xy_(1, 1)),
        ("xy12f", 1, lambda: xy_(1.0, 2.0)),
        ("xy1_25", 4, lambda: xy_(1, 2.5)),
        ("xy-eps", 5, lambda: xy_(1, 2 + 1e-12)),
    ]
    F["Resolution"] = [
        ("res10", 1, lambda: res_(10)),
        ("resxy", 1, lambda: resxy_(10, -10)),
        ("resxy-pos", 2, lambda: resxy_(10, 10)),
        ("resxy-ns", 3, lambda: resxy_(10, -20)),
        ("res20", 4, lambda: res_(20)),
        ("resxy-neg", 5, lambda: resxy_(-10, -10)),
        ("res-eps", 6, lambda: resxy_(10 + 1e-12, -10)),
    ]
    F["Index2d"] = [
        ("ixy", 1, lambda: ixy_(1, 2)),
        ("iyx", 1, lambda: iyx_(2, 1)),
        ("ixy21", 2, lambda: ixy_(2, 1)),
        ("ixy-neg", 3, lambda: ixy_(-1, 2)),
        ("ixy00", 4, lambda: ixy_(0, 0)),
    ]
    F["Shape2d"] = [
        ("s45", 1, lambda: shape_((4, 5))),
        ("wh54", 1, lambda: wh_(5, 4)),
        ("s54", 2, lambda: shape_((5, 4))),
        ("s44", 3, lambda: shape_((4, 4))),
        ("s05", 4, lambda: shape_((0, 5))),
    ]
    # values of DIFFERENT coordinate-pair classes (plain tuples are not odc-geo value objects and are left out) with the same or swapped numbers: no expectation
    # about which of them compare equal (id None), only coherence: symmetric ==, != consistent, equal => equal hash
    # whenever both are hashable, unequal => different token, transitivity
    F["XYmixed"] = [
        ("m-xy32", None, lambda: xy_(3, 2)),
        ("m-xy32f", None, lambda: xy_(3.0, 2.0)),
        ("m-ixy32", None, lambda: ixy_(3, 2)),
        ("m-shape-x3y2", None, lambda: shape_((2, 3))),
        ("m-wh32", None, lambda: wh_(3, 2)),
        ("m-res32", None, lambda: resxy_(3, 2)),
        ("m-ixy23", None, lambda: ixy_(2, 3)),
        ("m-shape-x2y3", None, lambda: shape_((3, 2))),
        ("m-xy33", None, lambda: xy_(3, 3)),
        ("m-ixy33", None, lambda: ixy_(3, 3)),
        ("m-shape33", None, lambda: shape_((3, 3))),
        ("m-res33", None, lambda: res_(3)),
    ]
    G = GridSpec
    F["GridSpec"] = [
        ("gs", 1, lambda: G("EPSG:3577", (100, 100), 10)),
        ("gs-wkt", 1, lambda: G(CRS(_WKT[3577]), shape_((100, 100)), res_(10))),
        ("gs-origin0", 1, lambda: G("EPSG:3577", (100, 100), 10, origin=xy_(0.0, 0.0))),
        ("gs-crs", 2, lambda: G("EPSG:3857", (100, 100), 10)),
        ("gs-shape", 3, lambda: G("EPSG:3577", (100, 200), 10)),
        ("gs-res", 4, lambda: G("EPSG:3577", (100, 100), 20)),
        ("gs-origin", 5, lambda: G("EPSG:3577", (100, 100), 10, origin=xy_(5.0, 0.0))),
        ("gs-flipx", 6, lambda: G("EPSG:3577", (100, 100), 10, flipx=True)),
        ("gs-flipy", 7, lambda: G("EPSG:3577", (100, 100), 10, flipy=True)),
        ("gs-res-shape", 8, lambda: G("EPSG:3577", (50, 50), 20)),  # same tile size in metres
        ("gs-respos", 9, lambda: G("EPSG:3577", (100, 100), resxy_(10, 10))),
        ("gs-eps-origin1", 10, lambda: G("EPSG:3577", (100, 100), 10, origin=xy_(1e-9, 0.0))),
        ("gs-eps-origin2", 11, lambda: G("EPSG:3577", (100, 100), 10, origin=xy_(2e-9, 0.0))),
        ("gs-eps-res", 12, lambda: G("EPSG:3577", (100, 100), resxy_(10 + 1e-9, -10))),
    ]
    return F


def _evaluated(g):
    g.pix2wld(1, 1)
    g.wld2pix(101.0, 19.0)
    return g


_FAM = None


def fam():
    global _FAM  # pylint: disable=global-statement
    if _FAM is None:
        _FAM = families()
    return _FAM


def _hash(x):
    try:
        return hash(x)
    except TypeError:
        return None


def _eq(a, b):
    r = a == b
    if not isinstance(r, (bool, np.bool_)):
        raise TypeError(f"== returned {type(r)}")
    return bool(r)


def _crs_str(x):
    c = x if isinstance(x, CRS) else getattr(x, "crs", None)
    if c is None and not isinstance(x, CRS):
        c = getattr(getattr(x, "base", None), "crs", None)  # GeoboxTiles
    return "" if c is None else str(c)


def _crs_cls(x):
    c = x if isinstance(x, CRS) else getattr(x, "crs", "-")
    if c == "-" and not isinstance(x, CRS):
        c = getattr(getattr(x, "base", None), "crs", "-")  # GeoboxTiles
    if isinstance(c, str):
        return "-"
    if c is None:
        return "NONE"
    return "EPSG" if str(c).startswith("EPSG:") else "TEXT"


def gen_pairs():
    for t, members in fam().items():
        n = len(members)
        for i in range(n):
            for j in range(n):
                yield (t, i, j)


def run_pair(case):
    t, i, j = case
    (la, ia, ba), (lb, ib, bb) = fam()[t][i], fam()[t][j]
    a, b = ba(), bb()
    free = ia is None or ib is None  # no expectation about equality, coherence only
    same = ia == ib
    r = R(outcome=f"{t}:{'free' if free else 'same' if same else 'diff'}", nontrivial=i != j)
    what = f"{t}: {la} vs {lb}"
    e_ab, e_ba = _eq(a, b), _eq(b, a)
    if e_ab != e_ba:
        r.fail(f"eq:asymmetric:{t}:{la}~{lb}", f"{what}: a==b is {e_ab}, b==a is {e_ba}")
    if (a != b) == e_ab:
        r.fail(f"ne:inconsistent:{t}", f"{what}: a==b {e_ab} and a!=b {a != b}")
    if free:
        r.outcome += f":{'eq' if e_ab else 'ne'}"
    elif same and not e_ab:
        r.fail(f"eq:same-value-unequal:{t}:{min(la, lb)}~{max(la, lb)}", f"{what}: same value by construction but a != b")
    if not free and not same and e_ab:
        r.fail(f"eq:different-values-equal:{t}:{min(la, lb)}~{max(la, lb)}", f"{what}: values differ in one field but a == b")
    ha, hb = _hash(a), _hash(b)
    if e_ab and ha is not None and hb is not None and ha != hb:
        if _crs_str(a) != _crs_str(b):
            # the two values differ only in how their (equal) CRS is spelled
            r.fail(f"hash:equal-objects-differ:{t}:crs-str-differs",
                   f"{what}: a == b but hash differs (CRS string forms: {_crs_str(a)[:30]!r} vs {_crs_str(b)[:30]!r})")
        else:
            r.fail(f"hash:equal-objects-differ:{t}:{min(la, lb)}~{max(la, lb)}", f"{what}: a == b but hash differs")
    ta, tb = tokenize(a), tokenize(b)
    if not e_ab and ta == tb:
        r.fail(f"token:unequal-share-token:{t}:{min(la, lb)}~{max(la, lb)}", f"{what}: a != b but same dask token {ta}")
    if i == j:
        # reflexive, clone coherence
        if not _eq(a, a):
            r.fail(f"eq:irreflexive:{t}:{la}", what)
        if (ha is None) != (hb is None):
            r.fail(f"hash:hashability-differs:{t}:{la}", what)
        for how, mk in (("pickle", lambda v: pickle.loads(pickle.dumps(v))), ("copy", copy.copy), ("deepcopy", copy.deepcopy)):
            try:
                c = mk(a)
            except Exception as e:  # pylint: disable=broad-except
                r.fail(f"clone:{how}-raised:{t}:{la}", f"{what}: {how} raised {type(e).__name__}: {e}")
                continue
            if not _eq(c, a) or not _eq(a, c):
                r.fail(f"clone:{how}-unequal:{t}:{la}", f"{what}: {how} clone is not equal to the original")
            if tokenize(c) != ta:
                r.fail(f"clone:{how}-token:{t}:{la}", f"{what}: {how} clone has another dask token")
            if ha is not None and _eq(c, a) and _hash(c) != ha:
                r.fail(f"clone:{how}-hash:{t}:{la}", f"{what}: {how} clone equal but hash differs")
        if tb != ta:
            r.fail(f"token:unstable:{t}:{la}", f"{what}: rebuilt value has another token")
    return r


def gen_triples():
    for t, members in fam().items():
        # transitivity: the '+e' (lazy state evaluated) twins of CRS routes are left to the pair slice
        idx = [i for i, m in enumerate(members) if "+e:" not in m[0]]
        for i, j, k in itertools.product(idx, repeat=3):
            if len({i, j, k}) == 3:
                yield (t, i, j, k)


_OBJ = {}


def _obj(t, i):
    k = (t, i)
    if k not in _OBJ:
        _OBJ[k] = fam()[t][i][2]()
    return _OBJ[k]


def run_triple(case):
    t, i, j, k = case
    a, b, c = _obj(t, i), _obj(t, j), _obj(t, k)
    ab, bc, ac = _eq(a, b), _eq(b, c), _eq(a, c)
    r = R(outcome=f"{t}:{int(ab)}{int(bc)}{int(ac)}", nontrivial=ab and bc)
    if ab and bc and not ac:
        la, lb, lc = (fam()[t][x][0] for x in (i, j, k))
        r.fail(f"eq:intransitive:{t}:{la}~{lb}~{lc}", f"{t}: {la}=={lb} and {lb}=={lc} but {la}!={lc}")
    return r


# -- E2: CRS cache histories ----------------------------------------------------------------------------
H_CODES = (4326, 3857)
H_ROUTES = ("int", "epsg", "wkt", "pyproj", "json")
SPECS = [(r, c) for c in H_CODES for r in H_ROUTES] + [("int", 32633)]
MAX_HANDLES = 3


# The CRS caches are module-level state of odc/geo/crs.py. They are found by INTROSPECTION (every module-level mutable
# mapping with a private name, and every `.cache` mapping of a module-level function, e.g. a cachetools wrapper), not by
# name, so that renaming them, replacing cachetools by a hand-written dict, or nesting the transformer cache differently
# does not break the harness. What the invariants read from them is structure-agnostic as well: the set of keys
# (recursively, through nested mappings) and the integers in those keys that are ids of pyproj objects we track.
from collections.abc import MutableMapping  # noqa: E402


def _cache_containers():
    out = {}
    for name, obj in vars(crsmod).items():
        if isinstance(obj, MutableMapping) and name.startswith("_") and not name.startswith("__"):
            out[name] = obj
        elif callable(obj) and getattr(obj, "__module__", None) == crsmod.__name__:
            c = getattr(obj, "cache", None)
            if isinstance(c, MutableMapping):
                out[f"{name}.cache"] = c
    if not out:
        raise e1.HarnessError("no module-level cache found in odc.geo.crs: the CRS cache histories cannot be reset")
    return out


def _walk_keys(m, depth=0):
    """every key of a (possibly nested) mapping, outermost first"""
    for k, v in list(m.items()):
        yield k
        if isinstance(v, MutableMapping) and depth < 3:
            yield from _walk_keys(v, depth + 1)


def _ints_in(k):
    if isinstance(k, bool):
        return
    if isinstance(k, int):
        yield k
    elif isinstance(k, (tuple, list, frozenset)):
        for x in k:
            yield from _ints_in(x)


def _cache_ids():
    """all integers that occur inside keys of the caches (ids of pyproj objects, for id-keyed designs)"""
    out = set()
    for c in _cache_containers().values():
        for k in _walk_keys(c):
            out.update(x for x in _ints_in(k) if x > 4096)
    return out


_PRISTINE = introspect.ModuleState(crsmod)  # taken when this module is imported, before any case has run


def _clear_caches():
    """Put the module-level state of odc/geo/crs.py back to what it was when the harness started (for the caches of the
    current tree: empty)."""
    _cache_containers()  # raises if there is nothing to reset
    _PRISTINE.restore()


def observe(c: CRS):
    return (str(c), hash(c), tokenize(c), c.epsg)


_BASE = {}


def baseline(spec):
    """Observation of a CRS built from `spec` with empty caches (differential oracle)."""
    if spec not in _BASE:
        _clear_caches()
        _BASE[spec] = observe(crs_by_route(*spec))
    return _BASE[spec]


_PROBE = (np.asarray([10.0, 11.5, 147.0]), np.asarray([-35.0, 45.0, 60.0]))
_PROBE_M = (np.asarray([1.0e6, 1.2e6, -5.0e5]), np.asarray([-4.0e6, 5.0e6, 6.0e6]))
_FRESH = {}


def fresh_transform(ca, cb):
    k = (ca, cb)
    if k not in _FRESH:
        tr = pyproj.Transformer.from_crs(pyproj.CRS.from_epsg(ca), pyproj.CRS.from_epsg(cb), always_xy=True)
        x, y = _PROBE if ca == 4326 else _PROBE_M
        _FRESH[k] = tr.transform(x.copy(), y.copy())
    return _FRESH[k]


class World:
    """Live state rebuilt from an event history on cleared caches."""

    def __init__(self, hist):
        _clear_caches()
        gc.collect()
        self.handles = []  # (spec, CRS)
        self.weak = {}  # id of a pyproj object that took part in a transformer request -> weakref to it
        self.errors = []
        for ev in hist:
            self.apply(ev, hist)

    def apply(self, ev, hist=()):
        kind = ev[0]
        if kind == "new":
            spec = ev[1]
            c = crs_by_route(*spec)
            self.handles.append((spec, c))
            before = (str(c), hash(c), tokenize(c))
            obs, want = observe(c), baseline_cached(spec)  # observe() reads .epsg: lazily built state is now filled in
            after = (str(c), hash(c), tokenize(c))
            if before != after:
                which = [n for n, a, b in zip(("str", "hash", "token"), before, after) if a != b]
                self.errors.append((f"lazy-state:{'+'.join(which)}-changes-after-reading-epsg:{spec[0]}",
                                    f"CRS from {spec}: {'/'.join(which)} changed once .epsg had been read on the object "
                                    f"({_short(before + (None,))} -> {_short(after + (None,))}); history {list(hist)}"))
            if obs != want:
                which = [n for n, a, b in zip(("str", "hash", "token", "epsg"), obs, want) if a != b]
                self.errors.append(
                    (f"history:{'+'.join(which)}:{spec[0]}:{spec[1]}",
                     f"CRS from {spec} after history {list(hist)}: str/hash/token/epsg = "
                     f"{_short(obs)} but with empty caches {_short(want)}"))
        elif kind == "drop":
            del self.handles[ev[1]]
        elif kind == "gc":
            gc.collect()
        elif kind == "tr":
            i, j = ev[1], ev[2]
            (sa, a), (sb, b) = self.handles[i], self.handles[j]
            f = a.transformer_to_crs(b)
            x, y = _PROBE if sa[1] == 4326 else _PROBE_M
            got = f(x.copy(), y.copy())
            want = fresh_transform(sa[1], sb[1])
            if not (np.array_equal(got[0], want[0], equal_nan=True) and np.array_equal(got[1], want[1], equal_nan=True)):
                self.errors.append((f"transformer:wrong-pair:{sa[1]}->{sb[1]}",
                                    f"transformer_to_crs {sa}->{sb} after {list(hist)} maps probe to {got}, fresh pyproj {want}"))
            for o in (a._crs, b._crs):
                self.weak.setdefault(id(o), weakref.ref(o))
        else:
            raise ValueError(ev)

    def invariant(self):
        out = list(self.errors)
        for i in sorted(_cache_ids()):
            w = self.weak.get(i)
            if w is not None and w() is None:
                out.append(("transformer-cache:dead-object-id",
                            f"a cache entry is keyed by {i}, the id of a pyproj object that took part in a transformer request "
                            f"and has since been garbage collected (the id can be reused by another CRS)"))
        return out

    def key(self):
        hk = tuple(s for s, _ in self.handles)
        # ids occurring in cache keys are expressed through the handles / cached values they refer to
        ids = {}
        for n, (s, c) in enumerate(self.handles):
            ids.setdefault(id(c._crs), f"h{n}")
        conts = _cache_containers()
        for c in conts.values():
            for k, v in list(c.items()):
                for o in (v if isinstance(v, tuple) else (v,)):
                    if isinstance(o, pyproj.CRS):
                        ids.setdefault(id(o), f"c:{_kstr(k)}")

        def lab(k):
            if isinstance(k, tuple):
                return "(" + ",".join(lab(x) for x in k) + ")"
            if isinstance(k, int) and not isinstance(k, bool) and k > 4096:
                return ids.get(k, "dead-or-unknown-id")
            return _kstr(k)

        ck = tuple((name, tuple(sorted(lab(k) for k in _walk_keys(c)))) for name, c in sorted(conts.items()))
        return (ck, hk)


def _kstr(k):
    if isinstance(k, str):
        return "s:" + (k if len(k) < 20 else f"wkt{len(k)}:{core.h64(k) % 9973}")
    if isinstance(k, tuple):
        return "t:" + "|".join(_kstr(x)[2:] if isinstance(x, str) else getattr(x, "__name__", repr(x))[:12] for x in k)
    s = getattr(k, "srs", repr(k))
    return f"o:{type(k).__name__}:{s if len(s) < 20 else core.h64(s) % 9973}"


def _short(obs):
    s = obs[0]
    return (s if len(s) < 24 else s[:20] + f"...[{len(s)}]", obs[1] % 10007, obs[2][:8], obs[3])


_BASE_DONE = {}


def baseline_cached(spec):
    return _BASE_DONE[spec]


def enabled(world: World):
    evs = []
    n = len(world.handles)
    if n < MAX_HANDLES:
        evs += [("new", s) for s in SPECS]
    evs += [("drop", i) for i in range(n)]
    evs.append(("gc",))
    evs += [("tr", i, j) for i in range(n) for j in range(n) if i != j]
    return evs


def run_history_bfs(case):
    depth, init = case
    # baselines first (each from empty caches), so the differential oracle is history-free
    for s in SPECS:
        _BASE_DONE[s] = baseline(s)
    _clear_caches()
    seen = set()
    from collections import deque  # pylint: disable=import-outside-toplevel

    frontier = deque([tuple(init)])
    w = World(frontier[0])
    seen.add(w.key())
    fails = {}
    states, transitions, maxd = 1, 1, len(init)
    for k, m in w.invariant():
        fails.setdefault(k, f"{m}; history={list(init)}")
    while frontier:
        hist = frontier.popleft()
        if len(hist) - len(init) >= depth:
            continue
        base = World(hist)
        evs = enabled(base)
        for ev in evs:
            h2 = hist + (ev,)
            w = World(h2)
            transitions += 1
            for k, m in w.invariant():
                fails.setdefault(k, f"{m}; history={list(h2)}")
            key = w.key()
            if key in seen:
                continue
            seen.add(key)
            states += 1
            maxd = max(maxd, len(h2))
            frontier.append(h2)
    _clear_caches()
    r = R(outcome=f"depth{depth}:init{len(init)}:{init[0][1][0]}")
    r.counts = dict(states=states, transitions=transitions, history_states=states)
    r.detail = maxd
    for k, m in fails.items():
        r.fail(k, m)
    return r


def history_cases(tier):
    d1 = 3 if tier == "quick" else 4  # events after a single construction
    d2 = 3 if tier == "quick" else 4  # events after [new, new, transformer] (non-initial start states)
    out = [(d1, (("new", s),)) for s in SPECS]
    pairs = [(("int", 4326), ("int", 3857)), (("wkt", 4326), ("pyproj", 3857)), (("pyproj", 4326), ("epsg", 3857)),
             (("json", 3857), ("int", 4326)), (("epsg", 4326), ("int", 32633))]
    out += [(d2, (("new", a), ("new", b), ("tr", 0, 1))) for a, b in pairs]
    out += [(d2, (("new", a), ("new", b), ("tr", 0, 1), ("tr", 1, 0))) for a, b in pairs[:2]]
    return out


def gen_hist(tier):
    cases = history_cases(tier)
    return lambda: iter(cases)


# -- cache pressure: long histories of one fixed shape, enumerated over the pressure level K -------------------
def pressure_specs(k):
    """k distinct CRS specifications (transverse Mercator strips with different central meridians)."""
    return [f"+proj=tmerc +lat_0=0 +lon_0={-180 + (i % 1440) * 0.25:.2f} +k=0.9996 +x_0={500000 + (i // 1440)} +y_0=0 "
            f"+datum=WGS84 +units=m +no_defs" for i in range(k)]


def gen_pressure(tier):
    ks = (0, 1, 16, 130, 300, 1100) if tier == "quick" else (0, 1, 16, 130, 300, 1100, 2100, 4200)

    def g():
        for k in ks:
            for a in (("int", 4326), ("wkt", 3857), ("pyproj", 32633)):
                for use_first in (True, False):
                    yield (k, a, use_first)

    return g


def run_pressure(case):
    """History: new A, new B, transformer(A,B) [and (B,A)], K x new distinct CRS, drop A and B, gc.
    Invariant: the pyproj objects whose ids key the transformer cache entries are still alive, and a CRS rebuilt
    from A's spec still gets a transformer that agrees with a fresh pyproj transformer."""
    k, a_spec, both = case
    _clear_caches()
    gc.collect()
    r = R(outcome=f"pressure:K{k}")
    b_spec = ("int", 3577)
    A, B = crs_by_route(*a_spec), crs_by_route(*b_spec)
    A.transformer_to_crs(B)
    if both:
        B.transformer_to_crs(A)
    ids_ab = [id(A._crs), id(B._crs)]
    refs = [weakref.ref(A._crs), weakref.ref(B._crs)]
    for spec in pressure_specs(k):
        CRS(spec)
    del A, B
    gc.collect()
    dead = [i for i, w in enumerate(refs) if w() is None]
    present = _cache_ids()
    still_keyed = [ids_ab[i] for i in dead if ids_ab[i] in present]
    if dead and still_keyed:
        r.fail("transformer-cache:dead-object-id:after-cache-pressure",
               f"after {k} further CRS constructions, dropping the handles and gc, the pyproj object(s) {dead} whose id keys "
               f"a cache entry (id {still_keyed[0]}) have been freed: the id can be reused by another CRS and the stale "
               f"transformer served for it (history: new {a_spec}, new {b_spec}, transformer, {k} x new tmerc strip, drop, gc)")
    A2, B2 = crs_by_route(*a_spec), crs_by_route(*b_spec)
    x, y = _PROBE if a_spec[1] == 4326 else _PROBE_M
    got = A2.transformer_to_crs(B2)(x.copy(), y.copy())
    want = fresh_transform(a_spec[1], b_spec[1])
    if not (np.array_equal(got[0], want[0], equal_nan=True) and np.array_equal(got[1], want[1], equal_nan=True)):
        r.fail("transformer:wrong-pair:after-cache-pressure", f"{case}: {got} vs fresh pyproj {want}")
    obs = observe(A2)
    _clear_caches()
    base = observe(crs_by_route(*a_spec))
    if obs != base and a_spec[0] == "int":
        r.fail(f"history:str+hash+token:{a_spec[0]}:{a_spec[1]}:after-cache-pressure", f"{case}: {_short(obs)} vs {_short(base)}")
    _clear_caches()
    return r


def reset_caches():
    _clear_caches()
    _OBJ.clear()


# -- pickles made in ANOTHER interpreter (another string-hash seed), as dask workers exchange them ----------------------
_HELPER = r"""
import sys, pickle, base64
sys.path[:0] = %r
from checks import c19
t = %r
out = []
for i, (label, ident, build) in enumerate(c19.fam()[t]):
    row = [label]
    for how in ("fresh", "after-hash", "after-hash-token-str"):
        o = build()
        try:
            if how != "fresh":
                try:
                    hash(o)
                except TypeError:
                    pass
            if how == "after-hash-token-str":
                c19.tokenize(o); str(o); repr(o)
            row.append(base64.b64encode(pickle.dumps(o)).decode())
        except Exception as e:
            row.append("ERR:" + type(e).__name__ + ":" + str(e)[:100])
    out.append(row)
import json
print("C19HELPER" + json.dumps(out))
"""


def gen_xproc():
    for t in fam():
        for seed in ("1", "4242"):
            yield (t, seed)


def run_xproc(case):
    """Every family member is built, (optionally) hashed / tokenised / printed and pickled by an interpreter started with
    another PYTHONHASHSEED; here it is unpickled and compared with the locally built value: equal, same dask token, and -
    when both are hashable - the same hash (a hash memoised into the pickle would differ)."""
    import base64  # pylint: disable=import-outside-toplevel
    import json  # pylint: disable=import-outside-toplevel
    import os  # pylint: disable=import-outside-toplevel
    import subprocess  # pylint: disable=import-outside-toplevel
    import sys  # pylint: disable=import-outside-toplevel

    t, seed = case
    r = R(outcome=f"xproc:{t}")
    env = dict(os.environ, PYTHONHASHSEED=seed)
    code = _HELPER % ([p for p in sys.path if p], t)
    pr = subprocess.run([sys.executable, "-B", "-c", code], capture_output=True, text=True, env=env, timeout=600)
    line = [l for l in pr.stdout.splitlines() if l.startswith("C19HELPER")]
    if pr.returncode != 0 or not line:
        raise e1.HarnessError(f"helper interpreter failed for {case}: rc={pr.returncode} {pr.stderr[-800:]}")
    rows = json.loads(line[0][len("C19HELPER"):])
    members = fam()[t]
    for (label, ident, build), row in zip(members, rows):
        assert row[0] == label
        local = build()
        hl, tl = _hash(local), tokenize(local)
        for how, blob in zip(("fresh", "after-hash", "after-hash-token-str"), row[1:]):
            what = f"{t}: {label} pickled in another interpreter ({how}, PYTHONHASHSEED={seed})"
            if blob.startswith("ERR:"):
                r.fail(f"xproc:pickle-raised:{t}:{label}", f"{what}: {blob}")
                continue
            try:
                c = pickle.loads(base64.b64decode(blob))
            except Exception as e:  # pylint: disable=broad-except
                r.fail(f"xproc:unpickle-raised:{t}:{label}", f"{what}: {type(e).__name__}: {e}")
                continue
            if not (_eq(c, local) and _eq(local, c)):
                r.fail(f"xproc:clone-unequal:{t}:{label}", f"{what}: not equal to the same value built here")
                continue
            hc = _hash(c)
            if hl is not None and hc is not None and hc != hl:
                r.fail(f"xproc:hash:equal-objects-differ:{t}:{how}", f"{what}: equal to the value built here but hash differs ({hc} vs {hl})")
            if tokenize(c) != tl:
                r.fail(f"xproc:token:{t}:{how}", f"{what}: dask token differs from the value built here")
    return r


# -- E3a: two threads asking for transformers at the same time -----------------------------------------------------------
TR_CODES = (4326, 3857, 32633)
TR_PAIRS = [(a, b) for a in TR_CODES for b in TR_CODES if a != b]


def gen_tr_sched(tier):
    bound = 2 if tier == "quick" else 3
    prev = [None, (4326, 3857), (32633, 3857)]  # a transformer request made before the race (the cache is not empty)

    def g():
        for pv in prev:
            for p1 in TR_PAIRS[:3] if tier == "quick" else TR_PAIRS:
                for p2 in TR_PAIRS:
                    yield (pv, p1, p2, bound)

    return g


def run_tr_sched(case):
    """Two threads each request a transformer (same pair, reversed pair, overlapping or disjoint pairs), possibly after an
    earlier request; every line of odc/geo/crs.py is a scheduling point; all schedules within the preemption bound. Each
    thread's transformer must map the probe points exactly like a fresh pyproj transformer for ITS pair."""
    from vf import sched  # pylint: disable=import-outside-toplevel

    pv, p1, p2, bound = case
    fails = {}

    def make(prefix):
        s = sched.Sched(prefix, [crsmod.__file__])
        _clear_caches()
        objs = {c: CRS(f"EPSG:{c}") for c in TR_CODES}
        for o in objs.values():
            _ = o.epsg
        if pv is not None:
            objs[pv[0]].transformer_to_crs(objs[pv[1]])
        res = {}

        def body(k, pair):
            def run():
                f = objs[pair[0]].transformer_to_crs(objs[pair[1]])
                x, y = _PROBE if pair[0] == 4326 else _PROBE_M
                res[k] = f(x.copy(), y.copy())
            return run

        s.spawn(body(0, p1), "t0")
        s.spawn(body(1, p2), "t1")
        s.run()
        s.res = res
        return s

    def check(x):
        for name, err in x.errors():
            if not core.in_repo_tb(err):
                raise err
            fails.setdefault(f"transformer:threads:raised:{type(err).__name__}@{core.raise_site(err)}",
                             f"{case}: {name}: {type(err).__name__}: {err}; schedule {x.choices}")
        if x.deadlock:
            fails.setdefault("transformer:threads:deadlock", f"{case}: schedule {x.choices}")
        for k, pair in ((0, p1), (1, p2)):
            got = x.res.get(k)
            want = fresh_transform(*pair)
            if got is None:
                continue
            if not (np.array_equal(got[0], want[0], equal_nan=True) and np.array_equal(got[1], want[1], equal_nan=True)):
                rel = "same-pair" if p1 == p2 else "reversed-pair" if p1 == p2[::-1] else "other-pair"
                fails.setdefault(f"transformer:threads:wrong-pair:{rel}:{'after-earlier-request' if pv else 'empty-cache'}",
                                 f"{case}: thread {k} asked for {pair[0]}->{pair[1]} and its transformer maps the probe to {got}, "
                                 f"fresh pyproj gives {want}; schedule choices {list(x.choices)}")

    st = sched.explore(make, check, bound)
    _clear_caches()
    r = R(outcome=f"tr-sched:{'same' if p1 == p2 else 'rev' if p1 == p2[::-1] else 'other'}:{'warm' if pv else 'cold'}")
    r.counts = dict(schedules=st.schedules, transitions=st.points, states=st.distinct_traces, sched_states=st.distinct_traces)
    for k, m in fails.items():
        r.fail(k, m)
    return r


def slices(tier):
    return [
        e1.Slice("pairs", gen_pairs, run_pair, "all ordered pairs per type family", setup=reset_caches),
        e1.Slice("triples", gen_triples, run_triple, "all ordered triples of distinct members per type family", setup=reset_caches),
        e1.Slice("crs-histories", gen_hist(tier), run_history_bfs,
                 "BFS over CRS cache histories, one search per initial history (single construction, or two "
                 "constructions + transformer request as non-initial start state)",
                 shards=len(history_cases(tier)), setup=reset_caches),
        e1.Slice("pickles-from-another-interpreter", gen_xproc, run_xproc,
                 "every family member pickled (fresh / after hash / after hash+token+str) by an interpreter with another hash seed",
                 shards=64, setup=reset_caches),
        e1.Slice("transformer-threads", gen_tr_sched(tier), run_tr_sched,
                 "E3a: two threads request transformers (all pair relations, cold and warm cache), every line of crs.py a "
                 "scheduling point, all schedules within the preemption bound", shards=64, setup=reset_caches),
        e1.Slice("crs-cache-pressure", gen_pressure(tier), run_pressure,
                 "histories [new A, new B, transformer, K x new distinct CRS, drop, gc] for every pressure level K in the menu",
                 shards=36, setup=reset_caches),
    ]


def main(ctx):
    ctx.rule = (
        "pairs/triples: complete products over per-type families of near-identical values (each differs from the base in "
        "one field; several construction routes per value); non-trivial = distinct members (pairs) / premises of "
        "transitivity hold (triples). histories: BFS over event sequences {new CRS by spec, drop handle, gc, transformer "
        "request} on cleared real caches, dedup on (cache key set, live handles, transformer key set)"
    )
    ctx.bounds = {"types": list(fam()), "family_sizes": {t: len(m) for t, m in fam().items()},
                  "history_depth": "init + 3 events (quick) / init + 4 (thorough); init = 1 construction or 2 constructions + 1-2 transformer requests", "history_specs": SPECS, "max_live_handles": MAX_HANDLES}
    ctx.assumptions = [
        "dask.base.tokenize is deterministic for a given value",
        "pyproj.Transformer.from_crs built from fresh EPSG objects is the reference for transformer correctness",
        "every history is replayed from cleared caches on the real module-level dictionaries (no snapshots), so object "
        "lifetimes are the real ones",
    ]
    sl = slices(ctx.tier)
    if ctx.only:
        sl = [s for s in sl if any(s.name.startswith(o) for o in ctx.only)]
    e1.run_slices(ctx, sl)
    c = ctx.counters
    ctx.extra.update(states=int(c["states"]), transitions=int(c["transitions"]),
                     traces_validated_against_impl=int(c["transitions"]),
                     explanation="states = distinct canonical cache states reached; transitions = histories executed on the "
                                 "real caches (each a full replay from cleared caches)")


def replay(slice_name, case, tier):
    return e1.replay(slices(tier), slice_name, case).fails
